//! Violation collection, known-findings matching, replay artefacts, evidence files.

use std::collections::BTreeMap;
use std::path::PathBuf;
use std::sync::Mutex;
use std::time::Instant;

use serde_json::{json, Map, Value};

#[derive(Clone, Copy, PartialEq, Eq, Debug)]
pub enum Tier {
    Quick,
    Thorough,
}

impl Tier {
    pub fn name(self) -> &'static str {
        match self {
            Tier::Quick => "quick",
            Tier::Thorough => "thorough",
        }
    }
    pub fn thorough(self) -> bool {
        self == Tier::Thorough
    }
}

pub fn verif_root() -> PathBuf {
    PathBuf::from(std::env::var("VERIF_ROOT").unwrap_or_else(|_| "/verif".to_string()))
}

/// A unique scratch directory under /verif/.scratch (never /tmp); removed by `Scratch::drop`.
pub struct Scratch {
    pub path: PathBuf,
}

impl Scratch {
    pub fn new(tag: &str) -> Scratch {
        let base = std::env::var("VERIF_SCRATCH")
            .map(PathBuf::from)
            .unwrap_or_else(|_| verif_root().join(".scratch"));
        let path = base.join(format!("{}-{}", tag, std::process::id()));
        let _ = std::fs::remove_dir_all(&path);
        std::fs::create_dir_all(&path).unwrap_or_else(|e| machinery_fail(&format!("cannot create scratch dir {:?}: {}", path, e)));
        Scratch { path }
    }
}

impl Drop for Scratch {
    fn drop(&mut self) {
        let _ = std::fs::remove_dir_all(&self.path);
    }
}

/// A path that behaves like /dev/full (opens, every write fails with ENOSPC) but is a symbolic
/// link inside the scratch directory: code under test that renames over or unlinks its output
/// replaces the link, not the device node (checks run as root; a seeded change that wrote its
/// output through rename() once replaced /dev/full itself by a regular file).
pub fn dev_full_link(dir: &std::path::Path, name: &str) -> PathBuf {
    use std::os::unix::fs::FileTypeExt;
    let ok = std::fs::metadata("/dev/full").map(|m| m.file_type().is_char_device()).unwrap_or(false)
        && std::fs::OpenOptions::new().write(true).open("/dev/full").map(|mut f| std::io::Write::write_all(&mut f, b"x").is_err()).unwrap_or(false);
    if !ok {
        machinery_fail("/dev/full is not the character device that refuses every write (environment damaged?): restore it with `rm -f /dev/full; mknod -m 666 /dev/full c 1 7`");
    }
    let link = dir.join(name);
    let _ = std::fs::remove_file(&link);
    std::os::unix::fs::symlink("/dev/full", &link).unwrap_or_else(|e| machinery_fail(&format!("cannot create {:?}: {}", link, e)));
    link
}

/// The machinery could not do its job: exit 2, never a verdict.
pub fn machinery_fail(msg: &str) -> ! {
    println!("MACHINERY-ERROR: {}", msg);
    eprintln!("MACHINERY-ERROR: {}", msg);
    std::process::exit(2);
}

struct VEntry {
    count: u64,
    what: String,
    replay: Value,
}

pub struct Report {
    pub prop: String,
    pub tier: Tier,
    pub seed: u64,
    pub level: &'static str,
    start: Instant,
    viol: Mutex<BTreeMap<String, VEntry>>,
    samples: Mutex<Vec<Value>>,
    pub assumptions: Mutex<Vec<String>>,
}

#[derive(Clone, Debug)]
struct Finding {
    property: String,
    status: String,
    key: String,
    covers: Map<String, Value>,
    what: String,
}

fn load_findings() -> Vec<Finding> {
    let path = verif_root().join("known_findings.json");
    let text = match std::fs::read_to_string(&path) {
        Ok(t) => t,
        Err(_) => return vec![],
    };
    let v: Value = serde_json::from_str(&text)
        .unwrap_or_else(|e| machinery_fail(&format!("known_findings.json is not valid JSON: {}", e)));
    let mut out = vec![];
    for f in v["findings"].as_array().cloned().unwrap_or_default() {
        let finding = Finding {
            property: f["property"].as_str().unwrap_or("").to_string(),
            status: f["status"].as_str().unwrap_or("").to_string(),
            key: f["key"].as_str().unwrap_or("").to_string(),
            covers: f["covers"].as_object().cloned().unwrap_or_default(),
            what: f["what"].as_str().unwrap_or("").to_string(),
        };
        // a wildcard needs a covers entry: either a list of values or the string "any"
        for seg in finding.key.split('/').filter(|_| finding.status == "known") {
            if let Some((dim, val)) = seg.split_once('=') {
                if val == "*" && !finding.covers.contains_key(dim) {
                    machinery_fail(&format!(
                        "known_findings.json: wildcard dimension '{}' of key '{}' has no covers entry",
                        dim, finding.key
                    ));
                }
            }
        }
        out.push(finding);
    }
    out
}

fn key_matches(f: &Finding, key: &str) -> bool {
    let ps: Vec<&str> = f.key.split('/').collect();
    let ks: Vec<&str> = key.split('/').collect();
    if ps.len() != ks.len() {
        return false;
    }
    for (p, k) in ps.iter().zip(ks.iter()) {
        if p == k {
            continue;
        }
        match (p.split_once('='), k.split_once('=')) {
            (Some((pd, "*")), Some((kd, kv))) if pd == kd => match f.covers.get(pd) {
                Some(Value::String(s)) if s == "any" => {}
                Some(Value::Array(a)) => {
                    if !a.iter().any(|x| x.as_str() == Some(kv)) {
                        return false;
                    }
                }
                _ => return false,
            },
            _ => return false,
        }
    }
    true
}

fn fnv(s: &str) -> u64 {
    let mut h: u64 = 0xcbf29ce484222325;
    for b in s.bytes() {
        h ^= b as u64;
        h = h.wrapping_mul(0x100000001b3);
    }
    h
}

/// (property, tier, level, start) of the check this process runs; read by the watchdog in `sut`
pub static CURRENT: Mutex<Option<(String, &'static str, &'static str, Instant)>> = Mutex::new(None);

impl Report {
    pub fn new(prop: &str, tier: Tier, level: &'static str) -> Report {
        *CURRENT.lock().unwrap() = Some((prop.to_string(), tier.name(), level, Instant::now()));
        let seed = std::env::var("VERIF_SEED")
            .ok()
            .and_then(|s| s.parse::<i64>().ok())
            .unwrap_or(0) as u64;
        Report {
            prop: prop.to_string(),
            tier,
            seed,
            level,
            start: Instant::now(),
            viol: Mutex::new(BTreeMap::new()),
            samples: Mutex::new(vec![]),
            assumptions: Mutex::new(vec![]),
        }
    }

    pub fn elapsed(&self) -> f64 {
        self.start.elapsed().as_secs_f64()
    }

    /// Record a violating case under a structured key. `what` and `replay` are only evaluated for
    /// the first case of a key (further cases only increase its count).
    pub fn violation(&self, key: &str, what: impl FnOnce() -> String, replay: impl FnOnce() -> Value) {
        let mut v = self.viol.lock().unwrap();
        if let Some(e) = v.get_mut(key) {
            e.count += 1;
            return;
        }
        v.insert(
            key.to_string(),
            VEntry {
                count: 1,
                what: what(),
                replay: replay(),
            },
        );
    }

    pub fn violation_keys(&self) -> usize {
        self.viol.lock().unwrap().len()
    }

    /// Keep an example case for the evidence file (at most 6 are kept).
    pub fn sample(&self, v: impl FnOnce() -> Value) {
        let mut s = self.samples.lock().unwrap();
        if s.len() < 6 {
            s.push(v());
        }
    }

    pub fn assume(&self, a: &str) {
        self.assumptions.lock().unwrap().push(a.to_string());
    }

    /// Vacuity guard: the exploration did not reach what it was built to reach → exit 2.
    pub fn guard(&self, cond: bool, msg: &str) {
        if !cond {
            // on a tree that already violates the property the exploration may well not reach
            // what it was built to reach (programs that no longer build, outcomes that no longer
            // differ): the violations are the verdict then, the guard only a note
            if self.violation_keys() > 0 {
                println!("NOTE: vacuity guard not met for {} ({}) - violations were found, they are reported", self.prop, msg);
                return;
            }
            machinery_fail(&format!("vacuity guard failed for {}: {}", self.prop, msg));
        }
    }

    /// Print KNOWN-FINDING / VIOLATION lines, write replay artefacts and the evidence file.
    /// Returns the process exit code (0 or 1).
    pub fn finish(self, mut coverage: Map<String, Value>) -> i32 {
        let findings = load_findings();
        let viol = self.viol.into_inner().unwrap();
        let root = verif_root();
        let replay_dir = root.join("replays").join(&self.prop);
        let _ = std::fs::remove_dir_all(&replay_dir);
        let mut known_hit: BTreeMap<String, (String, u64, u64, String)> = BTreeMap::new(); // finding key → (what, keys, cases, example key)
        let mut unlisted: Vec<(String, &VEntry)> = vec![];
        for (key, e) in viol.iter() {
            let m = findings
                .iter()
                .find(|f| f.property == self.prop && f.status == "known" && key_matches(f, key));
            match m {
                Some(f) => {
                    let ent = known_hit
                        .entry(f.key.clone())
                        .or_insert((f.what.clone(), 0, 0, key.clone()));
                    ent.1 += 1;
                    ent.2 += e.count;
                }
                None => unlisted.push((key.clone(), e)),
            }
        }
        for (fkey, (what, nkeys, ncases, ex)) in known_hit.iter() {
            println!(
                "KNOWN-FINDING: property={} {} [finding key {}; {} violating key(s), {} case(s), e.g. {}]",
                self.prop, what, fkey, nkeys, ncases, ex
            );
        }
        // shortest keys' cases first is not meaningful; order by key for determinism
        let mut printed = 0usize;
        if !unlisted.is_empty() {
            std::fs::create_dir_all(&replay_dir)
                .unwrap_or_else(|e| machinery_fail(&format!("cannot create {:?}: {}", replay_dir, e)));
            // every violating key of the run, one per line (the console output is capped)
            let mut all = String::new();
            for (key, e) in viol.iter() {
                all.push_str(&format!("{}\t{}\t{}\n", key, e.count, e.what.replace('\n', " ")));
            }
            let _ = std::fs::write(replay_dir.join("ALL_KEYS.tsv"), all);
        }
        let mut unlisted_json = vec![];
        for (key, e) in unlisted.iter() {
            let path = replay_dir.join(format!("{:016x}.json", fnv(key)));
            let mut doc = Map::new();
            doc.insert("property".into(), json!(self.prop));
            doc.insert("key".into(), json!(key));
            doc.insert("what".into(), json!(e.what));
            doc.insert("cases_with_this_key".into(), json!(e.count));
            if let Value::Object(m) = &e.replay {
                for (k, v) in m {
                    doc.insert(k.clone(), v.clone());
                }
            } else {
                doc.insert("case".into(), e.replay.clone());
            }
            if printed < 400 {
                std::fs::write(&path, serde_json::to_string_pretty(&Value::Object(doc)).unwrap())
                    .unwrap_or_else(|er| machinery_fail(&format!("cannot write {:?}: {}", path, er)));
                println!("VIOLATION property={} replay={}", self.prop, path.display());
                println!("  key={} cases={} :: {}", key, e.count, e.what);
                printed += 1;
            }
            if unlisted_json.len() < 50 {
                unlisted_json.push(json!({"key": key, "cases": e.count, "what": e.what}));
            }
        }
        if unlisted.len() > printed {
            println!(
                "({} further violating keys of {} not printed)",
                unlisted.len() - printed,
                self.prop
            );
        }

        let samples = self.samples.into_inner().unwrap();
        if !coverage.contains_key("samples") {
            coverage.insert("samples".into(), Value::Array(samples));
        } else if let Some(Value::Array(a)) = coverage.get_mut("samples") {
            a.extend(samples);
        }
        coverage.insert(
            "known_findings_hit".into(),
            Value::Object(
                known_hit
                    .iter()
                    .map(|(k, v)| (k.clone(), json!({"violating_keys": v.1, "cases": v.2})))
                    .collect(),
            ),
        );
        coverage.insert("violating_keys_total".into(), json!(viol.len()));
        coverage.insert("unlisted_violations".into(), Value::Array(unlisted_json));
        coverage.insert(
            "checker_cmd".into(),
            json!(format!("./run {} {}", self.prop, self.tier.name())),
        );
        let wall = self.start.elapsed().as_secs_f64();
        let ev = json!({
            "property_id": self.prop,
            "tier": self.tier.name(),
            "seed": self.seed,
            "level": self.level,
            "coverage": Value::Object(coverage),
            "assumptions": self.assumptions.into_inner().unwrap(),
            "wall_s": (wall * 1000.0).round() / 1000.0,
            "violations": unlisted.len(),
        });
        let evdir = root.join("evidence");
        let _ = std::fs::create_dir_all(&evdir);
        let evpath = evdir.join(format!("{}.json", self.prop));
        std::fs::write(&evpath, serde_json::to_string_pretty(&ev).unwrap() + "\n")
            .unwrap_or_else(|e| machinery_fail(&format!("cannot write {:?}: {}", evpath, e)));
        println!(
            "{} {}: {} violating key(s), {} unlisted, {} known finding(s) hit, {:.1}s, evidence {}",
            self.prop,
            self.tier.name(),
            viol.len(),
            unlisted.len(),
            known_hit.len(),
            wall,
            evpath.display()
        );
        if unlisted.is_empty() {
            0
        } else {
            1
        }
    }
}

/// Convenience: build a coverage map from a json!({..}) object literal.
pub fn cov(v: Value) -> Map<String, Value> {
    match v {
        Value::Object(m) => m,
        _ => panic!("coverage must be an object"),
    }
}

/// Count distinct values (sort + dedup).
pub fn distinct<T: Ord>(mut v: Vec<T>) -> usize {
    v.sort_unstable();
    v.dedup();
    v.len()
}
