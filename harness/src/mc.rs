//! E2 — explicit-state exploration of a reference model (stateright BFS, deduplication on the
//! model state, model invariants as `always` properties) + conformance replay of every trace in
//! P · Σ^≤k on the real code, where P is the state cover (one shortest access trace per distinct
//! model state).

use std::fmt::Debug;
use std::hash::Hash;
use std::sync::atomic::{AtomicUsize, Ordering};
use std::sync::{Arc, Mutex};

use rayon::prelude::*;
use stateright::{Checker, Model, Property};

use crate::report::machinery_fail;

pub trait RefModel: Clone + Send + Sync + 'static {
    type State: Clone + Debug + Hash + Eq + Send + Sync + 'static;
    type Action: Clone + Debug + PartialEq + Send + Sync + 'static;
    fn init(&self) -> Self::State;
    fn actions(&self, s: &Self::State) -> Vec<Self::Action>;
    fn step(&self, s: &Self::State, a: &Self::Action) -> Option<Self::State>;
    /// model-side invariant, checked by the model checker in every state
    fn invariant(&self, _s: &Self::State) -> bool {
        true
    }
}

#[derive(Clone)]
struct Wrap<M: RefModel> {
    m: M,
}

impl<M: RefModel> Model for Wrap<M> {
    type State = M::State;
    type Action = M::Action;
    fn init_states(&self) -> Vec<Self::State> {
        vec![self.m.init()]
    }
    fn actions(&self, state: &Self::State, actions: &mut Vec<Self::Action>) {
        actions.extend(self.m.actions(state));
    }
    fn next_state(&self, last: &Self::State, action: Self::Action) -> Option<Self::State> {
        self.m.step(last, &action)
    }
    fn properties(&self) -> Vec<Property<Self>> {
        vec![Property::always("model invariant", |w: &Wrap<M>, s: &M::State| w.m.invariant(s))]
    }
}

pub struct Explored<M: RefModel> {
    /// state cover: shortest access trace and the state it reaches, in BFS order
    pub cover: Vec<(Vec<M::Action>, M::State)>,
    pub states: usize,
    pub transitions: usize,
    pub depth: usize,
}

/// Breadth-first exploration of all model states reachable with at most `depth` actions.
/// Single-threaded on purpose: strict FIFO order makes the first path to a state a shortest one
/// and the result deterministic (the conformance replay is where the cores are used).
pub fn explore<M: RefModel>(m: &M, depth: usize) -> Explored<M> {
    let cover: Arc<Mutex<Vec<(Vec<M::Action>, M::State)>>> = Arc::new(Mutex::new(vec![]));
    let transitions = Arc::new(AtomicUsize::new(0));
    let c2 = cover.clone();
    let t2 = transitions.clone();
    let m2 = m.clone();
    let visitor = move |path: stateright::Path<M::State, M::Action>| {
        let st = path.last_state().clone();
        let n = m2.actions(&st).iter().filter(|a| m2.step(&st, a).is_some()).count();
        t2.fetch_add(n, Ordering::Relaxed);
        c2.lock().unwrap().push((path.into_actions(), st));
    };
    // stateright: the initial state has depth 1 and states at depth >= target are generated but
    // not evaluated, so traces of up to `depth` actions need target = depth + 2
    let checker = Wrap { m: m.clone() }
        .checker()
        .threads(1)
        .target_max_depth(depth + 2)
        .visitor(visitor)
        .spawn_bfs()
        .join();
    if let Some(p) = checker.discovery("model invariant") {
        machinery_fail(&format!(
            "the reference model violates its own invariant after {:?}",
            p.into_actions()
        ));
    }
    let cover = std::mem::take(&mut *cover.lock().unwrap());
    let states = cover.len();
    Explored { cover, states, transitions: transitions.load(Ordering::Relaxed), depth }
}

/// All action sequences of length <= k enabled from `s` (including the empty one).
pub fn extensions<M: RefModel>(m: &M, s: &M::State, k: usize) -> Vec<Vec<M::Action>> {
    let mut out: Vec<Vec<M::Action>> = vec![vec![]];
    let mut frontier: Vec<(Vec<M::Action>, M::State)> = vec![(vec![], s.clone())];
    for _ in 0..k {
        let mut next = vec![];
        for (tr, st) in &frontier {
            for a in m.actions(st) {
                if let Some(ns) = m.step(st, &a) {
                    let mut t = tr.clone();
                    t.push(a);
                    out.push(t.clone());
                    next.push((t, ns));
                }
            }
        }
        frontier = next;
    }
    out
}

/// As `extensions`, but at extension depth d (0-based) only actions with `keep(d, action)`.
pub fn extensions_filtered<M: RefModel>(m: &M, s: &M::State, k: usize, keep: &(dyn Fn(usize, &M::Action) -> bool + Sync)) -> Vec<Vec<M::Action>> {
    let mut out: Vec<Vec<M::Action>> = vec![vec![]];
    let mut frontier: Vec<(Vec<M::Action>, M::State)> = vec![(vec![], s.clone())];
    for d in 0..k {
        let mut next = vec![];
        for (tr, st) in &frontier {
            for a in m.actions(st) {
                if !keep(d, &a) {
                    continue;
                }
                if let Some(ns) = m.step(st, &a) {
                    let mut t = tr.clone();
                    t.push(a);
                    out.push(t.clone());
                    next.push((t, ns));
                }
            }
        }
        frontier = next;
    }
    out
}

/// Replay every trace of P · Σ_0 · Σ_1 ... (Σ_d = the actions kept at extension depth d).
pub fn conform_filtered<M: RefModel>(m: &M, ex: &Explored<M>, k: usize, keep: &(dyn Fn(usize, &M::Action) -> bool + Sync), check: impl Fn(&[M::Action]) + Sync) -> usize {
    let n = AtomicUsize::new(0);
    ex.cover.par_iter().for_each(|(path, st)| {
        for ext in extensions_filtered(m, st, k, keep) {
            let mut t = path.clone();
            t.extend(ext);
            check(&t);
            n.fetch_add(1, Ordering::Relaxed);
        }
    });
    n.load(Ordering::Relaxed)
}

/// Replay every trace of P · Σ^≤k through `check` (in parallel). Returns the number of traces.
pub fn conform<M: RefModel>(m: &M, ex: &Explored<M>, k: usize, check: impl Fn(&[M::Action]) + Sync) -> usize {
    let n = AtomicUsize::new(0);
    ex.cover.par_iter().for_each(|(path, st)| {
        for ext in extensions(m, st, k) {
            let mut t = path.clone();
            t.extend(ext);
            check(&t);
            n.fetch_add(1, Ordering::Relaxed);
        }
    });
    n.load(Ordering::Relaxed)
}
