//! A strict, independent Intel HEX reader (record syntax, byte count, checksum, types 00/01/02/04,
//! address arithmetic in u64, every byte once, exactly one EOF and it is last).

use std::collections::BTreeMap;

#[derive(Debug, Clone, PartialEq, Eq)]
pub struct Decoded {
    pub bytes: BTreeMap<u64, u8>,
    pub records: usize,
    pub data_records: usize,
    pub ext_records: usize,
}

fn hexval(c: u8) -> Option<u8> {
    match c {
        b'0'..=b'9' => Some(c - b'0'),
        b'a'..=b'f' => Some(c - b'a' + 10),
        b'A'..=b'F' => Some(c - b'A' + 10),
        _ => None,
    }
}

/// Err(description) on anything that is not a well-formed file of the allowed record kinds.
pub fn decode(text: &[u8]) -> Result<Decoded, String> {
    let mut out = Decoded { bytes: BTreeMap::new(), records: 0, data_records: 0, ext_records: 0 };
    let mut base: u64 = 0;
    let mut segment_mode = true;
    let mut eof_seen = false;
    // lines end in LF or CRLF; whitespace-only lines are not records
    for (ln, raw) in text.split(|b| *b == b'\n').enumerate() {
        let line: &[u8] = if raw.ends_with(b"\r") { &raw[..raw.len() - 1] } else { raw };
        if line.iter().all(|b| *b == b' ' || *b == b'\t') {
            continue;
        }
        let lno = ln + 1;
        if eof_seen {
            return Err(format!("line {}: record after the end-of-file record", lno));
        }
        if line[0] != b':' {
            return Err(format!("line {}: does not start with ':'", lno));
        }
        let hexpart = &line[1..];
        if hexpart.len() % 2 != 0 {
            return Err(format!("line {}: odd number of hex digits", lno));
        }
        let mut b = Vec::with_capacity(hexpart.len() / 2);
        for p in hexpart.chunks(2) {
            let hi = hexval(p[0]).ok_or_else(|| format!("line {}: non-hex character", lno))?;
            let lo = hexval(p[1]).ok_or_else(|| format!("line {}: non-hex character", lno))?;
            b.push(hi << 4 | lo);
        }
        if b.len() < 5 {
            return Err(format!("line {}: record too short", lno));
        }
        let count = b[0] as usize;
        if b.len() != count + 5 {
            return Err(format!("line {}: byte count {} does not match record length {}", lno, count, b.len() - 5));
        }
        let sum: u32 = b.iter().map(|x| *x as u32).sum();
        if sum & 0xff != 0 {
            return Err(format!("line {}: bad checksum", lno));
        }
        let offset = (b[1] as u64) << 8 | b[2] as u64;
        let rtype = b[3];
        let data = &b[4..4 + count];
        out.records += 1;
        match rtype {
            0x00 => {
                out.data_records += 1;
                for (i, v) in data.iter().enumerate() {
                    let addr = if segment_mode {
                        base + ((offset + i as u64) & 0xffff)
                    } else {
                        base + offset + i as u64
                    };
                    if out.bytes.insert(addr, *v).is_some() {
                        return Err(format!("line {}: address {:#x} written twice", lno, addr));
                    }
                }
            }
            0x01 => {
                if count != 0 {
                    return Err(format!("line {}: end-of-file record with data", lno));
                }
                eof_seen = true;
            }
            0x02 => {
                if count != 2 || offset != 0 {
                    return Err(format!("line {}: malformed extended segment address record", lno));
                }
                base = ((data[0] as u64) << 8 | data[1] as u64) << 4;
                segment_mode = true;
                out.ext_records += 1;
            }
            0x04 => {
                if count != 2 || offset != 0 {
                    return Err(format!("line {}: malformed extended linear address record", lno));
                }
                base = ((data[0] as u64) << 8 | data[1] as u64) << 16;
                segment_mode = false;
                out.ext_records += 1;
            }
            t => return Err(format!("line {}: record type {:02x} is not one of 00/01/02/04", lno, t)),
        }
    }
    if !eof_seen {
        return Err("no end-of-file record".to_string());
    }
    Ok(out)
}

/// Compare a decoded file with the image it must reproduce. None = exact.
pub fn compare(dec: &Decoded, image: &[u8]) -> Option<String> {
    if dec.bytes.len() != image.len() {
        // find the first discrepancy for the message
        for (i, b) in image.iter().enumerate() {
            match dec.bytes.get(&(i as u64)) {
                None => return Some(format!("byte at address {:#x} is missing ({} of {} bytes present)", i, dec.bytes.len(), image.len())),
                Some(v) if v != b => return Some(format!("address {:#x} holds {:02x}, image has {:02x}", i, v, b)),
                _ => {}
            }
        }
        let extra = dec.bytes.keys().find(|a| **a >= image.len() as u64).unwrap();
        return Some(format!("file defines address {:#x} outside the {}-byte image", extra, image.len()));
    }
    for (i, b) in image.iter().enumerate() {
        match dec.bytes.get(&(i as u64)) {
            None => return Some(format!("byte at address {:#x} is missing", i)),
            Some(v) if v != b => return Some(format!("address {:#x} holds {:02x}, image has {:02x}", i, v, b)),
            _ => {}
        }
    }
    None
}

/// The reader must accept the two vectors pinned in the repository's writer tests and reject
/// malformed files. Err = the reader is broken (machinery failure).
pub fn self_check() -> Result<(), String> {
    let empty = b":00000001FF\n";
    let d = decode(empty)?;
    if !d.bytes.is_empty() {
        return Err("empty file decodes to bytes".into());
    }
    let code: Vec<u8> = vec![
        0xf, 0x92, 0x10, 0x2d, 0x1f, 0x5f, 0xa, 0xf4, 0xfc, 0xcf, 0x1f, 0x90, 0xea, 0xe0, 0xf0, 0xe0, 0x5, 0x91, 0xb, 0xc0, 0xf,
        0x1a, 0x48, 0x65, 0x6c, 0x6c, 0x6f, 0x2c, 0x20, 0x57, 0x6f, 0x72, 0x6c, 0x64, 0x42, 0x0, 0x44, 0xff, 0x42, 0x0, 0x4e, 0xda,
        0x22, 0xe1,
    ];
    let text = b":020000020000FC\r\n:100000000F92102D1F5F0AF4FCCF1F90EAE0F0E082\r\n:1000100005910BC00F1A48656C6C6F2C20576F72DE\r\n:0C0020006C64420044FF42004EDA22E112\r\n:00000001FF\r\n\r\n";
    let d = decode(text)?;
    if let Some(e) = compare(&d, &code) {
        return Err(format!("pinned vector does not decode to its image: {}", e));
    }
    let bad: [(&[u8], &str); 7] = [
        (b":0100000041BF\n:00000001FF\n", "bad checksum"),
        (b":02000000414100\n:00000001FF\n", "bad length"),
        (b":00000001FF\n:0100000041BE\n", "data after EOF"),
        (b":0100000041BE\n", "no EOF"),
        (b":0100000041BE\n:0100000042BD\n:00000001FF\n", "byte twice"),
        (b":0400000500000000F7\n:00000001FF\n", "type 05"),
        (b"0100000041BE\n:00000001FF\n", "no colon"),
    ];
    for (t, why) in bad {
        if decode(t).is_ok() {
            return Err(format!("reader accepts a malformed file ({})", why));
        }
    }
    // linear and segment bases
    let d = decode(b":020000040001F9\n:0100000041BE\n:020000021000EC\n:0100100042AD\n:00000001FF\n")?;
    if d.bytes.get(&0x10000) != Some(&0x41) || d.bytes.get(&0x10010) != Some(&0x42) {
        return Err(format!("extended address arithmetic wrong: {:?}", d.bytes));
    }
    Ok(())
}
