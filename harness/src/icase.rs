//! Instruction case descriptors shared by C01 / C03 / C04 / C13: what was written, how it is
//! spelled in source, and the enumeration of the legal operand space.

use crate::isa::{self, Core, Opnd, Ptr};

#[derive(Clone, Debug, PartialEq, Eq, Hash)]
pub struct ICase {
    pub mnem: &'static str,
    pub ops: Vec<Opnd>,
}

pub fn is_relative(m: &str) -> bool {
    m == "rjmp" || m == "rcall" || (m.starts_with("br") && m != "break")
}

impl ICase {
    pub fn new(mnem: &'static str, ops: Vec<Opnd>) -> ICase {
        ICase { mnem, ops }
    }

    /// The tool's own canonical spelling. Relative targets are written pc-relative
    /// (`pc+K` with K = displacement + 1), so the text does not depend on the position.
    pub fn text(&self) -> String {
        let mut s = String::with_capacity(24);
        s.push_str(self.mnem);
        let n = self.ops.len();
        for (i, o) in self.ops.iter().enumerate() {
            s.push_str(if i == 0 { " " } else { ", " });
            if i == n - 1 && is_relative(self.mnem) {
                if let Opnd::Imm(d) = o {
                    let k = *d as i128 + 1;
                    if k >= 0 {
                        s.push_str(&format!("pc+{}", k));
                    } else {
                        s.push_str(&format!("pc-{}", -k));
                    }
                    continue;
                }
            }
            s.push_str(&o.text());
        }
        s
    }

    pub fn key_ops(&self) -> String {
        self.ops.iter().map(|o| o.text()).collect::<Vec<_>>().join(",")
    }
}

fn regs(lo: i64, hi: i64) -> impl Iterator<Item = Opnd> + Clone {
    (lo..=hi).map(Opnd::Reg)
}

/// Every legal operand tuple of every mnemonic on the full core, except the four huge address
/// spaces (lds/sts 32 x 2^16, jmp/call 2^22), which `big_case` enumerates by index.
pub fn small_cases_full() -> Vec<ICase> {
    let mut v = vec![];
    for (m, _) in isa::RR_OPS.iter() {
        for d in 0..32 {
            for r in 0..32 {
                v.push(ICase::new(m, vec![Opnd::Reg(d), Opnd::Reg(r)]));
            }
        }
    }
    for (m, _) in isa::RR_ALIAS.iter() {
        for d in regs(0, 31) {
            v.push(ICase::new(m, vec![d]));
        }
    }
    let imm_names: Vec<&'static str> = isa::IMM_OPS.iter().map(|x| x.0).chain(["sbr", "cbr"]).collect();
    for m in imm_names {
        for d in 16..32 {
            for k in -128..=255 {
                v.push(ICase::new(m, vec![Opnd::Reg(d), Opnd::Imm(k)]));
            }
        }
    }
    for d in regs(16, 31) {
        v.push(ICase::new("ser", vec![d]));
    }
    for (m, _) in isa::ONE_REG_OPS.iter() {
        for d in regs(0, 31) {
            v.push(ICase::new(m, vec![d]));
        }
    }
    for d in (0..32).step_by(2) {
        for r in (0..32).step_by(2) {
            v.push(ICase::new("movw", vec![Opnd::Reg(d), Opnd::Reg(r)]));
        }
    }
    for d in 16..32 {
        for r in 16..32 {
            v.push(ICase::new("muls", vec![Opnd::Reg(d), Opnd::Reg(r)]));
        }
    }
    for (m, _) in isa::FMUL_OPS.iter() {
        for d in 16..24 {
            for r in 16..24 {
                v.push(ICase::new(m, vec![Opnd::Reg(d), Opnd::Reg(r)]));
            }
        }
    }
    for m in ["adiw", "sbiw"] {
        for d in [24, 26, 28, 30] {
            for k in 0..64 {
                v.push(ICase::new(m, vec![Opnd::Reg(d), Opnd::Imm(k)]));
            }
        }
    }
    for p in Ptr::ALL {
        for r in 0..32 {
            v.push(ICase::new("ld", vec![Opnd::Reg(r), Opnd::Ptr(p)]));
            v.push(ICase::new("st", vec![Opnd::Ptr(p), Opnd::Reg(r)]));
        }
    }
    for b in ['Y', 'Z'] {
        for q in 0..64 {
            for r in 0..32 {
                v.push(ICase::new("ldd", vec![Opnd::Reg(r), Opnd::Disp(b, q)]));
                v.push(ICase::new("std", vec![Opnd::Disp(b, q), Opnd::Reg(r)]));
            }
        }
    }
    for m in ["lpm", "elpm"] {
        v.push(ICase::new(m, vec![]));
        for r in 0..32 {
            v.push(ICase::new(m, vec![Opnd::Reg(r), Opnd::Ptr(Ptr::Z)]));
            v.push(ICase::new(m, vec![Opnd::Reg(r), Opnd::Ptr(Ptr::ZPlus)]));
        }
    }
    for r in 0..32 {
        for a in 0..64 {
            v.push(ICase::new("in", vec![Opnd::Reg(r), Opnd::Imm(a)]));
            v.push(ICase::new("out", vec![Opnd::Imm(a), Opnd::Reg(r)]));
        }
    }
    for (m, _) in isa::IO_BIT_OPS.iter() {
        for a in 0..32 {
            for b in 0..8 {
                v.push(ICase::new(m, vec![Opnd::Imm(a), Opnd::Imm(b)]));
            }
        }
    }
    for (m, _) in isa::REG_BIT_OPS.iter() {
        for r in 0..32 {
            for b in 0..8 {
                v.push(ICase::new(m, vec![Opnd::Reg(r), Opnd::Imm(b)]));
            }
        }
    }
    for m in ["bset", "bclr"] {
        for s in 0..8 {
            v.push(ICase::new(m, vec![Opnd::Imm(s)]));
        }
    }
    for m in [
        "sec", "sez", "sen", "sev", "ses", "seh", "set", "sei", "clc", "clz", "cln", "clv", "cls", "clh", "clt", "cli",
    ] {
        v.push(ICase::new(m, vec![]));
    }
    for (m, _, bit) in isa::BRANCHES.iter() {
        if *bit == 255 {
            for s in 0..8 {
                for d in -64..=63 {
                    v.push(ICase::new(m, vec![Opnd::Imm(s), Opnd::Imm(d)]));
                }
            }
        } else {
            for d in -64..=63 {
                v.push(ICase::new(m, vec![Opnd::Imm(d)]));
            }
        }
    }
    for m in ["rjmp", "rcall"] {
        for d in -2048..=2047 {
            v.push(ICase::new(m, vec![Opnd::Imm(d)]));
        }
    }
    for (m, _) in isa::NO_OPS.iter() {
        v.push(ICase::new(m, vec![]));
    }
    v
}

/// jmp/call over 2^22 and lds/sts over 32 x 2^16 (= 2^21) each, addressed by index.
pub const BIG_TOTAL: u64 = 2 * (1 << 22) + 2 * (1 << 21);

pub fn big_case(i: u64) -> ICase {
    const J: u64 = 1 << 22;
    const L: u64 = 1 << 21;
    if i < J {
        ICase::new("jmp", vec![Opnd::Imm(i as i64)])
    } else if i < 2 * J {
        ICase::new("call", vec![Opnd::Imm((i - J) as i64)])
    } else if i < 2 * J + L {
        let k = (i - 2 * J) as i64;
        ICase::new("lds", vec![Opnd::Reg(k >> 16), Opnd::Imm(k & 0xffff)])
    } else {
        let k = (i - 2 * J - L) as i64;
        ICase::new("sts", vec![Opnd::Imm(k & 0xffff), Opnd::Reg(k >> 16)])
    }
}

/// reduced core: lds/sts, 16 registers x addresses 0x40..=0xbf
pub fn reduced_cases() -> Vec<ICase> {
    let mut v = vec![];
    for r in 16..32 {
        for a in 0x40..=0xbf {
            v.push(ICase::new("lds", vec![Opnd::Reg(r), Opnd::Imm(a)]));
            v.push(ICase::new("sts", vec![Opnd::Imm(a), Opnd::Reg(r)]));
        }
    }
    v
}

pub fn expect_bytes(core: Core, c: &ICase) -> Option<Vec<u8>> {
    isa::encode(core, c.mnem, &c.ops).map(|w| isa::words_to_bytes(&w))
}

/// Human-readable decoding of emitted bytes with the independent decoder (for reports).
pub fn describe(core: Core, bytes: &[u8]) -> String {
    if bytes.len() < 2 {
        return format!("{} byte(s)", bytes.len());
    }
    let w0 = bytes[0] as u16 | (bytes[1] as u16) << 8;
    let w1 = if bytes.len() >= 4 {
        Some(bytes[2] as u16 | (bytes[3] as u16) << 8)
    } else {
        None
    };
    match isa::decode(core, w0, w1) {
        Some(d) => format!(
            "{} {}",
            d.mnem,
            d.ops.iter().map(|o| o.text()).collect::<Vec<_>>().join(",")
        ),
        None => format!("<no instruction: {:04x}>", w0),
    }
}
