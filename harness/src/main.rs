//! vcheck — entry point of the avra-rs verification harness.
//!   vcheck <Cxx> <quick|thorough>     run one check (exit 0 / 1 / 2)
//!   vcheck replay <file>              re-execute one recorded case without the explorer
//!   vcheck selfcheck                  run the reference models' self-checks only

mod batch;
mod checks;
mod corpus;
mod lexer;
mod exprm;
mod icase;
mod ihex;
mod isa;
mod mc;
mod report;
mod sandbox;
mod sched;
mod sut;

use report::Tier;

fn main() {
    let args: Vec<String> = std::env::args().collect();
    if args.len() < 2 {
        eprintln!("usage: vcheck <Cxx> <quick|thorough> | replay <file> | selfcheck");
        std::process::exit(2);
    }
    if args[1] == "worker16" {
        std::process::exit(sandbox::worker_main());
    }
    if args[1] == "worker17" {
        std::process::exit(checks::c17::worker_main(&args));
    }
    if args[1] == "worker07lim" {
        std::process::exit(checks::c07::worker_lim_main(&args));
    }
    if args[1] == "worker07" {
        std::process::exit(checks::c07::worker_main(&args));
    }
    // Safety net: a change under test that allocates without bound (e.g. reads an endless device)
    // must end this process with an allocation failure, not take the machine down with it.
    {
        let gb: u64 = std::env::var("VERIF_AS_LIMIT_GB").ok().and_then(|v| v.parse().ok()).unwrap_or(40);
        let lim = libc::rlimit { rlim_cur: gb << 30, rlim_max: gb << 30 };
        unsafe {
            libc::setrlimit(libc::RLIMIT_AS, &lim);
        }
    }
    // Checks recurse into avra-rs on worker threads; give them room so that only C16's
    // sandboxed workers (which use the 8 MiB a CLI user gets) ever see a stack overflow.
    rayon::ThreadPoolBuilder::new()
        .stack_size(256 << 20)
        .build_global()
        .expect("rayon pool");
    if args[1].starts_with('C') {
        sut::start_watchdog();
    }
    let code = match args[1].as_str() {
        "replay" => checks::replay::run(&args[2]),
        "bench" => {
            for n in [1usize, 16, 64, 256, 1024, 4096] {
                let cases: Vec<batch::BCase> = (0..n).map(|i| { let c = icase::big_case(i as u64 * 977); batch::BCase{ text: c.text(), expect: icase::expect_bytes(isa::Core::Full, &c).unwrap() } }).collect();
                let src = batch::program("", &cases);
                let t = std::time::Instant::now();
                let reps = 20000 / n + 1;
                for _ in 0..reps { let _ = sut::build_str(&src); }
                let el = t.elapsed().as_secs_f64();
                println!("batch {:5}: {:.2} us/line", n, el * 1e6 / (reps * n) as f64);
            }
            0
        }
        "bench2" => {
            use rayon::prelude::*;
            for bs in [256usize, 4096] {
                let t = std::time::Instant::now();
                let total = 2_000_000usize;
                (0..total / bs).into_par_iter().for_each(|b| {
                    let cases: Vec<batch::BCase> = (0..bs).map(|i| { let c = icase::big_case((b * bs + i) as u64); batch::BCase{ text: c.text(), expect: icase::expect_bytes(isa::Core::Full, &c).unwrap() } }).collect();
                    match batch::run_batch("", &cases) { batch::BatchResult::AllOk => {}, _ => println!("bad") }
                });
                println!("par batch {:5}: {:.2} s for {} lines", bs, t.elapsed().as_secs_f64(), total);
            }
            0
        }
        "selfcheck" => match isa::self_check() {
            Ok(s) => {
                println!("isa self-check ok: {} first words decoded, {} unknown, {} round trips", s.decoded_first_words, s.unknown_first_words, s.roundtrips);
                0
            }
            Err(e) => {
                println!("isa self-check FAILED: {}", e);
                2
            }
        },
        prop => {
            let tier = match std::env::var("VERIF_TIER").ok().as_deref().or(args.get(2).map(|s| s.as_str())) {
                Some("thorough") => Tier::Thorough,
                _ => match args.get(2).map(|s| s.as_str()) {
                    Some("thorough") => Tier::Thorough,
                    _ => Tier::Quick,
                },
            };
            // run the check on a big-stack thread
            let prop = prop.to_string();
            std::thread::Builder::new()
                .stack_size(512 << 20)
                .spawn(move || checks::dispatch(&prop, tier))
                .unwrap()
                .join()
                .unwrap_or_else(|_| {
                    println!("MACHINERY-ERROR: check thread panicked");
                    2
                })
        }
    };
    std::process::exit(code);
}
