//! Independent AVR ISA reference: an encoder table and a decoder, written from the AVR
//! Instruction Set Manual (see DESIGN.md appendix B), not from avra-rs.
//!
//! For relative instructions (br*, brbs/brbc, rjmp, rcall) the numeric operand of the reference
//! is the *displacement* k (target = pc + 1 + k); the checks compute it from what they wrote.

#[derive(Clone, Copy, PartialEq, Eq, Debug, Hash, PartialOrd, Ord)]
pub enum Core {
    /// cores with the 32-bit lds/sts form
    Full,
    /// reduced core (AVRrc: ATtiny10/20 class): one-word lds/sts, no ldd/std
    Reduced,
}

#[derive(Clone, Copy, PartialEq, Eq, Debug, Hash, PartialOrd, Ord)]
pub enum Ptr {
    X,
    XPlus,
    MinusX,
    Y,
    YPlus,
    MinusY,
    Z,
    ZPlus,
    MinusZ,
}

impl Ptr {
    pub const ALL: [Ptr; 9] = [
        Ptr::X,
        Ptr::XPlus,
        Ptr::MinusX,
        Ptr::Y,
        Ptr::YPlus,
        Ptr::MinusY,
        Ptr::Z,
        Ptr::ZPlus,
        Ptr::MinusZ,
    ];
    pub fn text(self) -> &'static str {
        match self {
            Ptr::X => "X",
            Ptr::XPlus => "X+",
            Ptr::MinusX => "-X",
            Ptr::Y => "Y",
            Ptr::YPlus => "Y+",
            Ptr::MinusY => "-Y",
            Ptr::Z => "Z",
            Ptr::ZPlus => "Z+",
            Ptr::MinusZ => "-Z",
        }
    }
    pub fn base(self) -> char {
        match self {
            Ptr::X | Ptr::XPlus | Ptr::MinusX => 'X',
            Ptr::Y | Ptr::YPlus | Ptr::MinusY => 'Y',
            _ => 'Z',
        }
    }
}

#[derive(Clone, PartialEq, Eq, Debug, Hash, PartialOrd, Ord)]
pub enum Opnd {
    Reg(i64),
    Imm(i64),
    Ptr(Ptr),
    /// base register letter ('X','Y','Z') + displacement
    Disp(char, i64),
}

impl Opnd {
    pub fn text(&self) -> String {
        match self {
            Opnd::Reg(r) => format!("r{}", r),
            Opnd::Imm(k) => format!("{}", k),
            Opnd::Ptr(p) => p.text().to_string(),
            Opnd::Disp(b, q) => format!("{}+{}", b, q),
        }
    }
}

pub const RR_OPS: [(&str, u16); 12] = [
    ("cpc", 0x0400),
    ("sbc", 0x0800),
    ("add", 0x0c00),
    ("cpse", 0x1000),
    ("cp", 0x1400),
    ("sub", 0x1800),
    ("adc", 0x1c00),
    ("and", 0x2000),
    ("eor", 0x2400),
    ("or", 0x2800),
    ("mov", 0x2c00),
    ("mul", 0x9c00),
];

/// alias Rd → base Rd,Rd
pub const RR_ALIAS: [(&str, &str); 4] = [("lsl", "add"), ("rol", "adc"), ("tst", "and"), ("clr", "eor")];

pub const IMM_OPS: [(&str, u16); 6] = [
    ("cpi", 0x3000),
    ("sbci", 0x4000),
    ("subi", 0x5000),
    ("ori", 0x6000),
    ("andi", 0x7000),
    ("ldi", 0xe000),
];

pub const ONE_REG_OPS: [(&str, u16); 10] = [
    ("com", 0x9400),
    ("neg", 0x9401),
    ("swap", 0x9402),
    ("inc", 0x9403),
    ("asr", 0x9405),
    ("lsr", 0x9406),
    ("ror", 0x9407),
    ("dec", 0x940a),
    ("push", 0x920f),
    ("pop", 0x900f),
];

pub const NO_OPS: [(&str, u16); 11] = [
    ("ijmp", 0x9409),
    ("eijmp", 0x9419),
    ("icall", 0x9509),
    ("eicall", 0x9519),
    ("ret", 0x9508),
    ("reti", 0x9518),
    ("sleep", 0x9588),
    ("break", 0x9598),
    ("wdr", 0x95a8),
    ("nop", 0x0000),
    ("spm", 0x95e8),
];

pub const IO_BIT_OPS: [(&str, u16); 4] = [("cbi", 0x9800), ("sbic", 0x9900), ("sbi", 0x9a00), ("sbis", 0x9b00)];
pub const REG_BIT_OPS: [(&str, u16); 4] = [("bld", 0xf800), ("bst", 0xfa00), ("sbrc", 0xfc00), ("sbrs", 0xfe00)];
pub const FMUL_OPS: [(&str, u16); 4] = [("mulsu", 0x0300), ("fmul", 0x0308), ("fmuls", 0x0380), ("fmulsu", 0x0388)];

/// (mnemonic, is brbs (true) / brbc (false), flag bit)
pub const BRANCHES: [(&str, bool, u16); 20] = [
    ("brcs", true, 0),
    ("brlo", true, 0),
    ("breq", true, 1),
    ("brmi", true, 2),
    ("brvs", true, 3),
    ("brlt", true, 4),
    ("brhs", true, 5),
    ("brts", true, 6),
    ("brie", true, 7),
    ("brcc", false, 0),
    ("brsh", false, 0),
    ("brne", false, 1),
    ("brpl", false, 2),
    ("brvc", false, 3),
    ("brge", false, 4),
    ("brhc", false, 5),
    ("brtc", false, 6),
    ("brid", false, 7),
    // the generic forms take the flag number as their first operand
    ("brbs", true, 255),
    ("brbc", false, 255),
];

pub const FLAG_LETTERS: [char; 8] = ['c', 'z', 'n', 'v', 's', 'h', 't', 'i'];

fn reg(o: &Opnd, lo: i64, hi: i64) -> Option<u16> {
    match o {
        Opnd::Reg(r) if *r >= lo && *r <= hi => Some(*r as u16),
        _ => None,
    }
}

fn imm(o: &Opnd, lo: i64, hi: i64) -> Option<i64> {
    match o {
        Opnd::Imm(k) if *k >= lo && *k <= hi => Some(*k),
        _ => None,
    }
}

fn ptr_bits(p: Ptr) -> Option<u16> {
    // low nibble of the ld/st (non-displacement) forms; plain Y/Z are ldd/std q=0
    match p {
        Ptr::X => Some(0b1100),
        Ptr::XPlus => Some(0b1101),
        Ptr::MinusX => Some(0b1110),
        Ptr::YPlus => Some(0b1001),
        Ptr::MinusY => Some(0b1010),
        Ptr::ZPlus => Some(0b0001),
        Ptr::MinusZ => Some(0b0010),
        Ptr::Y | Ptr::Z => None,
    }
}

fn disp_word(base: char, q: i64) -> Option<u16> {
    if !(0..=63).contains(&q) {
        return None;
    }
    let q = q as u16;
    let b = match base {
        'Y' => 0x0008,
        'Z' => 0x0000,
        _ => return None,
    };
    Some(0x8000 | b | (q & 0x20) << 8 | (q & 0x18) << 7 | (q & 0x07))
}

/// The machine words the ISA defines for `mnem ops` on `core`, or None when the ISA cannot encode it.
pub fn encode(core: Core, mnem: &str, ops: &[Opnd]) -> Option<Vec<u16>> {
    if let Some((_, base)) = RR_OPS.iter().find(|(m, _)| *m == mnem) {
        if ops.len() != 2 {
            return None;
        }
        let d = reg(&ops[0], 0, 31)?;
        let r = reg(&ops[1], 0, 31)?;
        return Some(vec![base | (r & 0x10) << 5 | d << 4 | (r & 0x0f)]);
    }
    if let Some((_, target)) = RR_ALIAS.iter().find(|(m, _)| *m == mnem) {
        if ops.len() != 1 {
            return None;
        }
        return encode(core, target, &[ops[0].clone(), ops[0].clone()]);
    }
    if let Some((_, base)) = IMM_OPS.iter().find(|(m, _)| *m == mnem) {
        if ops.len() != 2 {
            return None;
        }
        let d = reg(&ops[0], 16, 31)? - 16;
        let k = (imm(&ops[1], -128, 255)? & 0xff) as u16;
        return Some(vec![base | (k & 0xf0) << 4 | d << 4 | (k & 0x0f)]);
    }
    if let Some((_, base)) = ONE_REG_OPS.iter().find(|(m, _)| *m == mnem) {
        if ops.len() != 1 {
            return None;
        }
        let d = reg(&ops[0], 0, 31)?;
        return Some(vec![base | d << 4]);
    }
    if let Some((_, w)) = NO_OPS.iter().find(|(m, _)| *m == mnem) {
        if !ops.is_empty() {
            return None;
        }
        return Some(vec![*w]);
    }
    if let Some((_, base)) = IO_BIT_OPS.iter().find(|(m, _)| *m == mnem) {
        if ops.len() != 2 {
            return None;
        }
        let a = imm(&ops[0], 0, 31)? as u16;
        let b = imm(&ops[1], 0, 7)? as u16;
        return Some(vec![base | a << 3 | b]);
    }
    if let Some((_, base)) = REG_BIT_OPS.iter().find(|(m, _)| *m == mnem) {
        if ops.len() != 2 {
            return None;
        }
        let d = reg(&ops[0], 0, 31)?;
        let b = imm(&ops[1], 0, 7)? as u16;
        return Some(vec![base | d << 4 | b]);
    }
    if let Some((_, base)) = FMUL_OPS.iter().find(|(m, _)| *m == mnem) {
        if ops.len() != 2 {
            return None;
        }
        let d = reg(&ops[0], 16, 23)? - 16;
        let r = reg(&ops[1], 16, 23)? - 16;
        return Some(vec![base | d << 4 | r]);
    }
    if let Some((_, set, bit)) = BRANCHES.iter().find(|(m, _, _)| *m == mnem) {
        let base: u16 = if *set { 0xf000 } else { 0xf400 };
        let (s, k) = if *bit == 255 {
            if ops.len() != 2 {
                return None;
            }
            (imm(&ops[0], 0, 7)? as u16, imm(&ops[1], -64, 63)?)
        } else {
            if ops.len() != 1 {
                return None;
            }
            (*bit, imm(&ops[0], -64, 63)?)
        };
        return Some(vec![base | ((k as u16) & 0x7f) << 3 | s]);
    }
    // se<flag> / cl<flag>
    if mnem.len() == 3 && (mnem.starts_with("se") || mnem.starts_with("cl")) {
        let c = mnem.chars().nth(2).unwrap();
        if let Some(s) = FLAG_LETTERS.iter().position(|f| *f == c) {
            if !ops.is_empty() {
                return None;
            }
            let base: u16 = if mnem.starts_with("se") { 0x9408 } else { 0x9488 };
            return Some(vec![base | (s as u16) << 4]);
        }
    }
    match mnem {
        "sbr" => {
            if ops.len() != 2 {
                return None;
            }
            encode(core, "ori", ops)
        }
        "cbr" => {
            if ops.len() != 2 {
                return None;
            }
            let k = imm(&ops[1], -128, 255)? & 0xff;
            encode(core, "andi", &[ops[0].clone(), Opnd::Imm(0xff - k)])
        }
        "ser" => {
            if ops.len() != 1 {
                return None;
            }
            encode(core, "ldi", &[ops[0].clone(), Opnd::Imm(0xff)])
        }
        "movw" => {
            if ops.len() != 2 {
                return None;
            }
            let d = reg(&ops[0], 0, 31)?;
            let r = reg(&ops[1], 0, 31)?;
            if d % 2 != 0 || r % 2 != 0 {
                return None;
            }
            Some(vec![0x0100 | (d / 2) << 4 | (r / 2)])
        }
        "muls" => {
            if ops.len() != 2 {
                return None;
            }
            let d = reg(&ops[0], 16, 31)? - 16;
            let r = reg(&ops[1], 16, 31)? - 16;
            Some(vec![0x0200 | d << 4 | r])
        }
        "adiw" | "sbiw" => {
            if ops.len() != 2 {
                return None;
            }
            let d = reg(&ops[0], 24, 30)?;
            if d % 2 != 0 {
                return None;
            }
            let k = imm(&ops[1], 0, 63)? as u16;
            let base: u16 = if mnem == "adiw" { 0x9600 } else { 0x9700 };
            Some(vec![base | (k & 0x30) << 2 | ((d - 24) / 2) << 4 | (k & 0x0f)])
        }
        "ld" | "st" => {
            if ops.len() != 2 {
                return None;
            }
            let (r, p) = if mnem == "ld" { (&ops[0], &ops[1]) } else { (&ops[1], &ops[0]) };
            let r = reg(r, 0, 31)?;
            let st: u16 = if mnem == "st" { 0x0200 } else { 0 };
            match p {
                Opnd::Ptr(Ptr::Y) => Some(vec![disp_word('Y', 0)? | st | r << 4]),
                Opnd::Ptr(Ptr::Z) => Some(vec![disp_word('Z', 0)? | st | r << 4]),
                Opnd::Ptr(p) => Some(vec![0x9000 | st | r << 4 | ptr_bits(*p)?]),
                _ => None,
            }
        }
        "ldd" | "std" => {
            if ops.len() != 2 {
                return None;
            }
            let (r, p) = if mnem == "ldd" { (&ops[0], &ops[1]) } else { (&ops[1], &ops[0]) };
            let r = reg(r, 0, 31)?;
            let st: u16 = if mnem == "std" { 0x0200 } else { 0 };
            match p {
                Opnd::Disp(b, q) => Some(vec![disp_word(*b, *q)? | st | r << 4]),
                _ => None,
            }
        }
        "lds" | "sts" => {
            if ops.len() != 2 {
                return None;
            }
            let (r, k) = if mnem == "lds" { (&ops[0], &ops[1]) } else { (&ops[1], &ops[0]) };
            match core {
                Core::Full => {
                    let r = reg(r, 0, 31)?;
                    let k = imm(k, 0, 65535)? as u16;
                    let base: u16 = if mnem == "lds" { 0x9000 } else { 0x9200 };
                    Some(vec![base | r << 4, k])
                }
                Core::Reduced => {
                    let r = reg(r, 16, 31)? - 16;
                    let a = imm(k, 0x40, 0xbf)? as u16;
                    let base: u16 = if mnem == "lds" { 0xa000 } else { 0xa800 };
                    // ADDR[7:0] = (!INST8, INST8, INST10, INST9, INST3..0)
                    Some(vec![
                        base | ((a >> 6) & 1) << 8 | ((a >> 5) & 1) << 10 | ((a >> 4) & 1) << 9 | r << 4 | (a & 0x0f),
                    ])
                }
            }
        }
        "lpm" | "elpm" => {
            let e: u16 = if mnem == "elpm" { 1 } else { 0 };
            if ops.is_empty() {
                return Some(vec![0x95c8 | e << 4]);
            }
            if ops.len() != 2 {
                return None;
            }
            let d = reg(&ops[0], 0, 31)?;
            match &ops[1] {
                Opnd::Ptr(Ptr::Z) => Some(vec![0x9004 | e << 1 | d << 4]),
                Opnd::Ptr(Ptr::ZPlus) => Some(vec![0x9005 | e << 1 | d << 4]),
                _ => None,
            }
        }
        "in" => {
            if ops.len() != 2 {
                return None;
            }
            let d = reg(&ops[0], 0, 31)?;
            let a = imm(&ops[1], 0, 63)? as u16;
            Some(vec![0xb000 | (a & 0x30) << 5 | d << 4 | (a & 0x0f)])
        }
        "out" => {
            if ops.len() != 2 {
                return None;
            }
            let a = imm(&ops[0], 0, 63)? as u16;
            let r = reg(&ops[1], 0, 31)?;
            Some(vec![0xb800 | (a & 0x30) << 5 | r << 4 | (a & 0x0f)])
        }
        "bset" | "bclr" => {
            if ops.len() != 1 {
                return None;
            }
            let s = imm(&ops[0], 0, 7)? as u16;
            let base: u16 = if mnem == "bset" { 0x9408 } else { 0x9488 };
            Some(vec![base | s << 4])
        }
        "rjmp" | "rcall" => {
            if ops.len() != 1 {
                return None;
            }
            let k = imm(&ops[0], -2048, 2047)?;
            let base: u16 = if mnem == "rjmp" { 0xc000 } else { 0xd000 };
            Some(vec![base | (k as u16) & 0x0fff])
        }
        "jmp" | "call" => {
            if ops.len() != 1 {
                return None;
            }
            let k = imm(&ops[0], 0, 4_194_303)? as u32;
            let base: u16 = if mnem == "jmp" { 0x940c } else { 0x940e };
            let hi = (k >> 16) as u16; // k21..k16
            Some(vec![base | (hi & 0x3e) << 3 | (hi & 1), (k & 0xffff) as u16])
        }
        _ => None,
    }
}

/// Is this mnemonic known to the reference at all (in any operand configuration)?
pub fn known_mnemonic(m: &str) -> bool {
    all_mnemonics().iter().any(|x| *x == m)
}

pub fn all_mnemonics() -> Vec<&'static str> {
    let mut v: Vec<&'static str> = vec![];
    v.extend(RR_OPS.iter().map(|x| x.0));
    v.extend(RR_ALIAS.iter().map(|x| x.0));
    v.extend(IMM_OPS.iter().map(|x| x.0));
    v.extend(["sbr", "cbr", "ser"]);
    v.extend(ONE_REG_OPS.iter().map(|x| x.0));
    v.extend(["movw", "muls"]);
    v.extend(FMUL_OPS.iter().map(|x| x.0));
    v.extend(["adiw", "sbiw", "ld", "st", "ldd", "std", "lds", "sts", "lpm", "elpm", "in", "out"]);
    v.extend(IO_BIT_OPS.iter().map(|x| x.0));
    v.extend(REG_BIT_OPS.iter().map(|x| x.0));
    v.extend(["bset", "bclr"]);
    v.extend([
        "sec", "sez", "sen", "sev", "ses", "seh", "set", "sei", "clc", "clz", "cln", "clv", "cls", "clh", "clt", "cli",
    ]);
    v.extend(BRANCHES.iter().map(|x| x.0));
    v.extend(["rjmp", "rcall", "jmp", "call"]);
    v.extend(NO_OPS.iter().map(|x| x.0));
    v
}

#[derive(Clone, PartialEq, Eq, Debug)]
pub struct Decoded {
    pub mnem: &'static str,
    pub ops: Vec<Opnd>,
    pub len: usize,
}

fn sext(v: u16, bits: u32) -> i64 {
    let v = v as i64;
    if v & (1 << (bits - 1)) != 0 {
        v - (1 << bits)
    } else {
        v
    }
}

/// Independent decoder: a priority list of mask/value patterns from the Instruction Set Manual.
/// `w1` is the following word (needed for the two-word forms). Returns canonical mnemonics only
/// (never an alias): add/adc/and/eor for lsl/rol/tst/clr, ori/andi/ldi for sbr/cbr/ser,
/// bset/bclr for se*/cl*, brbs/brbc for br**, ldd/std q=0 for ld/st through plain Y/Z.
pub fn decode(core: Core, w: u16, w1: Option<u16>) -> Option<Decoded> {
    let d5 = ((w >> 4) & 0x1f) as i64;
    let r5 = (((w >> 5) & 0x10) | (w & 0x0f)) as i64;
    let one = |m: &'static str, ops: Vec<Opnd>| Some(Decoded { mnem: m, ops, len: 1 });
    if w == 0x0000 {
        return one("nop", vec![]);
    }
    match w & 0xff00 {
        0x0100 => {
            return one(
                "movw",
                vec![Opnd::Reg((((w >> 4) & 0xf) * 2) as i64), Opnd::Reg(((w & 0xf) * 2) as i64)],
            )
        }
        0x0200 => {
            return one(
                "muls",
                vec![Opnd::Reg((((w >> 4) & 0xf) + 16) as i64), Opnd::Reg(((w & 0xf) + 16) as i64)],
            )
        }
        0x0300 => {
            let m = match (w & 0x80 != 0, w & 0x08 != 0) {
                (false, false) => "mulsu",
                (false, true) => "fmul",
                (true, false) => "fmuls",
                (true, true) => "fmulsu",
            };
            return one(
                m,
                vec![Opnd::Reg((((w >> 4) & 0x7) + 16) as i64), Opnd::Reg(((w & 0x7) + 16) as i64)],
            );
        }
        _ => {}
    }
    if w & 0xff00 == 0x0000 {
        return None; // 0000 0000 xxxx xxxx other than nop: reserved
    }
    if w < 0x3000 {
        let m = match w & 0xfc00 {
            0x0400 => "cpc",
            0x0800 => "sbc",
            0x0c00 => "add",
            0x1000 => "cpse",
            0x1400 => "cp",
            0x1800 => "sub",
            0x1c00 => "adc",
            0x2000 => "and",
            0x2400 => "eor",
            0x2800 => "or",
            0x2c00 => "mov",
            _ => return None,
        };
        return one(m, vec![Opnd::Reg(d5), Opnd::Reg(r5)]);
    }
    let imm_m = match w & 0xf000 {
        0x3000 => Some("cpi"),
        0x4000 => Some("sbci"),
        0x5000 => Some("subi"),
        0x6000 => Some("ori"),
        0x7000 => Some("andi"),
        0xe000 => Some("ldi"),
        _ => None,
    };
    if let Some(m) = imm_m {
        let k = (((w >> 4) & 0xf0) | (w & 0x0f)) as i64;
        return one(m, vec![Opnd::Reg((((w >> 4) & 0xf) + 16) as i64), Opnd::Imm(k)]);
    }
    match w & 0xf000 {
        0x8000 | 0xa000 => {
            if core == Core::Reduced {
                if w & 0xf000 == 0xa000 {
                    let a = ((w >> 8) & 1) << 6 | ((w >> 10) & 1) << 5 | ((w >> 9) & 1) << 4 | (w & 0xf);
                    let a = a | (((w >> 8) & 1) ^ 1) << 7;
                    let r = Opnd::Reg((((w >> 4) & 0xf) + 16) as i64);
                    return if w & 0x0800 == 0 {
                        one("lds", vec![r, Opnd::Imm(a as i64)])
                    } else {
                        one("sts", vec![Opnd::Imm(a as i64), r])
                    };
                }
                // the reduced core has ld/st through plain Y/Z (the q = 0 encodings) but no
                // displacement forms: q4,q3 = bits 11,10 and q2..0 = bits 2..0 must be zero
                if w & 0x0c07 != 0 {
                    return None;
                }
            }
            let q = (((w >> 8) & 0x20) | ((w >> 7) & 0x18) | (w & 0x7)) as i64;
            let base = if w & 0x8 != 0 { 'Y' } else { 'Z' };
            return if w & 0x0200 == 0 {
                one("ldd", vec![Opnd::Reg(d5), Opnd::Disp(base, q)])
            } else {
                one("std", vec![Opnd::Disp(base, q), Opnd::Reg(d5)])
            };
        }
        0xb000 => {
            let a = (((w >> 5) & 0x30) | (w & 0xf)) as i64;
            return if w & 0x0800 == 0 {
                one("in", vec![Opnd::Reg(d5), Opnd::Imm(a)])
            } else {
                one("out", vec![Opnd::Imm(a), Opnd::Reg(d5)])
            };
        }
        0xc000 => return one("rjmp", vec![Opnd::Imm(sext(w & 0xfff, 12))]),
        0xd000 => return one("rcall", vec![Opnd::Imm(sext(w & 0xfff, 12))]),
        0xf000 => {
            let b = (w & 7) as i64;
            if w & 0x0800 == 0 {
                let k = sext((w >> 3) & 0x7f, 7);
                return one(
                    if w & 0x0400 == 0 { "brbs" } else { "brbc" },
                    vec![Opnd::Imm(b), Opnd::Imm(k)],
                );
            }
            if w & 0x0008 != 0 {
                return None;
            }
            let m = match w & 0x0600 {
                0x0000 => "bld",
                0x0200 => "bst",
                0x0400 => "sbrc",
                _ => "sbrs",
            };
            return one(m, vec![Opnd::Reg(d5), Opnd::Imm(b)]);
        }
        _ => {}
    }
    // 0x9xxx
    match w & 0xfe00 {
        0x9000 | 0x9200 => {
            let st = w & 0x0200 != 0;
            let low = w & 0xf;
            if low == 0 {
                if core == Core::Reduced {
                    return None; // the reduced core has no 32-bit lds/sts
                }
                let k = w1? as i64;
                return Some(if st {
                    Decoded { mnem: "sts", ops: vec![Opnd::Imm(k), Opnd::Reg(d5)], len: 2 }
                } else {
                    Decoded { mnem: "lds", ops: vec![Opnd::Reg(d5), Opnd::Imm(k)], len: 2 }
                });
            }
            if low == 0xf {
                return one(if st { "push" } else { "pop" }, vec![Opnd::Reg(d5)]);
            }
            if !st && (4..=7).contains(&low) {
                let m = if low & 2 != 0 { "elpm" } else { "lpm" };
                let p = if low & 1 != 0 { Ptr::ZPlus } else { Ptr::Z };
                return one(m, vec![Opnd::Reg(d5), Opnd::Ptr(p)]);
            }
            let p = match low {
                0b0001 => Ptr::ZPlus,
                0b0010 => Ptr::MinusZ,
                0b1001 => Ptr::YPlus,
                0b1010 => Ptr::MinusY,
                0b1100 => Ptr::X,
                0b1101 => Ptr::XPlus,
                0b1110 => Ptr::MinusX,
                _ => return None,
            };
            return if st {
                one("st", vec![Opnd::Ptr(p), Opnd::Reg(d5)])
            } else {
                one("ld", vec![Opnd::Reg(d5), Opnd::Ptr(p)])
            };
        }
        0x9400 => {
            let low = w & 0xf;
            let m = match low {
                0x0 => Some("com"),
                0x1 => Some("neg"),
                0x2 => Some("swap"),
                0x3 => Some("inc"),
                0x5 => Some("asr"),
                0x6 => Some("lsr"),
                0x7 => Some("ror"),
                0xa => Some("dec"),
                _ => None,
            };
            if let Some(m) = m {
                return one(m, vec![Opnd::Reg(d5)]);
            }
            if low == 0x8 {
                if w & 0x0100 == 0 {
                    let s = ((w >> 4) & 7) as i64;
                    return one(if w & 0x80 == 0 { "bset" } else { "bclr" }, vec![Opnd::Imm(s)]);
                }
                return match w {
                    0x9508 => one("ret", vec![]),
                    0x9518 => one("reti", vec![]),
                    0x9588 => one("sleep", vec![]),
                    0x9598 => one("break", vec![]),
                    0x95a8 => one("wdr", vec![]),
                    0x95c8 => one("lpm", vec![]),
                    0x95d8 => one("elpm", vec![]),
                    0x95e8 => one("spm", vec![]),
                    _ => None,
                };
            }
            if low == 0x9 {
                return match w {
                    0x9409 => one("ijmp", vec![]),
                    0x9419 => one("eijmp", vec![]),
                    0x9509 => one("icall", vec![]),
                    0x9519 => one("eicall", vec![]),
                    _ => None,
                };
            }
            if low & 0xc == 0xc {
                let hi = (((w >> 3) & 0x3e) | (w & 1)) as i64;
                let k = hi << 16 | w1? as i64;
                return Some(Decoded {
                    mnem: if low & 2 == 0 { "jmp" } else { "call" },
                    ops: vec![Opnd::Imm(k)],
                    len: 2,
                });
            }
            return None;
        }
        0x9600 => {
            let k = (((w >> 2) & 0x30) | (w & 0xf)) as i64;
            let d = (24 + ((w >> 4) & 3) * 2) as i64;
            return one(
                if w & 0x0100 == 0 { "adiw" } else { "sbiw" },
                vec![Opnd::Reg(d), Opnd::Imm(k)],
            );
        }
        0x9800 | 0x9a00 => {
            let m = match w & 0x0300 {
                0x0000 => "cbi",
                0x0100 => "sbic",
                0x0200 => "sbi",
                _ => "sbis",
            };
            return one(m, vec![Opnd::Imm(((w >> 3) & 0x1f) as i64), Opnd::Imm((w & 7) as i64)]);
        }
        0x9c00 | 0x9e00 => return one("mul", vec![Opnd::Reg(d5), Opnd::Reg(r5)]),
        _ => {}
    }
    None
}

/// Map a written instruction to the canonical (non-alias) form the decoder reports.
/// For relative instructions `ops` already holds the displacement.
pub fn canonical(mnem: &str, ops: &[Opnd]) -> (String, Vec<Opnd>) {
    if let Some((_, t)) = RR_ALIAS.iter().find(|(m, _)| *m == mnem) {
        return (t.to_string(), vec![ops[0].clone(), ops[0].clone()]);
    }
    if let Some((_, set, bit)) = BRANCHES.iter().find(|(m, _, _)| *m == mnem) {
        let name = if *set { "brbs" } else { "brbc" };
        if *bit == 255 {
            return (name.to_string(), ops.to_vec());
        }
        return (name.to_string(), vec![Opnd::Imm(*bit as i64), ops[0].clone()]);
    }
    if mnem.len() == 3 && (mnem.starts_with("se") || mnem.starts_with("cl")) && mnem != "ser" && mnem != "clr" {
        let c = mnem.chars().nth(2).unwrap();
        if let Some(s) = FLAG_LETTERS.iter().position(|f| *f == c) {
            return (
                if mnem.starts_with("se") { "bset" } else { "bclr" }.to_string(),
                vec![Opnd::Imm(s as i64)],
            );
        }
    }
    let imm8 = |o: &Opnd| match o {
        Opnd::Imm(k) => Opnd::Imm(k & 0xff),
        x => x.clone(),
    };
    match mnem {
        "sbr" | "ori" | "cpi" | "sbci" | "subi" | "andi" | "ldi" => {
            let m = if mnem == "sbr" { "ori" } else { mnem };
            (m.to_string(), vec![ops[0].clone(), imm8(&ops[1])])
        }
        "cbr" => {
            let k = match &ops[1] {
                Opnd::Imm(k) => 0xff - (k & 0xff),
                _ => 0,
            };
            ("andi".to_string(), vec![ops[0].clone(), Opnd::Imm(k)])
        }
        "ser" => ("ldi".to_string(), vec![ops[0].clone(), Opnd::Imm(0xff)]),
        "ld" => match &ops[1] {
            Opnd::Ptr(Ptr::Y) => ("ldd".to_string(), vec![ops[0].clone(), Opnd::Disp('Y', 0)]),
            Opnd::Ptr(Ptr::Z) => ("ldd".to_string(), vec![ops[0].clone(), Opnd::Disp('Z', 0)]),
            _ => (mnem.to_string(), ops.to_vec()),
        },
        "st" => match &ops[0] {
            Opnd::Ptr(Ptr::Y) => ("std".to_string(), vec![Opnd::Disp('Y', 0), ops[1].clone()]),
            Opnd::Ptr(Ptr::Z) => ("std".to_string(), vec![Opnd::Disp('Z', 0), ops[1].clone()]),
            _ => (mnem.to_string(), ops.to_vec()),
        },
        _ => (mnem.to_string(), ops.to_vec()),
    }
}

/// Golden vectors pinned by the repository's own tests (source → little-endian bytes).
/// For relative instructions the operand below is the displacement.
fn golden() -> Vec<(&'static str, Vec<Opnd>, Vec<u8>)> {
    use Opnd::*;
    vec![
        ("push", vec![Reg(0)], vec![0x0f, 0x92]),
        ("mov", vec![Reg(17), Reg(0)], vec![0x10, 0x2d]),
        ("subi", vec![Reg(17), Imm(-1)], vec![0x1f, 0x5f]),
        ("brpl", vec![Imm(1)], vec![0x0a, 0xf4]),
        ("rjmp", vec![Imm(-4)], vec![0xfc, 0xcf]),
        ("pop", vec![Reg(1)], vec![0x1f, 0x90]),
        ("ldi", vec![Reg(30), Imm(0x0a)], vec![0xea, 0xe0]),
        ("lpm", vec![Reg(16), Ptr(super::isa::Ptr::ZPlus)], vec![0x05, 0x91]),
        ("nop", vec![], vec![0x00, 0x00]),
        ("ret", vec![], vec![0x08, 0x95]),
        ("seh", vec![], vec![0x58, 0x94]),
        ("clh", vec![], vec![0xd8, 0x94]),
        ("lsl", vec![Reg(0)], vec![0x00, 0x0c]),
        ("swap", vec![Reg(0)], vec![0x02, 0x94]),
        ("ldi", vec![Reg(18), Imm(0x12)], vec![0x22, 0xe1]),
    ]
}

pub struct SelfCheck {
    pub decoded_first_words: usize,
    pub unknown_first_words: usize,
    pub roundtrips: usize,
}

/// Cross-validate encoder and decoder over the whole 16-bit opcode space (both cores) and
/// against the golden vectors. Err(text) means the reference itself is broken (exit 2).
pub fn self_check() -> Result<SelfCheck, String> {
    let mut decoded = 0usize;
    let mut unknown = 0usize;
    let mut roundtrips = 0usize;
    for core in [Core::Full, Core::Reduced] {
        for w in 0..=0xffffu32 {
            let w = w as u16;
            for w1 in [0x0000u16, 0xffff, 0x1234] {
                match decode(core, w, Some(w1)) {
                    None => {
                        if w1 == 0 && core == Core::Full {
                            unknown += 1;
                        }
                    }
                    Some(d) => {
                        if w1 == 0 && core == Core::Full {
                            decoded += 1;
                        }
                        let e = encode(core, d.mnem, &d.ops)
                            .ok_or_else(|| format!("decode({:?},{:04x}) = {:?} but encode rejects it", core, w, d))?;
                        let want: Vec<u16> = if d.len == 2 { vec![w, w1] } else { vec![w] };
                        if e != want {
                            return Err(format!(
                                "decode({:?},{:04x},{:04x}) = {:?} re-encodes to {:04x?}",
                                core, w, w1, d, e
                            ));
                        }
                        roundtrips += 1;
                        if d.len == 1 {
                            break;
                        }
                    }
                }
            }
        }
    }
    for (m, ops, bytes) in golden() {
        let e = encode(Core::Full, m, &ops).ok_or_else(|| format!("golden {} {:?} rejected", m, ops))?;
        let mut b = vec![];
        for w in &e {
            b.push((*w & 0xff) as u8);
            b.push((*w >> 8) as u8);
        }
        if b != bytes {
            return Err(format!("golden {} {:?}: reference gives {:02x?}, repository test pins {:02x?}", m, ops, b, bytes));
        }
        let d = decode(Core::Full, e[0], e.get(1).copied()).ok_or_else(|| format!("golden {} not decodable", m))?;
        let (cm, cops) = canonical(m, &ops);
        if d.mnem != cm || d.ops != cops {
            return Err(format!("golden {} {:?}: decodes to {:?}, canonical is {} {:?}", m, ops, d, cm, cops));
        }
    }
    Ok(SelfCheck { decoded_first_words: decoded, unknown_first_words: unknown, roundtrips })
}

pub fn words_to_bytes(ws: &[u16]) -> Vec<u8> {
    let mut b = Vec::with_capacity(ws.len() * 2);
    for w in ws {
        b.push((*w & 0xff) as u8);
        b.push((*w >> 8) as u8);
    }
    b
}
