//! C03 — relative branches and jumps reach exactly the target that was named (E1 over placements).

use std::collections::BTreeSet;
use std::sync::atomic::{AtomicU64, Ordering};
use std::sync::Mutex;

use rayon::prelude::*;
use serde_json::json;

use crate::isa::{self, Core, Opnd};
use crate::report::{cov, machinery_fail, Report, Tier};
use crate::sut::{self, Outcome};

#[derive(Clone, Copy, PartialEq, Eq, Debug)]
enum Form {
    FwdLabel,
    BwdLabel,
    PcRel,
    Abs,
}

#[derive(Clone, Copy, PartialEq, Eq, Debug)]
enum FItem {
    /// sts / lds: two words, one word on the reduced core (only used there)
    Sts,
    Lds,
    Nop,
    Jmp,
    Dw,
    Db1,
    Db3,
    Gap3,
}

const FITEMS: [FItem; 6] = [FItem::Nop, FItem::Jmp, FItem::Dw, FItem::Db1, FItem::Db3, FItem::Gap3];
/// on the reduced core (ATtiny20: no jmp) the two-word item is replaced by the one-word sts / lds
const FITEMS_REDUCED: [FItem; 6] = [FItem::Nop, FItem::Sts, FItem::Lds, FItem::Db1, FItem::Db3, FItem::Gap3];

impl FItem {
    fn words(self) -> i64 {
        match self {
            FItem::Nop | FItem::Dw | FItem::Db1 | FItem::Sts | FItem::Lds => 1,
            FItem::Jmp | FItem::Db3 => 2,
            FItem::Gap3 => 3,
        }
    }
}

/// all sequences of length <= 4 over the six filler items
fn filler_seqs_of(items: &[FItem; 6]) -> Vec<Vec<FItem>> {
    let mut out: Vec<Vec<FItem>> = vec![vec![]];
    let mut frontier: Vec<Vec<FItem>> = vec![vec![]];
    for _ in 0..4 {
        let mut next = vec![];
        for s in &frontier {
            for it in items.iter() {
                let mut t = s.clone();
                t.push(*it);
                next.push(t);
            }
        }
        out.extend(next.iter().cloned());
        frontier = next;
    }
    out
}

fn filler_seqs() -> Vec<Vec<FItem>> {
    let mut out: Vec<Vec<FItem>> = vec![vec![]];
    let mut frontier: Vec<Vec<FItem>> = vec![vec![]];
    for _ in 0..4 {
        let mut next = vec![];
        for s in &frontier {
            for it in FITEMS {
                let mut t = s.clone();
                t.push(it);
                next.push(t);
            }
        }
        out.extend(next.iter().cloned());
        frontier = next;
    }
    out
}

struct Prog {
    src: String,
    addr: i64,
}

impl Prog {
    fn new() -> Prog {
        Prog { src: String::new(), addr: 0 }
    }
    fn line(&mut self, s: &str, words: i64) {
        self.src.push_str(s);
        self.src.push('\n');
        self.addr += words;
    }
    fn org(&mut self, a: i64) {
        self.src.push_str(&format!(".org {}\n", a));
        self.addr = a;
    }
    /// exactly `n` words of filler: the given item sequence (truncated to fit), then scaled up with
    /// a .org gap, a .dw block or nops (chosen by `mode`)
    fn filler(&mut self, n: i64, seq: &[FItem], mode: u64) {
        let end = self.addr + n;
        for it in seq {
            if self.addr + it.words() > end {
                break;
            }
            match it {
                // (comments may hold anything, openers of other comment kinds included)
                FItem::Nop => self.line(["nop", "nop ; was: /* the old code", "nop // see /* below", "nop ; \"quoted"][(mode as usize >> 9) % 4], 1),
                FItem::Sts => self.line("sts 0x60, r16", 1),
                FItem::Lds => self.line("lds r17, 0x61", 1),
                FItem::Jmp => self.line("jmp 0x1234", 2),
                FItem::Dw => self.line(".dw 0x5a5a", 1),
                // (strings too: a non-ASCII character is two bytes, the line is as long as its bytes)
                FItem::Db1 => self.line([".db 1", ".db \"\u{e9}\"", ".db \"x\"", ".db \"/*\"", ".db \";\", 2"][(mode as usize >> 3) % 5], 1),
                FItem::Db3 => self.line([".db 1, 2, 3", ".db \"a\u{e9}\"", ".db \"\u{e9}\", 5", ".db \"\u{20ac}\""][(mode as usize >> 5) % 4], 2),
                FItem::Gap3 => {
                    let a = self.addr + 3;
                    self.org(a);
                    // the position may be carried by a segment that holds nothing: the data
                    // segment is entered and left at once
                    if (mode >> 7) % 3 == 1 {
                        self.src.push_str(".dseg\n.cseg\n");
                    }
                }
            }
        }
        let rest = end - self.addr;
        if rest <= 0 {
            return;
        }
        match mode % 3 {
            0 => self.org(end),
            1 if rest <= 256 => {
                let ops: Vec<&str> = (0..rest).map(|_| "0").collect();
                self.line(&format!(".dw {}", ops.join(",")), rest);
            }
            2 if rest <= 64 => {
                for _ in 0..rest {
                    self.line("nop", 1);
                }
            }
            _ => self.org(end),
        }
    }
}

struct Kind {
    mnem: &'static str,
    s: Option<i64>,
    lo: i64,
    hi: i64,
}

fn kinds() -> Vec<Kind> {
    let mut v = vec![];
    for (m, _, bit) in isa::BRANCHES.iter() {
        if *bit == 255 {
            for s in 0..8 {
                v.push(Kind { mnem: m, s: Some(s), lo: -64, hi: 63 });
            }
        } else {
            v.push(Kind { mnem: m, s: None, lo: -64, hi: 63 });
        }
    }
    v.push(Kind { mnem: "rjmp", s: None, lo: -2048, hi: 2047 });
    v.push(Kind { mnem: "rcall", s: None, lo: -2048, hi: 2047 });
    v
}

const MARK: u16 = 0xbeef;

/// (device, flash words, position of the first item) for the placements on small devices
const DEV_BASES: [(&str, i64, i64); 12] = [
    ("ATmega8", 4096, 0),
    ("ATmega8", 4096, 0x7f0),
    ("ATmega8", 4096, 0xff0 - 8),
    ("ATtiny13", 512, 0),
    ("ATtiny13", 512, 250),
    ("ATtiny13", 512, 500),
    ("ATtiny2313", 1024, 0),
    ("ATtiny2313", 1024, 510),
    ("ATtiny2313", 1024, 1010),
    ("ATtiny45", 2048, 0),
    ("ATtiny45", 2048, 1020),
    ("ATtiny45", 2048, 2030),
];

struct Built {
    src: String,
    instr_addr: i64,
    target_addr: i64,
    marker: bool,
}

/// Build one program; None when the combination is not constructible (e.g. a forward label
/// with negative distance).
fn make(k: &Kind, form: Form, base: usize, d: i64, seq: &[FItem], mode: u64) -> Option<Built> {
    let mut p = Prog::new();
    match base {
        0 => {}
        // the reduced-core device: lds/sts are one word there in both passes
        4 => p.src.push_str(".device ATtiny20\n"),
        // devices whose flash is within reach of a 12-bit displacement: it could wrap around the
        // flash there, but the statement says an unreachable target is an error, never a wrapped
        // offset - and a reachable one gets the displacement the ISA defines, not a wrapped one
        b if b >= 5 => {
            let (dev, _, org) = DEV_BASES[b - 5];
            p.src.push_str(&format!(".device {}\n", dev));
            if org > 0 {
                p.org(org);
            }
        }
        1 => {
            for _ in 0..5 {
                p.line("nop", 1);
            }
        }
        2 => p.org(0x100),
        _ => p.org(0x7f0),
    }
    let instr = |target: &str| match k.s {
        Some(s) => format!("{} {}, {}", k.mnem, s, target),
        None => format!("{} {}", k.mnem, target),
    };
    match form {
        Form::FwdLabel => {
            if d < 0 {
                return None;
            }
            let a = p.addr;
            p.line(&instr("Target_L"), 1);
            p.filler(d, seq, mode);
            let t = p.addr;
            p.line(&format!("target_l: .dw {}", MARK), 1);
            Some(Built { src: p.src, instr_addr: a, target_addr: t, marker: true })
        }
        Form::BwdLabel => {
            if d > -1 {
                return None;
            }
            if d == -1 {
                let a = p.addr;
                p.line(&format!("target_l: {}", instr("target_l")), 1);
                return Some(Built { src: p.src, instr_addr: a, target_addr: a, marker: false });
            }
            let t = p.addr;
            p.line(&format!("Target_L: .dw {}", MARK), 1);
            p.filler(-d - 2, seq, mode);
            let a = p.addr;
            p.line(&instr("target_l"), 1);
            Some(Built { src: p.src, instr_addr: a, target_addr: t, marker: true })
        }
        Form::PcRel => {
            p.filler((mode % 7) as i64, seq, mode);
            let a = p.addr;
            let kk = d + 1;
            let tgt = if kk >= 0 { format!("pc+{}", kk) } else { format!("pc-{}", -kk) };
            p.line(&instr(&tgt), 1);
            p.line("nop", 1);
            Some(Built { src: p.src, instr_addr: a, target_addr: a + 1 + d, marker: false })
        }
        Form::Abs => {
            p.filler((mode % 5) as i64, seq, mode);
            let a = p.addr;
            let t = a + 1 + d;
            if t < 0 {
                return None;
            }
            p.line(&instr(&format!("{}", t)), 1);
            p.line("nop", 1);
            Some(Built { src: p.src, instr_addr: a, target_addr: t, marker: false })
        }
    }
}

pub fn run(tier: Tier) -> i32 {
    let rep = Report::new("C03", tier, "exploration");
    isa::self_check().unwrap_or_else(|e| machinery_fail(&format!("ISA reference self-check failed: {}", e)));
    let seqs = filler_seqs();
    let seqs_reduced = filler_seqs_of(&FITEMS_REDUCED);
    let kinds = kinds();
    let forms = [Form::FwdLabel, Form::BwdLabel, Form::PcRel, Form::Abs];
    let per_case = if tier.thorough() { 6u64 } else { 2 };

    // work list: (kind index, form, base, d)
    let mut work: Vec<(usize, Form, usize, i64)> = vec![];
    for (ki, k) in kinds.iter().enumerate() {
        let mut ds: Vec<i64> = if k.hi == 63 {
            (-70..=70).collect()
        } else if tier.thorough() {
            (-2100..=2100).collect()
        } else {
            (-2056..=-2040).chain(-8..=8).chain(2040..=2056).collect()
        };
        // far targets: distances at which a narrower integer or the field itself would wrap
        // around to an in-range value (2^7, 2^8, 2^12, 2^13, 2^15, 2^16, 2^17, 2^21, 2^22 +-1)
        for p in [7u32, 8, 12, 13, 15, 16, 17, 21, 22] {
            for delta in [-2i64, -1, 0, 1, 2] {
                ds.push((1i64 << p) + delta);
                ds.push(-(1i64 << p) + delta);
            }
        }
        ds.sort_unstable();
        ds.dedup();
        for f in forms {
            for base in 0..4 {
                for d in ds.iter() {
                    work.push((ki, f, base, *d));
                }
            }
            // rjmp/rcall on the 4 K-word device, targets inside its flash
            if k.hi == 2047 {
                for (bi, (_, flash, _)) in DEV_BASES.iter().enumerate() {
                    let h = flash / 2;
                    let mut dd: Vec<i64> = (-2056i64..=-2040).chain(-4..=4).chain(2040..=2056).chain([-4095, -4090, -3000, 3000, 4000, 4080]).collect();
                    // around half the flash and around the whole flash, in both directions, and
                    // targets far outside the device
                    dd.extend((h - 4..=h + 4).chain(-h - 4..=-h + 4).chain(flash - 12..=*flash + 2).chain(-flash - 2..=-flash + 12));
                    dd.extend([100, -100, 300, -300, 700, -700, 1500, -1500, 4999, 70000, 1_000_000, -5000]);
                    dd.sort_unstable();
                    dd.dedup();
                    for d in dd {
                        work.push((ki, f, 5 + bi, d));
                    }
                }
            }
            // branches on the reduced-core device (within its 1 K words; no wrap-around question
            // arises for 7-bit displacements)
            if k.hi == 63 {
                for d in -70..=70 {
                    work.push((ki, f, 4, d));
                }
            }
        }
    }
    let evals = AtomicU64::new(0);
    let n_ok = AtomicU64::new(0);
    let n_err = AtomicU64::new(0);
    let used_seqs: Mutex<BTreeSet<usize>> = Mutex::new(BTreeSet::new());
    let distinct_cases = AtomicU64::new(0);
    let samples: Mutex<Vec<serde_json::Value>> = Mutex::new(vec![]);

    work.par_iter().enumerate().for_each(|(wi, (ki, form, base, d))| {
        // every case is assembled on a thread that has just assembled another program in which
        // the target's name is a variable, a constant or an alias (every third case each): a
        // target is the label of *this* program
        let _ = sut::build_str(match wi % 3 {
            0 => ".set target_l = 3\n.set zero_l = 1\nldi r16, target_l\n",
            1 => ".equ target_l = 2 + 1\n.equ zero_l = target_l\n.dw target_l / 0\n",
            _ => ".def target_l = r17\n.macro target_l\nnop\n.endm\nmov target_l, r0\n",
        });
        let k = &kinds[*ki];
        let mut local_seqs = vec![];
        let mut any = false;
        for rep_i in 0..per_case {
            let h = (wi as u64).wrapping_mul(0x9e3779b97f4a7c15).wrapping_add(rep_i.wrapping_mul(0x632be59bd9b4e019));
            let si = ((wi as u64 * per_case + rep_i) % seqs.len() as u64) as usize;
            let mode = h >> 33;
            let no_jmp: Vec<FItem>;
            let seq: &Vec<FItem> = if *base == 4 {
                &seqs_reduced[si % seqs_reduced.len()]
            } else if *base >= 5 {
                // these devices have no jmp: drop that item from the filler
                no_jmp = seqs[si].iter().cloned().filter(|i| *i != FItem::Jmp).collect();
                &no_jmp
            } else {
                &seqs[si]
            };
            let mut b = match make(k, *form, *base, *d, seq, mode) {
                Some(b) => b,
                None => continue,
            };
            // the target's name: also names that begin like a register or a pointer register
            {
                const NAMES: [(&str, &str); 9] = [("target_l", "Target_L"), ("r2_done", "R2_Done"), ("r1loop", "R1LOOP"), ("r100", "R100"), ("zero_l", "Zero_L"), ("x_lab", "X_Lab"), ("y2k", "Y2K"), ("zed", "ZED"), ("r31x", "R31X")];
                let (lo, up) = NAMES[(wi + rep_i as usize) % NAMES.len()];
                if lo != "target_l" {
                    b.src = b.src.replace("target_l", lo).replace("Target_L", up);
                }
            }
            // on the 4 K-word device everything that is emitted must lie inside its flash
            if *base >= 5 {
                let flash = DEV_BASES[*base - 5].1;
                let emitted_end = if b.marker { b.instr_addr.max(b.target_addr) + 2 } else { b.instr_addr + 3 };
                let in_range = *d >= k.lo && *d <= k.hi;
                // a reachable target outside the device is not pinned; an unreachable one must be
                // refused wherever it lies
                if emitted_end > flash || (in_range && (b.target_addr < 0 || b.target_addr >= flash)) {
                    continue;
                }
            }
            any = true;
            if *base < 4 {
                local_seqs.push(si);
            }
            let o = sut::build_str(&b.src);
            evals.fetch_add(1, Ordering::Relaxed);
            let fits = *d >= k.lo && *d <= k.hi;
            let kindname = match k.s {
                Some(_) => format!("{}-s", k.mnem),
                None => k.mnem.to_string(),
            };
            let mut bad: Option<(String, String)> = None;
            match &o {
                Outcome::Ok(bu) => {
                    n_ok.fetch_add(1, Ordering::Relaxed);
                    if !fits {
                        bad = Some((
                            format!("C03/accepted-out-of-range/kind={}/form={:?}", kindname, form),
                            format!("displacement {} does not fit {}'s field ({}..{}) but the build succeeds", d, k.mnem, k.lo, k.hi),
                        ));
                    } else {
                        let off = (b.instr_addr * 2) as usize;
                        if bu.code.len() < off + 2 {
                            bad = Some((
                                format!("C03/instruction-missing/kind={}/form={:?}", kindname, form),
                                format!("no instruction word at word address {} (image has {} bytes)", b.instr_addr, bu.code.len()),
                            ));
                        } else {
                            let w = bu.code[off] as u16 | (bu.code[off + 1] as u16) << 8;
                            let mut ops = vec![];
                            if let Some(s) = k.s {
                                ops.push(Opnd::Imm(s));
                            }
                            ops.push(Opnd::Imm(*d));
                            let (cm, cops) = isa::canonical(k.mnem, &ops);
                            let dec = isa::decode(Core::Full, w, None);
                            let good = matches!(&dec, Some(dd) if dd.mnem == cm && dd.ops == cops);
                            if !good {
                                let reach = match &dec {
                                    Some(dd) => match dd.ops.last() {
                                        Some(Opnd::Imm(x)) => format!("; it reaches address {} instead of {}", b.instr_addr + 1 + x, b.target_addr),
                                        _ => String::new(),
                                    },
                                    None => String::new(),
                                };
                                bad = Some((
                                    format!("C03/wrong-displacement/kind={}/form={:?}", kindname, form),
                                    format!(
                                        "word {:04x} at address {} decodes to {:?}, expected {} {:?}{}",
                                        w, b.instr_addr, dec.map(|x| (x.mnem, x.ops)), cm, cops, reach
                                    ),
                                ));
                            } else if b.marker {
                                let toff = (b.target_addr * 2) as usize;
                                let at = if bu.code.len() >= toff + 2 { bu.code[toff] as u16 | (bu.code[toff + 1] as u16) << 8 } else { 0 };
                                if at != MARK {
                                    bad = Some((
                                        format!("C03/target-misplaced/kind={}/form={:?}", kindname, form),
                                        format!("the labelled target item is not at word address {} (found {:04x})", b.target_addr, at),
                                    ));
                                }
                            }
                        }
                    }
                }
                Outcome::Err(e) => {
                    n_err.fetch_add(1, Ordering::Relaxed);
                    if fits {
                        bad = Some((
                            format!("C03/rejected-in-range/kind={}/form={:?}", kindname, form),
                            format!("displacement {} fits {}'s field but the build fails: {}", d, k.mnem, e),
                        ));
                    }
                }
                Outcome::Panic { site, msg } => {
                    bad = Some((
                        format!("C03/panic/kind={}/form={:?}", kindname, form),
                        format!("panic at {}: {}", site, msg),
                    ));
                }
            }
            if let Some((key, what)) = bad {
                rep.violation(&key, || what, || json!({"kind": "build_str", "source": b.src, "displacement": d, "instruction_word_address": b.instr_addr, "target_word_address": b.target_addr,
                    "expected": if fits { json!({"result":"ok","word_at_instruction": format!("{:04x}", isa::encode(Core::Full, k.mnem, &{ let mut ops = vec![]; if let Some(s) = k.s { ops.push(Opnd::Imm(s)); } ops.push(Opnd::Imm(*d)); ops }).unwrap()[0])}) } else { json!({"result":"err (any text)"}) },
                    "observed": o.to_json()}));
            } else if wi % 9973 == 0 && rep_i == 0 {
                let mut s = samples.lock().unwrap();
                if s.len() < 4 {
                    s.push(json!({"source": b.src, "displacement": d, "fits": fits, "observed": o.kind()}));
                }
            }
        }
        if any {
            distinct_cases.fetch_add(1, Ordering::Relaxed);
        }
        used_seqs.lock().unwrap().extend(local_seqs);
    });
    // the same branch line assembled at several addresses (a macro body expanded more than once,
    // before and behind the target): each copy must reach the target from where it stands
    let n_reuse = AtomicU64::new(0);
    {
        let mut rw: Vec<(usize, i64, i64, i64, bool)> = vec![]; // kind, gap1, gap2, gap3, with an argument
        for ki in 0..kinds.len() {
            for g1 in [0i64, 1, 5, 30, 58, 70] {
                for g2 in [0i64, 3, 20, 60] {
                    for g3 in [0i64, 2, 40, 61, 66] {
                        for arg in [false, true] {
                            rw.push((ki, g1, g2, g3, arg));
                        }
                    }
                }
            }
        }
        rw.par_iter().for_each(|(ki, g1, g2, g3, arg)| {
            let k = &kinds[*ki];
            let instr = |target: &str| match k.s {
                Some(s) => format!("{} {}, {}", k.mnem, s, target),
                None => format!("{} {}", k.mnem, target),
            };
            let mut p = Prog::new();
            p.src.push_str(&format!(".macro jump_m\n{}\n.endm\n", instr(if *arg { "@0" } else { "target_l" })));
            let call = if *arg { "jump_m target_l" } else { "jump_m" };
            let nops = |p: &mut Prog, n: i64| {
                for _ in 0..n {
                    p.line("nop", 1);
                }
            };
            let a1 = p.addr;
            p.line(call, 1);
            nops(&mut p, *g1);
            let a2 = p.addr;
            p.line(call, 1);
            nops(&mut p, *g2);
            let t = p.addr;
            p.line(&format!("target_l: .dw {}", MARK), 1);
            nops(&mut p, *g3);
            let a3 = p.addr;
            p.line(call, 1);
            p.line("nop", 1);
            let sites = [a1, a2, a3];
            let ds: Vec<i64> = sites.iter().map(|a| t - a - 1).collect();
            let all_fit = ds.iter().all(|d| *d >= k.lo && *d <= k.hi);
            let o = sut::build_str(&p.src);
            evals.fetch_add(1, Ordering::Relaxed);
            n_reuse.fetch_add(1, Ordering::Relaxed);
            let kindname = match k.s {
                Some(_) => format!("{}-s", k.mnem),
                None => k.mnem.to_string(),
            };
            let mut bad: Option<(String, String)> = None;
            match &o {
                Outcome::Ok(bu) => {
                    if !all_fit {
                        bad = Some((format!("C03/accepted-out-of-range/kind={}/form=SameLineTwice", kindname), format!("displacements {:?}: one does not fit {}'s field but the build succeeds", ds, k.mnem)));
                    } else {
                        for (a, d) in sites.iter().zip(ds.iter()) {
                            let off = (*a * 2) as usize;
                            let w = if bu.code.len() >= off + 2 { bu.code[off] as u16 | (bu.code[off + 1] as u16) << 8 } else { 0 };
                            let mut ops = vec![];
                            if let Some(sv) = k.s {
                                ops.push(Opnd::Imm(sv));
                            }
                            ops.push(Opnd::Imm(*d));
                            let want = isa::encode(Core::Full, k.mnem, &ops).map(|v| v[0]);
                            if Some(w) != want {
                                let dec = isa::decode(Core::Full, w, None);
                                bad = Some((format!("C03/wrong-displacement/kind={}/form=SameLineTwice", kindname), format!("the copy at address {} must reach {} (displacement {}), but its word {:04x} decodes to {:?}", a, t, d, w, dec.map(|x| (x.mnem, x.ops)))));
                                break;
                            }
                        }
                    }
                }
                Outcome::Err(e) => {
                    if all_fit {
                        bad = Some((format!("C03/rejected-in-range/kind={}/form=SameLineTwice", kindname), format!("displacements {:?} all fit but the build fails: {}", ds, e)));
                    }
                }
                Outcome::Panic { site, msg } => bad = Some((format!("C03/panic/kind={}/form=SameLineTwice", kindname), format!("panic at {}: {}", site, msg))),
            }
            if let Some((key, what)) = bad {
                rep.violation(&key, || what, || json!({"kind": "build_str", "source": p.src, "branch_addresses": sites, "target_word_address": t, "expected": if all_fit { "ok, each copy with its own displacement" } else { "err (any text)" }, "observed": o.to_json()}));
            }
        });
    }
    // the target is a label that the macro body defines itself, referred to in another letter case
    // (every kind; forward and backward inside the body; the macro is expanded once)
    let n_inner = AtomicU64::new(0);
    {
        let iw: Vec<(usize, i64, bool)> = (0..kinds.len()).flat_map(|ki| [0i64, 2, 30].into_iter().flat_map(move |b| [false, true].into_iter().map(move |fw| (ki, b, fw)))).collect();
        iw.par_iter().for_each(|(ki, body, forward)| {
            let k = &kinds[*ki];
            let instr = |target: &str| match k.s {
                Some(s) => format!("{} {}, {}", k.mnem, s, target),
                None => format!("{} {}", k.mnem, target),
            };
            let nops = "nop\n".repeat(*body as usize);
            // definition `Inner_Lq`, references `INNER_LQ` / `inner_lq`
            let (src, site, target) = if *forward {
                (format!("nop\n.macro in_m\n{}\n{}Inner_Lq: nop\n.endm\nin_m\nnop\n", instr("INNER_LQ"), nops), 1i64, 2 + body)
            } else {
                (format!("nop\n.macro in_m\nInner_Lq: nop\n{}{}\n.endm\nin_m\nnop\n", nops, instr("inner_lq")), 2 + body, 1i64)
            };
            let d = target - (site + 1);
            let o = sut::build_str(&src);
            evals.fetch_add(1, Ordering::Relaxed);
            n_inner.fetch_add(1, Ordering::Relaxed);
            let bad = match &o {
                Outcome::Ok(b) => {
                    let w = b.code.get(site as usize * 2).copied().unwrap_or(0) as u16 | (b.code.get(site as usize * 2 + 1).copied().unwrap_or(0) as u16) << 8;
                    let dec = isa::decode(Core::Full, w, None);
                    let ok = dec.as_ref().map(|x| isa::canonical(k.mnem, &x.ops).0 == isa::canonical(x.mnem, &x.ops).0 && matches!(x.ops.last(), Some(Opnd::Imm(v)) if *v == d)).unwrap_or(false);
                    if ok { None } else { Some(format!("the word at {} is {:04x} = {:?}, displacement {} expected", site, w, dec.map(|x| (x.mnem, x.ops)), d)) }
                }
                other => Some(format!("the target is {} words away and defined in the body, but: {}", d, other.brief())),
            };
            if let Some(what) = bad {
                rep.violation(&format!("C03/label-of-the-macro-body-in-another-letter-case/kind={}", k.mnem), || what, || json!({"kind": "build_str", "source": src, "observed": o.to_json()}));
            }
        });
    }
    // the target is a .set variable that captures the position (`.set top = pc`), assigned again by
    // every expansion of a loop macro: each branch goes back to its own loop top
    let n_setloop = AtomicU64::new(0);
    {
        let mut lw: Vec<(usize, i64, i64)> = vec![];
        for ki in 0..kinds.len() {
            for body in [0i64, 1, 5, 40] {
                for gap in [0i64, 3, 70] {
                    lw.push((ki, body, gap));
                }
            }
        }
        lw.par_iter().for_each(|(ki, body, gap)| {
            let k = &kinds[*ki];
            let instr = |target: &str| match k.s {
                Some(s) => format!("{} {}, {}", k.mnem, s, target),
                None => format!("{} {}", k.mnem, target),
            };
            let mut src = format!(".macro loop_m\n.set top_q = pc\n{}{}\n.endm\n", "nop\n".repeat(*body as usize), instr("top_q"));
            let mut sites = vec![];
            let mut addr = 0i64;
            for round in 0..3 {
                src.push_str("loop_m\n");
                sites.push(addr + body);
                addr += body + 1;
                if round < 2 {
                    src.push_str(&"nop\n".repeat(*gap as usize));
                    addr += gap;
                }
            }
            let d = -(body + 1);
            let o = sut::build_str(&src);
            evals.fetch_add(1, Ordering::Relaxed);
            n_setloop.fetch_add(1, Ordering::Relaxed);
            let kindname = match k.s {
                Some(_) => format!("{}-s", k.mnem),
                None => k.mnem.to_string(),
            };
            let mut ops = vec![];
            if let Some(sv) = k.s {
                ops.push(Opnd::Imm(sv));
            }
            ops.push(Opnd::Imm(d));
            let want = isa::encode(Core::Full, k.mnem, &ops).map(|v| v[0]);
            let bad: Option<String> = match (&o, want) {
                (Outcome::Ok(bu), Some(w)) => sites.iter().find_map(|a| {
                    let off = (*a * 2) as usize;
                    let got = if bu.code.len() >= off + 2 { bu.code[off] as u16 | (bu.code[off + 1] as u16) << 8 } else { 0 };
                    if got != w {
                        Some(format!("the branch at address {} must go back {} words to its own loop top (word {:04x}) but is {:04x} = {:?}", a, -d - 1, w, got, isa::decode(Core::Full, got, None).map(|x| (x.mnem, x.ops))))
                    } else {
                        None
                    }
                }),
                (Outcome::Ok(_), None) => Some(format!("displacement {} does not fit but the build succeeds", d)),
                (Outcome::Err(e), Some(_)) => Some(format!("displacement {} fits but the build fails: {}", d, e)),
                (Outcome::Err(_), None) => None,
                (Outcome::Panic { site, msg }, _) => Some(format!("panic at {}: {}", site, msg)),
            };
            if let Some(what) = bad {
                rep.violation(&format!("C03/wrong-displacement/kind={}/form=SetVariableLoopTop", kindname), || what, || json!({"kind": "build_str", "source": src, "branch_addresses": sites, "displacement": d, "observed": o.to_json()}));
            }
        });
    }
    let used = used_seqs.lock().unwrap().len();
    rep.guard(n_ok.load(Ordering::Relaxed) > 1000 && n_err.load(Ordering::Relaxed) > 1000, "need both reachable and unreachable targets");
    rep.guard(used == seqs.len(), "not every filler sequence was used");
    rep.guard(kinds.len() == 36, "36 instruction kinds expected");
    for s in samples.into_inner().unwrap() {
        rep.sample(|| s);
    }
    rep.assume("rjmp/rcall are also placed on devices of 512, 1 K, 2 K and 4 K words: AVRASM lets a 12-bit displacement wrap around the flash of a 4 K-word device, but the statement says an unreachable target is an error, never a wrapped offset, and a reachable one gets the displacement target - PC - 1, so a wrapped encoding is a violation; reachable targets outside the device's flash are not generated there, unreachable ones are (they must be refused)");
    rep.assume("absolute numeric targets below 0 are not generated");
    let coverage = cov(json!({
        "evaluations": evals.load(Ordering::Relaxed),
        "distinct_nontrivial": distinct_cases.load(Ordering::Relaxed),
        "far_distances": "2^p + {-2..2}, p in 7,8,12,13,15,16,17,21,22, both signs",
        "rule": "36 instruction kinds (18 named branches, brbs/brbc x 8 flags, rjmp, rcall) x 4 target forms (forward label, backward label, pc-relative, absolute) x 4 base placements (+ for branches the reduced-core device ATtiny20 with one-word lds/sts among the fillers) x every distance in the windows (branches -70..70; rjmp/rcall -2056..-2040,-8..8,2040..2056 quick / -2100..2100 thorough) x rotating filler sequences (all 1555 sequences of <=4 items over nop, jmp, .dw, odd .db, 3-byte .db, .org gap are used); rjmp/rcall at three positions on devices of 512/1K/2K/4K words with distances around half and all of the flash and far outside it; every kind as the body of a macro (with the target as argument or not) expanded at three addresses before and behind the target; distinct_nontrivial = distinct constructible (kind, form, base, distance) combinations",
        "exhaustive": true,
        "filler_sequences_used": used,
        "same_line_at_three_addresses_programs": n_reuse.load(Ordering::Relaxed),
        "loop_macro_over_a_set_variable_programs": n_setloop.load(Ordering::Relaxed),
        "small_device_placements": DEV_BASES.iter().map(|(d, f, o)| format!("{} ({} words) from {}", d, f, o)).collect::<Vec<_>>(),
        "outcomes": {"ok": n_ok.load(Ordering::Relaxed), "err": n_err.load(Ordering::Relaxed)},
        "caps_hit": [],
        "trusted_base": ["harness isa::decode / isa::canonical", "generator's own address bookkeeping (1- and 2-word items, padded .db, .org)"],
    }));
    rep.finish(coverage)
}
