//! C13 — instructions the selected device lacks are rejected; all others are unaffected (E1).
//! Every row of the device table x every instruction form.

use std::collections::{BTreeMap, BTreeSet};
use std::sync::atomic::{AtomicU64, Ordering};

use rayon::prelude::*;
use serde_json::json;

use crate::icase::{self, ICase};
use crate::isa::{self, Core, Opnd, Ptr};
use crate::report::{cov, machinery_fail, Report, Tier};
use crate::sut::{self, DeviceRow, Outcome};

#[derive(Clone)]
struct Form {
    name: String,
    variants: Vec<ICase>,
}

fn forms(tier: Tier) -> Vec<Form> {
    // group the legal enumeration by "form": mnemonic, plus the addressing mode for
    // ld/st/ldd/std/lpm/elpm
    let small = icase::small_cases_full();
    let mut groups: BTreeMap<String, Vec<ICase>> = BTreeMap::new();
    let mut order: Vec<String> = vec![];
    let mut all = small;
    all.push(icase::big_case(0x1_2345));
    all.push(icase::big_case(0x3f_ffff));
    all.push(icase::big_case((1 << 22) + 0x0_0100));
    all.push(icase::big_case((1 << 22) + 0x2a_aaaa));
    all.push(icase::big_case((2 << 22) + (16 << 16) + 0x60));
    all.push(icase::big_case((2 << 22) + (31 << 16) + 0xbf));
    all.push(icase::big_case((2 << 22) + (1 << 21) + (16 << 16) + 0x40));
    all.push(icase::big_case((2 << 22) + (1 << 21) + (23 << 16) + 0x9a));
    for c in all {
        let name = match c.mnem {
            "ld" | "lpm" | "elpm" if c.ops.len() == 2 => format!("{} Rd,{}", c.mnem, c.ops[1].text()),
            "st" => format!("st {},Rr", c.ops[0].text()),
            "ldd" => match &c.ops[1] {
                Opnd::Disp(b, _) => format!("ldd Rd,{}+q", b),
                _ => unreachable!(),
            },
            "std" => match &c.ops[0] {
                Opnd::Disp(b, _) => format!("std {}+q,Rr", b),
                _ => unreachable!(),
            },
            m => m.to_string(),
        };
        if !groups.contains_key(&name) {
            order.push(name.clone());
        }
        groups.entry(name).or_default().push(c);
    }
    let nvar = if tier.thorough() { 400 } else { 2 };
    order
        .into_iter()
        .map(|name| {
            let v = &groups[&name];
            let mut variants: Vec<ICase> = vec![];
            for i in 0..nvar {
                let c = v[(i * (v.len() - 1)) / (nvar - 1).max(1)].clone();
                // lds/sts must be encodable on both cores: registers r16..r31, address 0x40..0xbf
                if !variants.contains(&c) {
                    variants.push(c);
                }
            }
            if name == "lds" || name == "sts" {
                variants.retain(|c| isa::encode(Core::Reduced, c.mnem, &c.ops).is_some());
            }
            Form { name, variants }
        })
        .collect()
}

/// devspec: the flag (if any) that removes this form, per the flag documentation in the device
/// table (DisabledOptions). Fixed order so that a key names one flag deterministically.
fn removed_by(form: &Form, flags: &BTreeSet<String>) -> Option<&'static str> {
    removed_by_case(&form.variants[0], flags)
}

/// The same for one instruction case (C01 uses it to run its enumeration per device class).
pub fn removed_by_case(c: &ICase, flags: &BTreeSet<String>) -> Option<&'static str> {
    let m = c.mnem;
    let ptr_base = |c: &ICase| -> Option<char> {
        for o in &c.ops {
            match o {
                Opnd::Ptr(p) => return Some(p.base()),
                Opnd::Disp(b, _) => return Some(*b),
                _ => {}
            }
        }
        None
    };
    let has = |f: &str| flags.contains(f);
    let checks: Vec<(&'static str, bool)> = vec![
        ("NoMul", matches!(m, "mul" | "muls" | "mulsu" | "fmul" | "fmuls" | "fmulsu")),
        ("NoJmp", matches!(m, "jmp" | "call")),
        ("NoXreg", matches!(m, "ld" | "st" | "ldd" | "std") && ptr_base(c) == Some('X')),
        ("NoYreg", matches!(m, "ld" | "st" | "ldd" | "std") && ptr_base(c) == Some('Y')),
        (
            "Tiny1x",
            matches!(m, "adiw" | "sbiw" | "ijmp" | "icall" | "ldd" | "std" | "lds" | "sts" | "push" | "pop"),
        ),
        ("NoLpm", m == "lpm"),
        ("NoLpmX", m == "lpm" && c.ops.len() == 2),
        ("NoElpm", m == "elpm"),
        ("NoElpmX", m == "elpm" && c.ops.len() == 2),
        ("NoSpm", m == "spm"),
        ("NoMovw", m == "movw"),
        ("NoBreak", m == "break"),
        ("NoEicall", m == "eicall"),
        ("NoEijmp", m == "eijmp"),
        // the reduced core has no ldd/std either: their opcode space holds its one-word lds/sts
        ("Avr8l", matches!(m, "adiw" | "sbiw" | "ldd" | "std")),
    ];
    for (f, applies) in checks {
        if applies && has(f) {
            return Some(f);
        }
    }
    None
}

const KNOWN_FLAGS: [&str; 16] = [
    "NoMul", "NoJmp", "NoXreg", "NoYreg", "Tiny1x", "NoLpm", "NoLpmX", "NoElpm", "NoElpmX", "NoSpm", "NoEspm",
    "NoMovw", "NoBreak", "NoEicall", "NoEijmp", "Avr8l",
];

pub fn run(tier: Tier) -> i32 {
    let rep = Report::new("C13", tier, "exploration");
    isa::self_check().unwrap_or_else(|e| machinery_fail(&format!("ISA reference self-check failed: {}", e)));
    let devs = sut::devices();
    let forms = forms(tier);
    rep.guard(devs.len() >= 40, "device table has fewer than 40 rows");
    rep.guard(forms.len() >= 130, "fewer than 130 instruction forms");
    // every flag in the table must be one the devspec knows (a new flag needs a new rule)
    let mut flags_in_table: BTreeSet<String> = BTreeSet::new();
    for d in &devs {
        flags_in_table.extend(d.flags.iter().cloned());
    }
    for f in &flags_in_table {
        if !KNOWN_FLAGS.contains(&f.as_str()) {
            machinery_fail(&format!("device table uses a feature flag the devspec does not know: {}", f));
        }
    }
    // completeness guard: every flag in the table removes at least one enumerated form
    // (NoEspm is exempt: the tool has no espm mnemonic, so there is nothing to remove)
    let mut effective: BTreeMap<String, usize> = BTreeMap::new();
    for f in &flags_in_table {
        let one: BTreeSet<String> = [f.clone()].into_iter().collect();
        let n = forms.iter().filter(|fm| removed_by(fm, &one).is_some()).count();
        effective.insert(f.clone(), n);
        if f != "NoEspm" {
            rep.guard(n > 0, &format!("flag {} removes no enumerated form", f));
        }
    }

    // reference bytes with no device selected (the tool's own; C01 ties them to the ISA)
    let mut nodev: BTreeMap<String, Vec<u8>> = BTreeMap::new();
    for fm in &forms {
        for c in &fm.variants {
            if let Outcome::Ok(b) = sut::build_str(&format!("{}\n", c.text())) {
                nodev.insert(c.text(), b.code);
            }
        }
    }
    let evals = AtomicU64::new(0);
    let absent = AtomicU64::new(0);
    let present = AtomicU64::new(0);
    let work: Vec<(&DeviceRow, &Form)> = devs.iter().flat_map(|d| forms.iter().map(move |f| (d, f))).collect();
    work.par_iter().for_each(|(d, fm)| {
        let gone = removed_by(fm, &d.flags);
        let avr8l = d.flags.contains("Avr8l");
        for c in &fm.variants {
            let src = format!(".device {}\n{}\n", d.name, c.text());
            let o = sut::build_str(&src);
            evals.fetch_add(1, Ordering::Relaxed);
            let mut bad: Option<(String, String, serde_json::Value)> = None;
            match gone {
                Some(flag) => {
                    absent.fetch_add(1, Ordering::Relaxed);
                    if let Outcome::Ok(b) = &o {
                        bad = Some((
                            format!("C13/ungated/flag={}/form={}/device={}", flag, fm.name, d.name),
                            format!(
                                "{} lacks `{}` (flag {}) but `{}` assembles to {}",
                                d.name, fm.name, flag, c.text(), sut::hex(&b.code)
                            ),
                            json!({"result": "err (any text)"}),
                        ));
                    }
                }
                None => {
                    present.fetch_add(1, Ordering::Relaxed);
                    let want: Option<Vec<u8>> = if avr8l && (c.mnem == "lds" || c.mnem == "sts") {
                        icase::expect_bytes(Core::Reduced, c)
                    } else {
                        nodev.get(&c.text()).cloned()
                    };
                    match (&o, &want) {
                        (Outcome::Ok(b), Some(w)) if &b.code == w => {}
                        (Outcome::Ok(b), Some(w)) => {
                            bad = Some((
                                format!("C13/changed-bytes/form={}/device={}", fm.name, d.name),
                                format!(
                                    "`{}` on {} assembles to {} but {} is required ({})",
                                    c.text(), d.name, sut::hex(&b.code), sut::hex(w),
                                    if avr8l && (c.mnem == "lds" || c.mnem == "sts") { "one-word reduced-core form" } else { "same as with no device" }
                                ),
                                json!({"result": "ok", "code": sut::hex(w)}),
                            ));
                        }
                        (_, None) => {} // not assemblable even without a device: C01's finding, not C13's
                        (other, Some(w)) => {
                            if !other.is_panic() {
                                bad = Some((
                                    format!("C13/over-rejected/form={}/device={}", fm.name, d.name),
                                    format!(
                                        "{} has `{}` (no flag of the row removes it) but `{}` is rejected: {}",
                                        d.name, fm.name, c.text(), other.err_text().unwrap_or("")
                                    ),
                                    json!({"result": "ok", "code": sut::hex(w)}),
                                ));
                            }
                        }
                    }
                }
            }
            if let Some((key, what, exp)) = bad {
                rep.violation(&key, || what, || json!({"kind": "build_str", "source": src, "expected": exp, "observed": o.to_json()}));
            }
        }
    });
    // several instructions in one build: every ordered pair of forms of the same mnemonic, and a
    // lacking form after an unrelated instruction — the verdict must not depend on what came before
    let n_pairs = AtomicU64::new(0);
    let mut by_mnem: BTreeMap<&str, Vec<&Form>> = BTreeMap::new();
    for fm in &forms {
        by_mnem.entry(fm.variants[0].mnem).or_default().push(fm);
    }
    let pair_work: Vec<(&DeviceRow, &Form, &Form)> = devs
        .iter()
        .flat_map(|d| {
            let mut v = vec![];
            for (_, fs) in by_mnem.iter() {
                if fs.len() < 2 {
                    continue;
                }
                for a in fs.iter() {
                    for b in fs.iter() {
                        v.push((d, *a, *b));
                    }
                }
            }
            let nop = forms.iter().find(|f| f.name == "nop").unwrap();
            for fm in forms.iter() {
                v.push((d, nop, fm));
                v.push((d, fm, nop));
            }
            v
        })
        .collect();
    pair_work.par_iter().for_each(|(d, f1, f2)| {
        let avr8l = d.flags.contains("Avr8l");
        let (c1, c2) = (&f1.variants[0], &f2.variants[f2.variants.len() - 1]);
        let gone = removed_by(f1, &d.flags).or(removed_by(f2, &d.flags));
        let src = format!(".device {}\n{}\n{}\n", d.name, c1.text(), c2.text());
        let o = sut::build_str(&src);
        evals.fetch_add(1, Ordering::Relaxed);
        n_pairs.fetch_add(1, Ordering::Relaxed);
        let bytes = |c: &ICase| -> Option<Vec<u8>> {
            if avr8l && (c.mnem == "lds" || c.mnem == "sts") {
                icase::expect_bytes(Core::Reduced, c)
            } else {
                nodev.get(&c.text()).cloned()
            }
        };
        let mut bad: Option<(String, String)> = None;
        match (gone, &o) {
            (Some(flag), Outcome::Ok(b)) => bad = Some((format!("C13/ungated-in-sequence/flag={}/forms={}+{}/device={}", flag, f1.name, f2.name, d.name), format!("{} lacks one of `{}` / `{}` (flag {}) but the two-instruction program assembles to {}", d.name, f1.name, f2.name, flag, sut::hex(&b.code)))),
            (None, Outcome::Ok(b)) => {
                if let (Some(mut w1), Some(w2)) = (bytes(c1), bytes(c2)) {
                    w1.extend(w2);
                    if b.code != w1 {
                        bad = Some((format!("C13/changed-bytes-in-sequence/forms={}+{}/device={}", f1.name, f2.name, d.name), format!("`{}` then `{}` on {} assembles to {} instead of {}", c1.text(), c2.text(), d.name, sut::hex(&b.code), sut::hex(&w1))));
                    }
                }
            }
            (None, Outcome::Err(e)) => {
                if bytes(c1).is_some() && bytes(c2).is_some() {
                    bad = Some((format!("C13/over-rejected-in-sequence/forms={}+{}/device={}", f1.name, f2.name, d.name), format!("{} has both `{}` and `{}` but the program is rejected: {}", d.name, f1.name, f2.name, e)));
                }
            }
            _ => {}
        }
        if let Some((key, what)) = bad {
            rep.violation(&key, || what, || json!({"kind": "build_str", "source": src, "observed": o.to_json()}));
        }
    });
    // directives between the .device line and the instruction that might touch the device record
    // (.csegsize with each legal value, .cseg/.dseg switches, .org): the gate stays what the row says
    let n_after_directive = AtomicU64::new(0);
    work.par_iter().for_each(|(d, fm)| {
        let gone = removed_by(fm, &d.flags);
        let c = &fm.variants[0];
        for (bi, between) in [".csegsize 16\n", ".csegsize 10\n", ".csegsize 12\n.csegsize 14\n", ".dseg\n.cseg\n.org 0x10\n", ".def t_q = r16\n", ".set s_q = 1\n", ".db 1, 2\n", ".dw 3\nlbl_q:\n.undef_not\n"].iter().enumerate() {
            // (the last entry is replaced below: a data line, a label and an .equ)
            let between: &str = if bi == 7 { ".dw 3\nlbl_q:\n.equ e_q = 2\n" } else { between };
            let src = format!(".device {}\n{}{}\n", d.name, between, c.text());
            let o = sut::build_str(&src);
            evals.fetch_add(1, Ordering::Relaxed);
            n_after_directive.fetch_add(1, Ordering::Relaxed);
            let bad = match (gone, &o) {
                (Some(flag), Outcome::Ok(b)) => Some((format!("C13/ungated-after-directive/flag={}/form={}/device={}", flag, fm.name, d.name), format!("{} lacks `{}` (flag {}) but after `{}` it assembles to {}", d.name, fm.name, flag, between.trim().replace('\n', " / "), sut::hex_trunc(&b.code, 16)))),
                (None, Outcome::Err(e)) if nodev.contains_key(&c.text()) => Some((format!("C13/over-rejected-after-directive/form={}/device={}/between={}", fm.name, d.name, bi), format!("{} has `{}` but after `{}` it is rejected: {}", d.name, fm.name, between.trim().replace('\n', " / "), e))),
                _ => None,
            };
            if let Some((key, what)) = bad {
                rep.violation(&key, || what, || json!({"kind": "build_str", "source": src, "observed": o.to_json()}));
            }
        }
    });
    // the lacking instruction is not the last thing of the program: further code segments (an
    // .org, a round trip through .dseg / .eseg), data, a macro call and an included-style block
    // follow it - the build fails all the same; an instruction the device has stays accepted
    let n_followed = AtomicU64::new(0);
    work.par_iter().for_each(|(d, fm)| {
        let gone = removed_by(fm, &d.flags);
        let c = &fm.variants[0];
        for (bi, behind) in [".org 0x10\nnop\n", ".dseg\n.cseg\nnop\n", ".cseg\nnop\n.cseg\nnop\n", ".org 0x10\nnop\n.org 0x18\nnop\n.org 0x1c\n.dw 1\n", "nop\n.org 0x10\nnop\n"].iter().enumerate() {
            for lead in ["", "nop\n.org 0x8\n"] {
                let src = format!(".device {}\n{}{}\n{}", d.name, lead, c.text(), behind);
                let o = sut::build_str(&src);
                evals.fetch_add(1, Ordering::Relaxed);
                n_followed.fetch_add(1, Ordering::Relaxed);
                let bad = match (gone, &o) {
                    (Some(flag), Outcome::Ok(b)) => Some((format!("C13/ungated-when-followed-by-more-code/flag={}/form={}/device={}", flag, fm.name, d.name), format!("{} lacks `{}` (flag {}) but followed by `{}` the program assembles to {}", d.name, fm.name, flag, behind.trim().replace('\n', " / "), sut::hex_trunc(&b.code, 16)))),
                    (None, Outcome::Err(e)) if nodev.contains_key(&c.text()) && d.flash_words > 0x20 => Some((format!("C13/over-rejected-when-followed-by-more-code/form={}/device={}/behind={}", fm.name, d.name, bi), format!("{} has `{}` but followed by `{}` it is rejected: {}", d.name, fm.name, behind.trim().replace('\n', " / "), e))),
                    _ => None,
                };
                if let Some((key, what)) = bad {
                    rep.violation(&key, || what, || json!({"kind": "build_str", "source": src, "observed": o.to_json()}));
                }
            }
        }
    });
    // pragmas and listing directives (as the shipped part definition files carry them) in front of
    // and behind the instruction: none of them changes what the device has. Only the lines the
    // tool accepts at all are used (decided on a program without a device).
    let n_pragma = AtomicU64::new(0);
    let pragma_lines: Vec<&str> = [
        "#pragma AVRPART CORE INSTRUCTIONS_NOT_SUPPORTED break",
        "#pragma AVRPART CORE INSTRUCTIONS_NOT_SUPPORTED",
        "#pragma AVRPART CORE CORE_VERSION V2E",
        "#pragma AVRPART MEMORY PROG_FLASH 8192",
        "#pragma AVRPART ADMIN PART_NAME ATmega2560",
        ".pragma AVRPART ADMIN PART_NAME ATmega2560",
        "#pragma warning instruction",
        "#pragma error instruction",
        "#pragma partinc 0",
        "#pragma overlap",
        ".listmac",
        ".nolist",
        ".overlap",
    ]
    .into_iter()
    .filter(|l| sut::build_str(&format!("nop\n{}\nnop\n", l)).is_ok())
    .collect();
    rep.guard(pragma_lines.len() >= 4, "fewer than 4 pragma / listing lines are accepted by the tool");
    work.par_iter().for_each(|(d, fm)| {
        let gone = removed_by(fm, &d.flags);
        let c = &fm.variants[0];
        for (pi, p) in pragma_lines.iter().enumerate() {
            for place in 0..3usize {
                // before, behind, both
                let src = match place {
                    0 => format!(".device {}\n{}\n{}\n", d.name, p, c.text()),
                    1 => format!(".device {}\n{}\nnop\n{}\n", d.name, c.text(), p),
                    _ => format!(".device {}\n{}\n{}\nnop\n{}\n", d.name, p, c.text(), p),
                };
                let o = sut::build_str(&src);
                evals.fetch_add(1, Ordering::Relaxed);
                n_pragma.fetch_add(1, Ordering::Relaxed);
                let bad = match (gone, &o) {
                    (Some(flag), Outcome::Ok(b)) => Some((format!("C13/ungated-near-pragma/flag={}/form={}/device={}", flag, fm.name, d.name), format!("{} lacks `{}` (flag {}) but with `{}` {} it assembles to {}", d.name, fm.name, flag, p, ["in front of it", "behind it", "around it"][place], sut::hex_trunc(&b.code, 16)))),
                    // (a tree that honours `INSTRUCTIONS_NOT_SUPPORTED break` by refusing break as well
                    // goes beyond the table, but not against what the pragma says: not demanded)
                    (None, Outcome::Err(_)) if fm.name == "break" && p.contains("NOT_SUPPORTED break") => None,
                    (None, Outcome::Err(e)) if nodev.contains_key(&c.text()) => Some((format!("C13/over-rejected-near-pragma/form={}/device={}/pragma={}", fm.name, d.name, pi), format!("{} has `{}` but with `{}` {} it is rejected: {}", d.name, fm.name, p, ["in front of it", "behind it", "around it"][place], e))),
                    (None, Outcome::Ok(b)) => {
                        // same bytes as without the pragma (lds/sts: the row's form)
                        let plain = sut::build_str(&format!(".device {}\n{}\n", d.name, c.text()));
                        match plain {
                            Outcome::Ok(pb) if b.code.starts_with(&pb.code) => None,
                            Outcome::Ok(pb) => Some((format!("C13/changed-bytes-near-pragma/form={}/device={}", fm.name, d.name), format!("`{}` on {} assembles to {} without and to {} with `{}` {}", c.text(), d.name, sut::hex(&pb.code), sut::hex_trunc(&b.code, 16), p, ["in front of it", "behind it", "around it"][place]))),
                            _ => None,
                        }
                    }
                    _ => None,
                };
                if let Some((key, what)) = bad {
                    rep.violation(&key, || what, || json!({"kind": "build_str", "source": src, "observed": o.to_json()}));
                }
            }
        }
    });
    // two-word lds/sts take any 16-bit address on every device that has them (external memory,
    // I/O space): the device's internal RAM extent does not gate them
    let n_lds_space = AtomicU64::new(0);
    devs.par_iter().for_each(|d| {
        if d.flags.contains("Tiny1x") || d.flags.contains("Avr8l") {
            return;
        }
        for line in ["lds r1, 0xffff", "sts 0x1100, r16", "lds r16, 0x60", "sts 0xfffe, r31", "lds r0, 0", "sts 0x8000, r2", "lds r20, 0x10ff"] {
            let src = format!(".device {}\n{}\n", d.name, line);
            let o = sut::build_str(&src);
            let want = sut::build_str(&format!("{}\n", line));
            evals.fetch_add(1, Ordering::Relaxed);
            n_lds_space.fetch_add(1, Ordering::Relaxed);
            let same = matches!((&o, &want), (Outcome::Ok(a), Outcome::Ok(b)) if a.code == b.code);
            if !same {
                rep.violation(&format!("C13/over-rejected/form=lds-sts-any-address/device={}", d.name), || format!("{} has lds/sts but `{}` gives {} (no device: {})", d.name, line, o.brief(), want.brief()), || json!({"kind": "build_str", "source": src, "expected": want.to_json(), "observed": o.to_json()}));
            }
        }
    });
    // an instruction the device has, between a jump over it and a label behind it: both passes must
    // agree on its length on every device, or the jumps around it go astray
    let n_between = AtomicU64::new(0);
    work.par_iter().for_each(|(d, fm)| {
        if removed_by(fm, &d.flags).is_some() {
            return;
        }
        let avr8l = d.flags.contains("Avr8l");
        for c in [&fm.variants[0], &fm.variants[fm.variants.len() - 1]] {
            if icase::is_relative(c.mnem) {
                continue;
            }
            let w: Option<Vec<u8>> = if avr8l && (c.mnem == "lds" || c.mnem == "sts") { icase::expect_bytes(Core::Reduced, c) } else { nodev.get(&c.text()).cloned() };
            let w = match w {
                Some(w) => w,
                None => continue,
            };
            let src = format!(".device {}\nrjmp end_l\n{}\nend_l: rjmp end_l\n.dw end_l\n", d.name, c.text());
            let o = sut::build_str(&src);
            evals.fetch_add(1, Ordering::Relaxed);
            n_between.fetch_add(1, Ordering::Relaxed);
            let words = (w.len() / 2) as u16;
            let mut want: Vec<u8> = vec![];
            want.extend((0xc000u16 | words).to_le_bytes());
            want.extend(w.iter());
            want.extend(0xcfffu16.to_le_bytes());
            want.extend((1 + words).to_le_bytes());
            let bad = match &o {
                Outcome::Ok(b) if b.code == want => None,
                Outcome::Ok(b) => Some(format!("assembles to {} instead of {}", sut::hex(&b.code), sut::hex(&want))),
                Outcome::Err(e) => Some(format!("is rejected: {}", e)),
                Outcome::Panic { site, msg } => Some(format!("panics at {}: {}", site, msg)),
            };
            if let Some(what) = bad {
                rep.violation(&format!("C13/jumps-around-an-available-instruction/form={}/device={}", fm.name, d.name), || format!("`rjmp end_l / {} / end_l: rjmp end_l / .dw end_l` on {} {}", c.text(), d.name, what), || json!({"kind": "build_str", "source": src, "expected": {"result": "ok", "code": sut::hex(&want)}, "observed": o.to_json()}));
            }
        }
    });
    // the device may also be selected after a code line, inside the body of an invoked macro, or
    // in an included file: the gate must follow the device that is in force
    let n_select = AtomicU64::new(0);
    {
        let scratch = crate::report::Scratch::new("c13");
        for d in devs.iter() {
            let _ = std::fs::write(scratch.path.join(format!("sel_{}.inc", d.name)), format!(".device {}\n", d.name));
        }
        let sel_work: Vec<(&DeviceRow, &Form, u8)> = devs.iter().flat_map(|d| forms.iter().flat_map(move |f| (0..3u8).map(move |h| (d, f, h)))).collect();
        sel_work.par_iter().enumerate().for_each(|(wi, (d, fm, how))| {
            let c = &fm.variants[0];
            let gone = removed_by(fm, &d.flags);
            let avr8l = d.flags.contains("Avr8l");
            let (o, src, lead): (Outcome, String, Vec<u8>) = match how {
                0 => {
                    let src = format!("nop\n.device {}\n{}\n", d.name, c.text());
                    (sut::build_str(&src), src, vec![0, 0])
                }
                1 => {
                    let src = format!(".macro board_sel\n.device {}\n.endm\nboard_sel\n{}\n", d.name, c.text());
                    (sut::build_str(&src), src, vec![])
                }
                _ => {
                    let src = format!(".include \"sel_{}.inc\"\n{}\n", d.name, c.text());
                    let main = scratch.path.join(format!("main_{}.asm", wi));
                    let _ = std::fs::write(&main, &src);
                    let o = sut::build_file(main.clone(), Default::default());
                    let _ = std::fs::remove_file(&main);
                    (o, src, vec![])
                }
            };
            evals.fetch_add(1, Ordering::Relaxed);
            n_select.fetch_add(1, Ordering::Relaxed);
            let hown = ["after-a-code-line", "in-a-macro-body", "in-an-included-file"][*how as usize];
            let want: Option<Vec<u8>> = if avr8l && (c.mnem == "lds" || c.mnem == "sts") { icase::expect_bytes(Core::Reduced, c) } else { nodev.get(&c.text()).cloned() };
            let bad: Option<(String, String)> = match (gone, &o, &want) {
                (Some(flag), Outcome::Ok(b), _) => Some((format!("C13/ungated/flag={}/form={}/device-selected={}", flag, fm.name, hown), format!("{} (selected {}) lacks `{}` (flag {}) but `{}` assembles to {}", d.name, hown, fm.name, flag, c.text(), sut::hex(&b.code)))),
                (None, Outcome::Ok(b), Some(w)) => {
                    let mut full = lead.clone();
                    full.extend(w.iter());
                    if b.code != full {
                        Some((format!("C13/changed-bytes/form={}/device-selected={}", fm.name, hown), format!("`{}` on {} (selected {}) assembles to {} instead of {}", c.text(), d.name, hown, sut::hex(&b.code), sut::hex(&full))))
                    } else if b.flash_size != d.flash_words {
                        Some((format!("C13/device-not-in-force/device-selected={}", hown), format!("{} selected {} is not the device reported", d.name, hown)))
                    } else {
                        None
                    }
                }
                (None, Outcome::Err(e), Some(_)) => Some((format!("C13/over-rejected/form={}/device-selected={}", fm.name, hown), format!("{} (selected {}) has `{}` but it is rejected: {}", d.name, hown, fm.name, e))),
                _ => None,
            };
            if let Some((key, what)) = bad {
                rep.violation(&key, || what, || json!({"kind": "build_str", "source": src, "observed": o.to_json()}));
            }
        });
    }
    // sibling spellings (`ld Rd,Z+q` for ldd, `ldd Rd,Z` for ld, ...): if the tool accepts one, the
    // instruction it emits - found by decoding the word - must be one the device has
    let n_sibling = AtomicU64::new(0);
    {
        let sib: Vec<&str> = vec![
            "ld r4, Z+5", "ld r4, Y+5", "ld r4, Z+0", "st Z+5, r4", "st Y+63, r4", "ldd r4, Z", "ldd r4, Y", "std Z, r4", "std Y, r4", "ldd r4, X", "ldd r4, X+", "ldd r4, -Y",
            "ldd r4, Z+", "std X, r4", "std -X, r4", "std Y+, r4", "ld r4, X+0",
        ];
        let sib_work: Vec<(&DeviceRow, &str)> = devs.iter().flat_map(|d| sib.iter().map(move |t| (d, *t))).collect();
        sib_work.par_iter().for_each(|(d, text)| {
            let src = format!(".device {}\n{}\n", d.name, text);
            let o = sut::build_str(&src);
            evals.fetch_add(1, Ordering::Relaxed);
            n_sibling.fetch_add(1, Ordering::Relaxed);
            if let Outcome::Ok(b) = &o {
                if b.code.len() >= 2 {
                    let w0 = b.code[0] as u16 | (b.code[1] as u16) << 8;
                    let core = if d.flags.contains("Avr8l") { Core::Reduced } else { Core::Full };
                    if let Some(mut dec) = isa::decode(core, w0, None) {
                        // a displacement of 0 is the encoding of plain ld/st through Y/Z, which
                        // even the smallest cores have
                        if (dec.mnem == "ldd" || dec.mnem == "std") && dec.ops.iter().any(|o| matches!(o, Opnd::Disp(_, 0))) {
                            let plain: Vec<Opnd> = dec.ops.iter().map(|o| match o { Opnd::Disp('Y', 0) => Opnd::Ptr(isa::Ptr::Y), Opnd::Disp(_, 0) => Opnd::Ptr(isa::Ptr::Z), x => x.clone() }).collect();
                            dec = isa::Decoded { mnem: if dec.mnem == "ldd" { "ld" } else { "st" }, ops: plain, len: 1 };
                        }
                        let ic = ICase { mnem: dec.mnem, ops: dec.ops.clone() };
                        let tmp = Form { name: format!("{} {}", dec.mnem, ic.key_ops()), variants: vec![ic] };
                        if let Some(flag) = removed_by(&tmp, &d.flags) {
                            rep.violation(
                                &format!("C13/ungated-spelling/flag={}/emitted={}/device={}", flag, dec.mnem, d.name),
                                || format!("`{}` on {} assembles to {} = `{} {}`, an instruction the device lacks (flag {})", text, d.name, sut::hex(&b.code), dec.mnem, tmp.variants[0].key_ops(), flag),
                                || json!({"kind": "build_str", "source": src, "expected": "err (or an instruction the device has)", "observed": o.to_json()}),
                            );
                        }
                    }
                }
            }
        });
    }
    rep.guard(absent.load(Ordering::Relaxed) > 500 && present.load(Ordering::Relaxed) > 3000, "need both absent and present combinations");
    rep.sample(|| json!({"source": format!(".device {}\n{}", devs[0].name, forms[3].variants[0].text()), "device_flags": devs[0].flags, "form": forms[3].name}));
    rep.sample(|| { let d = devs.iter().find(|d| d.flags.contains("NoMul")).unwrap(); json!({"source": format!(".device {}\nmuls r16, r17", d.name), "expected": "err (NoMul)"}) });
    rep.assume("the device table's own flags are the specification of what a device lacks (no frozen copy), mapped to instruction forms by the flag documentation in DisabledOptions");
    rep.assume("NoEspm removes nothing: the tool has no espm mnemonic");
    let coverage = cov(json!({
        "evaluations": evals.load(Ordering::Relaxed),
        "distinct_nontrivial": work.len(),
        "rule": "(+ per device every ordered pair of forms of the same mnemonic and every form before/after nop, in one build; every available form between a jump over it and the label behind it) every row of the device table x every instruction form (mnemonic, and addressing mode for ld/st/ldd/std/lpm/elpm) x operand variants; distinct_nontrivial = distinct (device, form) pairs, each of which is a device-selected build with a non-empty expected verdict",
        "exhaustive": true,
        "devices": devs.len(),
        "forms": forms.len(),
        "absent_combinations_checked": absent.load(Ordering::Relaxed),
        "present_combinations_checked": present.load(Ordering::Relaxed),
        "two_instruction_programs": n_pairs.load(Ordering::Relaxed),
        "lds_sts_over_the_address_space_programs": n_lds_space.load(Ordering::Relaxed),
        "instruction_after_csegsize_or_segment_directives_programs": n_after_directive.load(Ordering::Relaxed),
        "instruction_followed_by_further_code_segments_programs": n_followed.load(Ordering::Relaxed),
        "instruction_near_pragma_or_listing_lines_programs": n_pragma.load(Ordering::Relaxed),
        "pragma_or_listing_lines_used": pragma_lines,
        "jumps_around_an_available_instruction_programs": n_between.load(Ordering::Relaxed),
        "device_selected_elsewhere_programs": n_select.load(Ordering::Relaxed),
        "sibling_spelling_programs": n_sibling.load(Ordering::Relaxed),
        "forms_removed_per_flag": effective,
        "caps_hit": [],
        "trusted_base": ["harness devspec (flag -> forms, from the flag documentation)", "isa reference for reduced-core lds/sts"],
    }));
    rep.finish(coverage)
}
