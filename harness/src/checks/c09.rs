//! C09 — a macro call behaves as its body with the call's arguments substituted (E2).
//!
//! Reference: macro table + semantic expander (expression arguments are substituted as values,
//! i.e. parenthesised; registers and pointer forms as written). Oracle: build(macro program) ==
//! build(hand-expanded program).

use std::collections::{BTreeMap, BTreeSet};
use std::sync::atomic::{AtomicU64, Ordering};
use std::sync::Mutex;

use rayon::prelude::*;
use serde_json::json;

use crate::exprm::{bin, num, un, BinOp, Radix, UnOp, E};
use crate::mc::{self, RefModel};
use crate::report::{cov, Report, Tier};
use crate::sut::{self, Outcome};

#[derive(Clone, Debug, PartialEq, Eq, Hash)]
pub enum Arg {
    /// expression argument: source text as the caller writes it
    Expr(String),
    /// register or pointer form, pasted as written
    Raw(String),
}

impl Arg {
    fn call_text(&self) -> String {
        match self {
            Arg::Expr(t) | Arg::Raw(t) => t.clone(),
        }
    }
    /// what `@n` stands for in the hand-expanded program
    fn subst(&self) -> String {
        match self {
            Arg::Expr(t) => format!("({})", t),
            Arg::Raw(t) => t.clone(),
        }
    }
}

#[derive(Clone, Copy, PartialEq, Eq, Hash, Debug, PartialOrd, Ord)]
pub enum Mac {
    Dw,
    Scale,
    Regs,
    Ldd,
    Ten,
    Outer,
    Mid,
    Cond,
    Dseg,
    Eseg,
    /// body positions the code with .org (the argument is made increasing by the renderer)
    Org,
    /// a macro whose body calls the .org macro and then a plain one
    OrgOuter,
    /// the "emit once" idiom: a body conditional on a flag the body itself defines
    EmitOnce,
    /// a body that may expand to nothing
    Maybe,
    /// a body that tests a flag it does not define ...
    Probe,
    /// ... and another macro that defines it
    Setter,
    /// the second parameter is used only in an arm that the first one may leave unselected
    Optional,
    /// the body's last line is a segment directive (back to the code segment): nothing follows it
    TailCseg,
    /// the body's last line is an .org (the argument is made increasing by the renderer)
    TailOrg,
    /// the argument is a name used as a name: the flag of an .ifdef (flags are case-sensitive)
    FlagArg,
    /// a parameter directly followed by a digit: parameters are @0..@9, one digit; the digit behind is text
    DigitAfter,
    /// parameters behind a `;` that is a character or part of a string, not a comment
    SemiLit,
    /// the whole body is one .org (the argument is made increasing by the renderer)
    OnlyOrg,
    /// `.org` directly followed by a segment directive: the position is carried by a segment that holds nothing
    OrgThenSeg,
    /// the whole body is a segment directive and its way back
    OnlySeg,
}

const MACS: [Mac; 25] = [Mac::Dw, Mac::Scale, Mac::Regs, Mac::Ldd, Mac::Ten, Mac::Outer, Mac::Mid, Mac::Cond, Mac::Dseg, Mac::Eseg, Mac::Org, Mac::OrgOuter, Mac::EmitOnce, Mac::Maybe, Mac::Probe, Mac::Setter, Mac::Optional, Mac::TailCseg, Mac::TailOrg, Mac::FlagArg, Mac::SemiLit, Mac::OnlyOrg, Mac::OnlySeg, Mac::OrgThenSeg, Mac::DigitAfter];

enum BL {
    Text(&'static str),
    Call(Mac, &'static [&'static str]),
}

impl Mac {
    fn name(self) -> &'static str {
        match self {
            Mac::Dw => "m_dw",
            Mac::Scale => "m_scale",
            Mac::Regs => "m_regs",
            Mac::Ldd => "m_ldd",
            Mac::Ten => "m_ten",
            Mac::Outer => "m_outer",
            Mac::Mid => "m_mid",
            Mac::Cond => "m_cond",
            Mac::Dseg => "m_dseg",
            Mac::Eseg => "m_eseg",
            Mac::Org => "m_org",
            Mac::OrgOuter => "m_orgouter",
            Mac::EmitOnce => "m_once",
            Mac::Maybe => "m_maybe",
            Mac::Probe => "m_probe",
            Mac::Setter => "m_setter",
            Mac::Optional => "m_opt",
            Mac::TailCseg => "m_tailcseg",
            Mac::TailOrg => "m_tailorg",
            Mac::FlagArg => "m_flagarg",
            Mac::DigitAfter => "m_digitafter",
            Mac::SemiLit => "m_semilit",
            Mac::OnlyOrg => "m_onlyorg",
            Mac::OrgThenSeg => "m_orgthenseg",
            Mac::OnlySeg => "m_onlyseg",
        }
    }
    fn nparams(self) -> usize {
        match self {
            Mac::Dw | Mac::Scale | Mac::Dseg | Mac::Eseg | Mac::Org | Mac::OrgOuter | Mac::Maybe | Mac::TailCseg | Mac::TailOrg | Mac::FlagArg | Mac::OnlyOrg | Mac::OrgThenSeg => 1,
            Mac::EmitOnce | Mac::Probe | Mac::Setter | Mac::OnlySeg => 0,
            Mac::Ldd | Mac::Outer | Mac::Mid | Mac::Cond | Mac::Optional | Mac::SemiLit | Mac::DigitAfter => 2,
            Mac::Regs => 3,
            Mac::Ten => 10,
        }
    }
    fn body(self) -> Vec<BL> {
        match self {
            // F1: expression round trip, alone and inside a function call
            Mac::Dw => vec![BL::Text(".dw @0"), BL::Text("ldi r16, low(@0)")],
            // F1: @0 inside a larger expression (only called with atomic / parenthesised arguments)
            Mac::Scale => vec![BL::Text(".dw @0 * 2 + 1")],
            // F2: registers and pointer forms
            Mac::Regs => vec![BL::Text("mov @0, @1"), BL::Text("ld @0, @2"), BL::Text("st @2, @1")],
            Mac::Ldd => vec![BL::Text("ldd @0, @1"), BL::Text("std @1, @0")],
            // F3: ten parameters
            Mac::Ten => vec![BL::Text(".db @0, @1, @2, @3, @4, @5, @6, @7, @8, @9")],
            // F4: nesting depth 3, arguments passed through, swapped and extended
            Mac::Outer => vec![BL::Call(Mac::Mid, &["@1", "@0"]), BL::Text("ldi r21, low(@0)")],
            Mac::Mid => vec![BL::Call(Mac::Dw, &["@0"]), BL::Call(Mac::Dw, &["(@1)+1"])],
            // F5: conditionals on parameters (atomic / parenthesised arguments only)
            Mac::Cond => vec![
                BL::Text(".if @0 > 5"),
                BL::Text("ldi r18, 1"),
                BL::Text(".elif @0 == @1"),
                BL::Text("ldi r18, 2"),
                BL::Text(".else"),
                BL::Text("ldi r18, 3"),
                BL::Text(".endif"),
            ],
            // F6: bodies that switch segment and come back
            Mac::Dseg => vec![BL::Text("ldi r19, low(@0)"), BL::Text(".dseg"), BL::Text(".byte 2"), BL::Text(".cseg"), BL::Text("ldi r19, high(@0)")],
            Mac::EmitOnce => vec![BL::Text(".ifndef ONCE_FLAG"), BL::Text(".define ONCE_FLAG"), BL::Text("ldi r26, 1"), BL::Text(".else"), BL::Text("ldi r26, 2"), BL::Text(".endif")],
            Mac::Maybe => vec![BL::Text(".if @0 > 5"), BL::Text("ldi r27, low(@0)"), BL::Text(".endif")],
            Mac::Probe => vec![BL::Text(".ifdef PROBE_FLAG"), BL::Text("ldi r28, 1"), BL::Text(".else"), BL::Text("ldi r28, 2"), BL::Text(".endif")],
            Mac::Setter => vec![BL::Text(".define PROBE_FLAG"), BL::Text("ldi r29, 7")],
            Mac::Optional => vec![BL::Text(".if @0 > 5"), BL::Text("ldi r29, low(@1) ; uses @1"), BL::Text(".endif"), BL::Text("ldi r30, low(@0) // not @1")],
            Mac::OnlyOrg => vec![BL::Text(".org @0")],
            Mac::OrgThenSeg => vec![BL::Text("ldi r24, 8"), BL::Text(".org @0"), BL::Text(".dseg"), BL::Text(".byte 1"), BL::Text(".cseg"), BL::Text("ldi r24, 9")],
            Mac::OnlySeg => vec![BL::Text(".dseg"), BL::Text(".cseg")],
            Mac::DigitAfter => vec![BL::Text("ldi r2@0, @10 + @0"), BL::Text(".dw @00, @01, 1@1"), BL::Text("clr r@11")],
            Mac::FlagArg => vec![BL::Text(".ifdef @0"), BL::Text("ldi r28, 5"), BL::Text(".else"), BL::Text("ldi r28, 6"), BL::Text(".endif")],
            Mac::SemiLit => vec![BL::Text(".db ';', low(@1)"), BL::Text(".db \"k;\", low(@0)"), BL::Text("cpi r16, ';' ; a comment with @1"), BL::Text(".db \"\u{b0}C \u{e9}\", low(@0), \"\u{20ac}\", low(@1)")],
            Mac::TailCseg => vec![BL::Text(".eseg"), BL::Text(".db @0"), BL::Text(".cseg")],
            Mac::TailOrg => vec![BL::Text("ldi r24, 3"), BL::Text(".org @0")],
            Mac::Org => vec![BL::Text("ldi r24, 1"), BL::Text(".org @0"), BL::Text("ldi r24, low(@0)")],
            Mac::OrgOuter => vec![BL::Call(Mac::Org, &["@0"]), BL::Call(Mac::Dw, &["@0"]), BL::Text("ldi r25, 2")],
            Mac::Eseg => vec![BL::Text(".eseg"), BL::Text(".db @0"), BL::Text(".cseg"), BL::Text("ldi r20, low(@0)"), BL::Text(".eseg"), BL::Text(".db 0x33"), BL::Text(".cseg"), BL::Text("ldi r20, 0x44")],
        }
    }
}

fn substitute(template: &str, args: &[Arg], value_semantics: bool) -> Option<String> {
    let mut out = String::new();
    let b = template.as_bytes();
    let mut i = 0;
    while i < b.len() {
        if b[i] == b'@' && i + 1 < b.len() && b[i + 1].is_ascii_digit() {
            let n = (b[i + 1] - b'0') as usize;
            match args.get(n) {
                Some(a) => out.push_str(&if value_semantics { a.subst() } else { a.call_text() }),
                // the call omits this argument: the text stays as it is - an error where the line
                // is assembled, nothing where it is skipped or a comment
                None => out.push_str(&template[i..i + 2]),
            }
            i += 2;
        } else {
            // (copy the whole character: the template may hold text beyond ASCII)
            let ch = template[i..].chars().next().unwrap();
            out.push(ch);
            i += ch.len_utf8();
        }
    }
    Some(out)
}

/// Hand-expansion. None = the call must fail (undefined macro / missing argument).
fn expand(m: Mac, args: &[Arg], defined: &BTreeSet<Mac>, out: &mut Vec<String>, depth: usize) -> Option<()> {
    if !defined.contains(&m) || depth > 5 {
        return None;
    }
    for l in m.body() {
        match l {
            BL::Text(t) => out.push(substitute(t, args, true)?),
            BL::Call(inner, templ) => {
                let mut ia = vec![];
                for t in templ.iter() {
                    // "@n" alone passes the caller's argument through unchanged
                    if t.len() == 2 && t.starts_with('@') {
                        let n = (t.as_bytes()[1] - b'0') as usize;
                        ia.push(args.get(n)?.clone());
                    } else {
                        ia.push(Arg::Expr(substitute(t, args, true)?));
                    }
                }
                expand(inner, &ia, defined, out, depth + 1)?;
            }
        }
    }
    Some(())
}

fn spell(name: &str, case: u8) -> String {
    match case % 3 {
        0 => name.to_string(),
        1 => name.to_uppercase(),
        _ => {
            let mut s = String::new();
            let mut up = true;
            for ch in name.chars() {
                if up {
                    s.extend(ch.to_uppercase());
                } else {
                    s.push(ch);
                }
                up = ch == '_';
            }
            s
        }
    }
}

#[derive(Clone, PartialEq, Eq, Hash, Debug)]
pub enum Act {
    Def(Mac, u8),
    /// macro, argument-set index, name case
    Call(Mac, usize, u8),
    /// a call that omits an argument the body uses
    CallShort(Mac),
    CallUndefined,
    Plain,
}

#[derive(Clone, PartialEq, Eq, Hash, Debug)]
pub struct St {
    defined: BTreeSet<Mac>,
    /// calls so far (capped) — hidden-state relevant: expansions add segments
    calls: u8,
    seg_calls: u8,
    doomed: bool,
}

#[derive(Clone)]
pub struct MacModel {
    pub argsets: BTreeMap<Mac, Vec<Vec<Arg>>>,
}

fn expr_args() -> (Vec<Arg>, Vec<Arg>) {
    // (any, safe) — safe = atomic or fully parenthesised, where textual and value substitution agree
    let k = E::Sym("k_mac".into(), 7);
    let atoms: Vec<E> = vec![num(5), E::Num(0x10, Radix::Hex0xLower), E::Num(65, Radix::Char), k.clone(), num(0)];
    let mut any: Vec<E> = atoms.clone();
    let samples: [(BinOp, i64, i64); 18] = [
        (BinOp::Add, 1, 2), (BinOp::Sub, 7, 2), (BinOp::Mul, 3, 4), (BinOp::Div, 9, 2), (BinOp::Rem, 9, 4), (BinOp::Shl, 1, 3),
        (BinOp::Shr, 64, 2), (BinOp::Lt, 2, 3), (BinOp::Le, 3, 3), (BinOp::Gt, 4, 5), (BinOp::Ge, 5, 5), (BinOp::Eq, 6, 6),
        (BinOp::Ne, 6, 7), (BinOp::And, 6, 3), (BinOp::Xor, 6, 3), (BinOp::Or, 4, 1), (BinOp::LAnd, 1, 0), (BinOp::LOr, 0, 1),
    ];
    for (op, a, b) in samples {
        any.push(bin(op, num(a), num(b)));
    }
    // parenthesised sub-expressions, unary forms, functions
    any.push(bin(BinOp::Mul, num(2), bin(BinOp::Add, num(1), num(2))));
    any.push(bin(BinOp::Sub, num(10), bin(BinOp::Sub, num(2), num(1))));
    any.push(bin(BinOp::Mul, bin(BinOp::Add, num(1), num(2)), num(3)));
    any.push(bin(BinOp::Add, bin(BinOp::Or, num(1), num(2)), num(1)));
    any.push(un(UnOp::Neg, bin(BinOp::Add, num(2), num(3))));
    any.push(bin(BinOp::And, un(UnOp::BNot, bin(BinOp::Or, num(1), num(2))), num(0xff)));
    any.push(un(UnOp::LNot, bin(BinOp::Sub, num(1), num(1))));
    any.push(E::Func("low", Box::new(num(0x1234))));
    any.push(E::Func("high", Box::new(bin(BinOp::Add, num(0x1234), num(1)))));
    any.push(bin(BinOp::Shl, num(1), bin(BinOp::Add, num(1), num(1))));
    any.push(bin(BinOp::Div, num(100), bin(BinOp::Div, num(10), num(5))));
    any.push(bin(BinOp::Sub, k.clone(), bin(BinOp::Sub, k.clone(), num(1))));
    any.push(num(-3));
    let anyv: Vec<Arg> = any.iter().map(|e| Arg::Expr(e.render())).collect();
    let mut safe: Vec<Arg> = atoms.iter().map(|e| Arg::Expr(e.render())).collect();
    for e in [bin(BinOp::Add, num(1), num(2)), bin(BinOp::Or, num(1), num(6)), bin(BinOp::Mul, num(2), bin(BinOp::Add, num(1), num(2)))] {
        safe.push(Arg::Expr(format!("({})", e.render())));
    }
    (anyv, safe)
}

impl MacModel {
    pub fn new(tier: Tier) -> MacModel {
        let (any, safe) = expr_args();
        let mut m: BTreeMap<Mac, Vec<Vec<Arg>>> = BTreeMap::new();
        m.insert(Mac::Dw, any.iter().map(|a| vec![a.clone()]).collect());
        m.insert(Mac::Scale, safe.iter().map(|a| vec![a.clone()]).collect());
        let raw = |s: &str| Arg::Raw(s.to_string());
        let mut regs = vec![];
        for (a, b) in [("r0", "r31"), ("r16", "r1"), ("R7", "r7")] {
            for p in ["X", "X+", "-Y", "Z+", "-z"] {
                regs.push(vec![raw(a), raw(b), raw(p)]);
            }
        }
        m.insert(Mac::Regs, regs);
        m.insert(
            Mac::Ldd,
            vec![
                vec![raw("r4"), raw("Z+1")],
                vec![raw("r31"), raw("Y+63")],
                vec![raw("r0"), raw("Y+1+2")],
                vec![raw("r9"), raw("Z+2*(1+1)")],
                vec![raw("r9"), raw("Z+k_mac")],
                vec![raw("r10"), raw("Y+(1|2)")],
            ],
        );
        let e = |s: &str| Arg::Expr(s.to_string());
        m.insert(
            Mac::Ten,
            vec![
                (1..=10).map(|i| e(&format!("{}", i))).collect(),
                vec![e("1+1"), e("'a'"), e("0x10"), e("k_mac"), e("2*(1+2)"), e("10"), e("low(0x1234)"), e("-1"), e("1<<2"), e("255")],
            ],
        );
        let mut two = vec![];
        for a in safe.iter().take(if tier.thorough() { 8 } else { 5 }) {
            for b in [safe[0].clone(), safe[6].clone()] {
                two.push(vec![a.clone(), b]);
            }
        }
        m.insert(Mac::Outer, two.clone());
        m.insert(Mac::Mid, two.clone());
        m.insert(Mac::Cond, two);
        m.insert(Mac::Dseg, vec![vec![any[3].clone()], vec![any[23].clone()], vec![e("0x1234")]]);
        m.insert(Mac::Eseg, vec![vec![any[0].clone()], vec![any[24].clone()]]);
        // the argument of the .org macros is replaced by an increasing address at render time
        m.insert(Mac::EmitOnce, vec![vec![]]);
        m.insert(Mac::Maybe, vec![vec![e("0")], vec![e("9")], vec![e("(2+3)")]]);
        m.insert(Mac::Probe, vec![vec![]]);
        m.insert(Mac::Setter, vec![vec![]]);
        m.insert(Mac::Optional, vec![vec![e("9"), e("3")], vec![e("2")], vec![e("(2+3)")], vec![e("0"), e("77")]]);
        m.insert(Mac::TailCseg, vec![vec![e("0x21")], vec![e("1+1")]]);
        m.insert(Mac::TailOrg, vec![vec![e("0")]]);
        m.insert(Mac::OnlyOrg, vec![vec![e("0")]]);
        m.insert(Mac::OrgThenSeg, vec![vec![e("0")]]);
        m.insert(Mac::OnlySeg, vec![vec![]]);
        m.insert(Mac::DigitAfter, vec![vec![raw("3"), raw("2")], vec![raw("0"), raw("1")], vec![raw("9"), raw("2")]]);
        m.insert(Mac::FlagArg, vec![vec![raw("FeatureX")], vec![raw("OtherFlag")], vec![raw("featurex")]]);
        m.insert(Mac::SemiLit, vec![vec![e("1"), e("2")], vec![e("0x10"), e("'a'")]]);
        m.insert(Mac::Org, vec![vec![e("0")]]);
        m.insert(Mac::OrgOuter, vec![vec![e("0")]]);
        MacModel { argsets: m }
    }
}

impl RefModel for MacModel {
    type State = St;
    type Action = Act;
    fn init(&self) -> St {
        St { defined: BTreeSet::new(), calls: 0, seg_calls: 0, doomed: false }
    }
    fn actions(&self, s: &St) -> Vec<Act> {
        let mut v = vec![Act::Plain];
        for m in MACS {
            if !s.defined.contains(&m) {
                // redefinition of a macro is not pinned by the statement
                for c in 0..3u8 {
                    v.push(Act::Def(m, c));
                }
            }
            let n = self.argsets[&m].len();
            for i in 0..n {
                v.push(Act::Call(m, i, (i % 3) as u8));
            }
            // every letter case of the call at least on the first argument set
            v.push(Act::Call(m, 0, 1));
            v.push(Act::Call(m, 0, 2));
        }
        v.push(Act::CallShort(Mac::Dw));
        v.push(Act::CallShort(Mac::Ldd));
        v.push(Act::CallShort(Mac::Outer));
        v.push(Act::CallShort(Mac::Optional));
        v.push(Act::CallUndefined);
        v
    }
    fn step(&self, s: &St, a: &Act) -> Option<St> {
        let mut n = s.clone();
        match a {
            Act::Def(m, _) => {
                n.defined.insert(*m);
            }
            Act::Call(m, _, _) => {
                n.calls = (n.calls + 1).min(2);
                if matches!(m, Mac::Dseg | Mac::Eseg | Mac::TailCseg) {
                    n.seg_calls = (n.seg_calls + 1).min(2);
                }
            }
            Act::CallShort(_) | Act::CallUndefined => n.doomed = true,
            Act::Plain => {}
        }
        Some(n)
    }
}

pub struct Rendered {
    pub program: String,
    /// None = the build must fail
    pub expanded: Option<String>,
    pub features: BTreeSet<String>,
}

impl MacModel {
    pub fn render(&self, trace: &[Act]) -> Rendered {
        let prologue = ".equ k_mac = 7\n.define FeatureX\n";
        let mut program = String::from(prologue);
        let mut exp_lines: Vec<String> = vec![];
        let mut ok = true;
        let mut features = BTreeSet::new();
        // macros are program-wide: a call may precede the definition
        let defined: BTreeSet<Mac> = trace.iter().filter_map(|a| if let Act::Def(m, _) = a { Some(*m) } else { None }).collect();
        let mut def_case: BTreeMap<Mac, u8> = BTreeMap::new();
        for (i, a) in trace.iter().enumerate() {
            match a {
                Act::Def(m, c) => {
                    def_case.insert(*m, *c);
                    program.push_str(&format!(".macro {}\n", spell(m.name(), *c)));
                    for l in m.body() {
                        match l {
                            BL::Text(t) => {
                                program.push_str(t);
                                program.push('\n');
                            }
                            BL::Call(inner, templ) => {
                                program.push_str(&format!("{} {}\n", inner.name(), templ.join(", ")));
                            }
                        }
                    }
                    program.push_str(if i % 2 == 0 { ".endmacro\n" } else { ".endm\n" });
                }
                Act::Call(m, ai, c) => {
                    let org_args;
                    let args = if matches!(m, Mac::Org | Mac::OrgOuter | Mac::TailOrg | Mac::OnlyOrg | Mac::OrgThenSeg) {
                        // positions must increase along the program: 0x100 per trace position (0x40 in
                        // the long repetition programs, so that `.dw pc` still fits a word at the end)
                        let step = if trace.len() > 200 { 0x40 } else { 0x100 };
                        org_args = vec![Arg::Expr(format!("{}", step * (i + 1)))];
                        &org_args
                    } else {
                        &self.argsets[m][*ai]
                    };
                    program.push_str(&format!("{} {}\n", spell(m.name(), *c), args.iter().map(|a| a.call_text()).collect::<Vec<_>>().join(", ")));
                    features.insert(format!("{:?}", m));
                    if expand(*m, args, &defined, &mut exp_lines, 0).is_none() {
                        ok = false;
                        features.insert("undefined".into());
                    }
                }
                Act::CallShort(m) => {
                    let args = &self.argsets[m][0][..m.nparams() - 1];
                    program.push_str(&format!("{} {}\n", m.name(), args.iter().map(|a| a.call_text()).collect::<Vec<_>>().join(", ")));
                    features.insert("missing-argument".into());
                    ok = false;
                }
                Act::CallUndefined => {
                    program.push_str("m_never_defined 1, 2\n");
                    features.insert("undefined".into());
                    ok = false;
                }
                Act::Plain => {
                    let l = format!("ldi r22, {}", (i + 1) % 251);
                    program.push_str(&l);
                    program.push('\n');
                    exp_lines.push(l);
                }
            }
        }
        // more code after the last call
        program.push_str("ldi r23, 0x5a\n.dw pc\n");
        exp_lines.push("ldi r23, 0x5a".into());
        exp_lines.push(".dw pc".into());
        // feature: the call's letter case differs from the definition's
        for a in trace {
            if let Act::Call(m, _, c) = a {
                if let Some(dc) = def_case.get(m) {
                    if dc % 3 != c % 3 || dc % 3 != 0 {
                        features.insert("name-case".into());
                    }
                }
            }
        }
        let expanded = if ok { Some(format!("{}{}\n", prologue, exp_lines.join("\n"))) } else { None };
        Rendered { program, expanded, features }
    }
}

pub fn run(tier: Tier) -> i32 {
    let rep = Report::new("C09", tier, "model_checking");
    let (n1, k) = if tier.thorough() { (3usize, 2usize) } else { (2usize, 2usize) };
    let m = MacModel::new(tier);
    let ex = mc::explore(&m, n1);
    let n_ok = AtomicU64::new(0);
    let n_err = AtomicU64::new(0);
    let outcomes: Mutex<BTreeSet<u64>> = Mutex::new(BTreeSet::new());
    let mac_use: Mutex<BTreeMap<String, u64>> = Mutex::new(BTreeMap::new());
    let samples: Mutex<Vec<serde_json::Value>> = Mutex::new(vec![]);
    let alphabet = m.actions(&m.init()).len();
    // quick tier: the second extension step runs over one representative action per macro and kind
    // (definition in the first letter case, call with the first argument set, the failing calls,
    // a plain line); the thorough tier over the whole alphabet
    let thorough = tier.thorough();
    let keep = move |d: usize, a: &Act| -> bool { thorough || d == 0 || matches!(a, Act::Def(_, 0) | Act::Call(_, 0, 0) | Act::CallShort(_) | Act::CallUndefined | Act::Plain) };
    let traces = mc::conform_filtered(&m, &ex, k, &keep, |trace| {
        let r = m.render(trace);
        let o1 = sut::build_str(&r.program);
        for f in r.features.iter() {
            *mac_use.lock().unwrap().entry(f.clone()).or_insert(0) += 1;
        }
        let mut bad: Option<(&str, String)> = None;
        match (&r.expanded, &o1) {
            (None, Outcome::Ok(b)) => {
                n_ok.fetch_add(1, Ordering::Relaxed);
                bad = Some(("accepted", format!("calling an undefined macro / omitting a used argument must fail but builds to {}", sut::hex_trunc(&b.code, 40))));
            }
            (None, Outcome::Err(_)) => {
                n_err.fetch_add(1, Ordering::Relaxed);
            }
            (Some(expd), o1) => {
                let o2 = sut::build_str(expd);
                match (o1, &o2) {
                    (Outcome::Ok(b1), Outcome::Ok(b2)) => {
                        n_ok.fetch_add(1, Ordering::Relaxed);
                        {
                            use std::hash::{Hash, Hasher};
                            let mut h = std::collections::hash_map::DefaultHasher::new();
                            b1.code.hash(&mut h);
                            b1.eeprom.hash(&mut h);
                            outcomes.lock().unwrap().insert(h.finish());
                        }
                        if b1.code != b2.code {
                            bad = Some(("differs-from-expansion", format!("flash image {} but the hand-expanded program gives {}", sut::hex_trunc(&b1.code, 48), sut::hex_trunc(&b2.code, 48))));
                        } else if b1.eeprom != b2.eeprom {
                            bad = Some(("differs-from-expansion", format!("EEPROM image {} but the hand-expanded program gives {}", sut::hex_trunc(&b1.eeprom, 48), sut::hex_trunc(&b2.eeprom, 48))));
                        } else if b1.ram_filling != b2.ram_filling {
                            bad = Some(("differs-from-expansion", format!("ram_filling {} vs {} for the hand-expanded program", b1.ram_filling, b2.ram_filling)));
                        }
                    }
                    (Outcome::Err(e), Outcome::Ok(_)) => {
                        n_err.fetch_add(1, Ordering::Relaxed);
                        bad = Some(("rejected", format!("the hand-expanded program builds but the macro program fails: {}", e)));
                    }
                    (Outcome::Ok(_), Outcome::Err(e)) => {
                        // the expansion itself is invalid: a model/harness problem or an unrelated defect
                        bad = Some(("expansion-invalid", format!("the macro program builds but its hand-expansion fails: {}", e)));
                    }
                    (Outcome::Err(_), Outcome::Err(_)) => {
                        bad = Some(("expansion-invalid", "both the macro program and its hand-expansion fail although every line is valid".to_string()));
                    }
                    (Outcome::Panic { site, msg }, _) | (_, Outcome::Panic { site, msg }) => bad = Some(("panic", format!("panic at {}: {}", site, msg))),
                }
            }
            (None, Outcome::Panic { site, msg }) => bad = Some(("panic", format!("panic at {}: {}", site, msg))),
        }
        if let Some((kind, what)) = bad {
            let key = format!("C09/{}/features={}", kind, r.features.iter().cloned().collect::<Vec<_>>().join("+"));
            rep.violation(&key, || format!("trace {:?}: {}", trace, what), || {
                json!({"kind": "build_str", "source": r.program, "trace": format!("{:?}", trace), "hand_expanded_program": r.expanded, "observed": o1.to_json()})
            });
        } else if trace.len() >= 3 && r.expanded.is_some() {
            let mut s = samples.lock().unwrap();
            if s.len() < 2 {
                s.push(json!({"trace": format!("{:?}", trace), "source": r.program, "hand_expanded_program": r.expanded}));
            }
        }
    });
    // repetition: every family called 100 (thorough 300) times in one program, argument sets
    // cycling, with a plain instruction and a call of another family at the end — state that
    // leaks from one expansion into the next (a cache, a counter that is not reset) shows here
    let reps = if tier.thorough() { 300 } else { 100 };
    let rep_work: Vec<(Mac, usize)> = MACS.iter().flat_map(|mac| (0..3usize).map(move |ph| (*mac, ph))).collect();
    let n_rep = rep_work.len();
    rep_work.par_iter().for_each(|(mac, phase)| {
        let (mac, phase) = (*mac, *phase);
        {
            let mut trace: Vec<Act> = MACS.iter().map(|m| Act::Def(*m, 0)).collect();
            let nsets = m.argsets[&mac].len();
            for i in 0..reps {
                // phase 0: cycle through all argument sets; 1: always the first set (identical
                // calls); 2: always the last one
                let ai = match phase {
                    0 => i % nsets,
                    1 => 0,
                    _ => nsets - 1,
                };
                trace.push(Act::Call(mac, ai, 0));
            }
            trace.push(Act::Plain);
            trace.push(Act::Call(Mac::Dw, 2, 0));
            let r = m.render(&trace);
            if let Some(expd) = &r.expanded {
                let o1 = sut::build_str(&r.program);
                let o2 = sut::build_str(expd);
                let same = match (&o1, &o2) {
                    (Outcome::Ok(a), Outcome::Ok(b)) => a.code == b.code && a.eeprom == b.eeprom && a.ram_filling == b.ram_filling,
                    _ => false,
                };
                if !same {
                    rep.violation(
                        &format!("C09/repetition/family={:?}/arguments={}", mac, ["cycling", "identical-first", "identical-last"][phase]),
                        || format!("{} calls of {} then a plain instruction and m_dw: the macro program gives {} but its hand expansion gives {}", reps, mac.name(), o1.to_json(), o2.to_json()),
                        || json!({"kind": "build_str", "source": r.program, "hand_expanded_program": expd, "observed": o1.to_json()}),
                    );
                }
            }
        }
    });
    // argument groupings: every ordered pair of binary operators in both groupings, every pair
    // and triple of unary operators, as the argument of a macro whose body is `.dq @0` (alone, as
    // a factor, behind a unary operator): pasting the argument must not regroup or simplify it.
    // Arguments whose value the expression model does not define (division by zero, overflow)
    // are left out; the oracle is the hand expansion, line by line.
    let n_groupings;
    {
        use crate::exprm::{eval, Val, BINOPS, UNOPS};
        let mut args: Vec<String> = vec![];
        let vals = [(7i64, 9i64, 2i64), (100, 6, 4), (3, 1, 5)];
        for op1 in BINOPS {
            for op2 in BINOPS {
                for (a, b, c) in vals {
                    for e in [bin(op1, num(a), bin(op2, num(b), num(c))), bin(op2, bin(op1, num(a), num(b)), num(c))] {
                        if matches!(eval(&e), Val::Value(_)) {
                            args.push(e.render());
                        }
                    }
                }
            }
        }
        for u1 in UNOPS {
            for u2 in UNOPS {
                for inner in [bin(BinOp::And, num(6), num(2)), num(5), num(0), bin(BinOp::Sub, num(2), num(9))] {
                    let e = un(u1, un(u2, inner.clone()));
                    if matches!(eval(&e), Val::Value(_)) {
                        args.push(e.render());
                    }
                    for u3 in UNOPS {
                        let e = un(u3, un(u1, un(u2, inner.clone())));
                        if matches!(eval(&e), Val::Value(_)) {
                            args.push(e.render());
                        }
                    }
                }
            }
        }
        // values at the ends of the range: an argument is pasted as it was written, whatever it
        // would evaluate to (a rendering that computes and re-reads it has no literal for -2^63)
        for a in ["1<<63", "0-0x7FFFFFFFFFFFFFFF-1", "-9223372036854775807-1", "0x7FFFFFFFFFFFFFFF", "(1<<63)|1", "~0", "1<<62", "(1<<62)+(1<<62)-1", "0-1", "-(-(5))", "1<<63>>63", "(1<<63)/-2", "0x8000000000000000>>1", "~(1<<63)", "-1<<63", "(1<<63)+0", "3*(1<<61)", "'a'-'b'"] {
            if let Some(e) = crate::exprm::parse(a) {
                if matches!(eval(&e), Val::Value(_)) {
                    args.push(a.to_string());
                }
            }
        }
        args.sort();
        args.dedup();
        n_groupings = args.len();
        let bodies = [".dq @0", ".dq 3 * @0", ".dq -@0", ".dq @0 - 1", ".dq 64 / (@0 | 1)"];
        // (where the body builds a larger expression around the parameter the argument is written
        // in parentheses, in the call and in the hand expansion alike: textual and value
        // substitution agree there, and the statement does not choose between them elsewhere)
        let written = |arg: &str, body: &str| -> String { if body == ".dq @0" { arg.to_string() } else { format!("({})", arg) } };
        let one = |arg: &str, body: &str| -> (String, String) {
            let arg = written(arg, body);
            (format!(".macro g_q\n{}\n.endm\ng_q {}\n", body, arg), format!("{}\n", body.replace("@0", &arg)))
        };
        // all arguments in one pair of programs per body first; localised per argument on a difference
        bodies.par_iter().for_each(|body| {
            let mut p1 = format!(".macro g_q\n{}\n.endm\n", body);
            let mut p2 = String::new();
            for a in &args {
                let a = written(a, body);
                p1.push_str(&format!("g_q {}\n", a));
                p2.push_str(&format!("{}\n", body.replace("@0", &a)));
            }
            let (o1, o2) = (sut::build_str(&p1), sut::build_str(&p2));
            let same = matches!((&o1, &o2), (Outcome::Ok(x), Outcome::Ok(y)) if x.code == y.code);
            if same {
                return;
            }
            for a in &args {
                let (m, h) = one(a, body);
                let (o1, o2) = (sut::build_str(&m), sut::build_str(&h));
                let bad = match (&o1, &o2) {
                    (Outcome::Ok(x), Outcome::Ok(y)) => x.code != y.code,
                    // the value may be outside what the body can take (64 / (@0|1) never is; -@0 of i64::MIN): both must agree
                    (Outcome::Err(_), Outcome::Err(_)) => false,
                    _ => true,
                };
                if bad {
                    let shape: String = a.chars().filter(|c| !c.is_ascii_digit() && *c != ' ').collect();
                    rep.violation(&format!("C09/argument-regrouped/body={}/shape={}", body.replace(' ', ""), shape), || format!("`g_q {}` with the body `{}` gives {} but the hand expansion `{}` gives {}", a, body, o1.brief(), body.replace("@0", a), o2.brief()), || json!({"kind": "build_str", "source": m, "hand_expanded_program": h, "observed": o1.to_json()}));
                }
            }
        });
    }
    rep.guard(n_groupings > 600, "fewer than 600 argument groupings");

    // calls that stand in the data segment or in the EEPROM segment (at top level and inside a
    // body that switched there), and bodies that call themselves or each other behind a guard
    // that the first expansion sets: each program against its hand expansion
    let mut n_hand_pairs = 0usize;
    {
        let mut pairs: Vec<(&str, String, String)> = vec![];
        for (a, b) in [(4, 2), (1, 1), (3, 7)] {
            pairs.push(("call-in-dseg", format!(".macro res_q\n.byte @0\n.endm\nnop\n.dseg\nv1_q:\nres_q {a}\nv2_q:\nres_q {b}\nv3_q:\n.cseg\nldi r16, low(v2_q)\nldi r17, low(v3_q)\n"), format!("nop\n.dseg\nv1_q:\n.byte {a}\nv2_q:\n.byte {b}\nv3_q:\n.cseg\nldi r16, low(v2_q)\nldi r17, low(v3_q)\n")));
            pairs.push(("call-in-eseg", format!(".macro ee_q\n.db @0, @0 + 1\n.endm\nnop\n.eseg\ne1_q:\nee_q {a}\ne2_q:\nee_q {b}\n.cseg\nldi r16, e2_q\n"), format!("nop\n.eseg\ne1_q:\n.db {a}, {a} + 1\ne2_q:\n.db {b}, {b} + 1\n.cseg\nldi r16, e2_q\n")));
            pairs.push(("call-in-eseg-with-code-in-the-body", format!(".macro mix_q\n.db @0\n.cseg\nldi r18, @0\n.eseg\n.db @0 + 1\n.endm\n.eseg\nmix_q {a}\nmix_q {b}\n.cseg\nnop\n"), format!(".eseg\n.db {a}\n.cseg\nldi r18, {a}\n.eseg\n.db {a} + 1\n.db {b}\n.cseg\nldi r18, {b}\n.eseg\n.db {b} + 1\n.cseg\nnop\n")));
            pairs.push(("nested-call-in-the-dseg-of-a-body", format!(".macro res_q\n.byte @0\n.endm\n.macro vars_q\n.dseg\nw1_q:\nres_q {a}\nw2_q:\nres_q @0\nw3_q:\n.cseg\n.endm\nnop\nvars_q {b}\nldi r16, low(w2_q)\nldi r17, low(w3_q)\n"), format!("nop\n.dseg\nw1_q:\n.byte {a}\nw2_q:\n.byte {b}\nw3_q:\n.cseg\nldi r16, low(w2_q)\nldi r17, low(w3_q)\n")));
            pairs.push(("nested-call-in-the-eseg-of-a-body", format!(".macro ee_q\n.db @0, @0 + 1\n.endm\n.macro consts_q\n.eseg\nee_q {a}\nee_q @0\n.cseg\n.endm\nnop\nconsts_q {b}\nnop\n"), format!("nop\n.eseg\n.db {a}, {a} + 1\n.db {b}, {b} + 1\n.cseg\nnop\n")));
            pairs.push(("nested-call-in-the-second-dseg-of-a-body", format!(".macro res_q\n.byte @0\n.endm\n.macro both_q\nldi r20, @0\n.dseg\nres_q @0\n.cseg\nldi r21, @0\n.dseg\nres_q {a}\n.cseg\n.endm\nboth_q {b}\nboth_q {a}\n"), format!("ldi r20, {b}\n.dseg\n.byte {b}\n.cseg\nldi r21, {b}\n.dseg\n.byte {a}\n.cseg\nldi r20, {a}\n.dseg\n.byte {a}\n.cseg\nldi r21, {a}\n.dseg\n.byte {a}\n.cseg\n")));
        }
        for arg in ["", " 5", " r16, 1+2"] {
            pairs.push(("mutual-recursion-behind-guards", format!(".macro need_a\n.ifndef a_done_q\n.define a_done_q\nneed_b{arg}\nldi r16, 0xA1\n.endif\n.endm\n.macro need_b\n.ifndef b_done_q\n.define b_done_q\nneed_a{arg}\nldi r17, 0xB2\n.endif\n.endm\nneed_a{arg}\nneed_b{arg}\nret\n"), ".define a_done_q\n.define b_done_q\nldi r17, 0xB2\nldi r16, 0xA1\nret\n".to_string()));
            pairs.push(("self-recursion-behind-a-guard", format!(".macro once_q\n.ifndef once_done_q\n.define once_done_q\nnop\nonce_q{arg}\ninc r1\n.endif\n.endm\nonce_q{arg}\nonce_q{arg}\nret\n"), ".define once_done_q\nnop\ninc r1\nret\n".to_string()));
        }
        for n in [1usize, 3, 12] {
            pairs.push(("count-down-recursion", format!(".macro cd_q\n.if @0 > 0\nldi r16, @0\ncd_q @0 - 1\n.endif\n.endm\ncd_q {n}\nret\n"), format!("{}ret\n", (0..n).map(|i| format!("ldi r16, {}\n", n - i)).collect::<String>())));
        }
        // arguments at the edges of "arbitrary expressions": a flat sum of 250 terms (inside the
        // per-line limits when written by hand), and a parenthesised name that is spelled like an
        // index register
        {
            let flat = vec!["1"; 250].join("+");
            pairs.push(("flat-argument-of-250-terms", format!(".macro big_q\nldi r16, @0\n.endm\nbig_q {}\n", flat), format!("ldi r16, {}\n", flat)));
            let flat100 = vec!["2"; 100].join("+");
            pairs.push(("flat-argument-of-100-terms", format!(".macro big_q\nldi r16, @0\n.endm\nbig_q {}\n", flat100), format!("ldi r16, {}\n", flat100)));
            for nm in ["x", "y", "z"] {
                pairs.push(("parenthesised-name-spelled-like-an-index-register-as-argument", format!(".equ {nm} = 5\n.macro ld_q\nldi r16, @0\n.endm\nld_q ({nm})\n"), format!(".equ {nm} = 5\nldi r16, ({nm})\n")));
            }
        }
        n_hand_pairs = pairs.len();
        for (fam, mac, hand) in pairs.iter() {
            let (o1, o2) = (sut::build_str(mac), sut::build_str(hand));
            let bad: Option<String> = match (&o1, &o2) {
                (Outcome::Ok(x), Outcome::Ok(y)) if x.code == y.code && x.eeprom == y.eeprom && x.ram_filling == y.ram_filling => None,
                (Outcome::Ok(x), Outcome::Ok(y)) => Some(format!("code {} / eeprom {} / ram_filling {} but the hand expansion gives {} / {} / {}", sut::hex_trunc(&x.code, 32), sut::hex_trunc(&x.eeprom, 16), x.ram_filling, sut::hex_trunc(&y.code, 32), sut::hex_trunc(&y.eeprom, 16), y.ram_filling)),
                (_, Outcome::Ok(_)) => Some(format!("{} but the hand expansion builds", o1.brief())),
                (_, other) => crate::report::machinery_fail(&format!("C09: the hand expansion of family {} does not build: {}", fam, other.brief())),
            };
            if let Some(what) = bad {
                rep.violation(&format!("C09/differs-from-expansion/family={}", fam), || format!("family {}: {}", fam, what), || json!({"kind": "build_str", "source": mac, "hand_expanded_program": hand, "observed": o1.to_json(), "expected": o2.to_json()}));
            }
        }
    }
    // a device filled to the last word by macro calls: a call places what its body places and
    // nothing more (a budget that charges the call itself, or the lines of the body, refuses a
    // program whose hand expansion fits exactly)
    let mut n_full = 0usize;
    for (dev, words) in [("ATtiny13", 512usize), ("ATtiny2313", 1024)] {
        for body_n in [1usize, 2, 3, 4] {
            for nested in [false, true] {
                for slack in [0usize, 1] {
                    let per_call = if nested { 2 * body_n } else { body_n };
                    let calls = (words - slack) / per_call;
                    let rest = words - slack - calls * per_call;
                    let body: Vec<String> = (0..body_n).map(|i| format!("ldi r{}, {}", 16 + i, i + 1)).collect();
                    // comment and blank lines in the body place nothing
                    let mut m = format!(".device {}\n.macro fill_q\n; a comment line\n\n{}\n// another\n.endm\n", dev, body.join("\n"));
                    if nested {
                        m.push_str(".macro fill2_q\nfill_q\nfill_q\n.endm\n");
                    }
                    let mut h = format!(".device {}\n", dev);
                    for _ in 0..calls {
                        m.push_str(if nested { "fill2_q\n" } else { "fill_q\n" });
                        for _ in 0..(if nested { 2 } else { 1 }) {
                            h.push_str(&body.join("\n"));
                            h.push('\n');
                        }
                    }
                    for _ in 0..rest {
                        m.push_str("nop\n");
                        h.push_str("nop\n");
                    }
                    let (o1, o2) = (sut::build_str(&m), sut::build_str(&h));
                    n_full += 1;
                    let same = matches!((&o1, &o2), (Outcome::Ok(a), Outcome::Ok(b)) if a.code == b.code && a.code.len() == (words - slack) * 2);
                    if !same {
                        rep.violation(&format!("C09/device-filled-by-calls/device={}/nested={}", dev, nested), || format!("{} calls of a {}-instruction macro{} and {} nop fill {} of {} words: the macro program gives {} but the hand expansion gives {}", calls, body_n, if nested { " through an outer macro that calls it twice" } else { "" }, rest, words - slack, words, o1.brief(), o2.brief()), || json!({"kind": "build_str", "source": m, "hand_expanded_program": h, "observed": o1.to_json()}));
                    }
                }
            }
        }
    }
    // alternation: calls of two families take turns, each with the same arguments every time -
    // what one macro's expansion changes (a flag, a constant, the position) must be seen by the
    // next expansion of the other one
    let mut n_alt = 0usize;
    {
        let mut alt: Vec<(Mac, Mac, usize)> = vec![];
        for a in MACS {
            for b in MACS {
                if a != b {
                    for set in 0..2usize {
                        alt.push((a, b, set));
                    }
                }
            }
        }
        n_alt = alt.len();
        alt.par_iter().for_each(|(a, b, set)| {
            let mut trace: Vec<Act> = MACS.iter().map(|m| Act::Def(*m, 0)).collect();
            let ia = set % m.argsets[a].len();
            let ib = set % m.argsets[b].len();
            for _ in 0..3 {
                trace.push(Act::Call(*a, ia, 0));
                trace.push(Act::Call(*b, ib, 0));
            }
            trace.push(Act::Plain);
            let r = m.render(&trace);
            if let Some(expd) = &r.expanded {
                let o1 = sut::build_str(&r.program);
                let o2 = sut::build_str(expd);
                let same = match (&o1, &o2) {
                    (Outcome::Ok(x), Outcome::Ok(y)) => x.code == y.code && x.eeprom == y.eeprom && x.ram_filling == y.ram_filling,
                    _ => false,
                };
                if !same {
                    rep.violation(
                        &format!("C09/alternation/families={:?}+{:?}", a, b),
                        || format!("{} and {} called in turn three times: the macro program gives {} but its hand expansion gives {}", a.name(), b.name(), o1.to_json(), o2.to_json()),
                        || json!({"kind": "build_str", "source": r.program, "hand_expanded_program": expd, "observed": o1.to_json()}),
                    );
                }
            }
        });
    }
    // longer call sequences over the families that carry state from one expansion to the next
    // (flags, position, segment): every sequence of up to 4 (6) calls, all macros defined
    let mut n_long = 0usize;
    {
        let fams = [Mac::Probe, Mac::Setter, Mac::EmitOnce, Mac::TailCseg, Mac::Org, Mac::Dseg, Mac::Maybe, Mac::Dw];
        let maxlen = if tier.thorough() { 6 } else { 4 };
        let mut seqs: Vec<Vec<usize>> = vec![];
        let mut frontier: Vec<Vec<usize>> = vec![vec![]];
        for _ in 0..maxlen {
            let mut next = Vec::with_capacity(frontier.len() * fams.len());
            for f in &frontier {
                for a in 0..fams.len() {
                    let mut t = f.clone();
                    t.push(a);
                    next.push(t);
                }
            }
            seqs.extend(next.iter().filter(|t| t.len() >= 3).cloned());
            frontier = next;
        }
        n_long = seqs.len();
        seqs.par_iter().for_each(|sq| {
            let mut trace: Vec<Act> = fams.iter().map(|m| Act::Def(*m, 0)).collect();
            for (i, a) in sq.iter().enumerate() {
                let mac = fams[*a];
                // Maybe: one call that places something, others that place nothing
                let ai = if mac == Mac::Maybe { i % 2 } else { 0 };
                trace.push(Act::Call(mac, ai, 0));
            }
            trace.push(Act::Plain);
            let r = m.render(&trace);
            if let Some(expd) = &r.expanded {
                let o1 = sut::build_str(&r.program);
                let o2 = sut::build_str(expd);
                let same = match (&o1, &o2) {
                    (Outcome::Ok(x), Outcome::Ok(y)) => x.code == y.code && x.eeprom == y.eeprom && x.ram_filling == y.ram_filling,
                    _ => false,
                };
                if !same {
                    let names: Vec<&str> = sq.iter().map(|a| fams[*a].name()).collect();
                    rep.violation(
                        &format!("C09/call-sequence/first={}/length={}", names[0], names.len()),
                        || format!("calls {:?}: the macro program gives {} but its hand expansion gives {}", names, o1.brief(), o2.brief()),
                        || json!({"kind": "build_str", "source": r.program, "hand_expanded_program": expd, "observed": o1.to_json()}),
                    );
                }
            }
        });
    }
    let distinct = outcomes.lock().unwrap().len();
    rep.guard(n_ok.load(Ordering::Relaxed) > 1000 && n_err.load(Ordering::Relaxed) > 1000, "need both Ok and Err outcomes");
    rep.guard(distinct > 300, "fewer than 300 distinct observed images");
    rep.guard(mac_use.lock().unwrap().len() >= 26, "not every macro family / feature was exercised");
    for s in samples.into_inner().unwrap() {
        rep.sample(|| s);
    }
    rep.assume("where @n is part of a larger expression (m_scale, m_cond, (@1)+1) only atomic or fully parenthesised arguments are used, so textual and value substitution agree and the oracle takes no side");
    rep.assume("macro redefinition and surplus call arguments are not pinned by the statement and are not generated");
    let coverage = cov(json!({
        "states": ex.states,
        "transitions": ex.transitions,
        "traces_validated_against_impl": traces,
        "state_cover_size": ex.states,
        "bound": {"N1_model_depth": n1, "k_extension": k, "alphabet_at_initial_state": alphabet, "second_extension_step": if thorough { "whole alphabet" } else { "one representative action per macro and kind" }},
        "exhaustive": true,
        "caps_hit": [],
        "distinct_observed_outcomes": distinct,
        "ok_outcomes": n_ok.load(Ordering::Relaxed),
        "err_outcomes": n_err.load(Ordering::Relaxed),
        "feature_use": *mac_use.lock().unwrap(),
        "repetition_programs": n_rep,
        "argument_groupings": n_groupings,
        "programs_against_their_hand_expansion_calls_in_data_segments_and_guarded_recursion": n_hand_pairs,
        "device_filled_by_calls_programs": n_full,
        "alternation_programs": n_alt,
        "long_call_sequences": n_long,
        "calls_per_repetition_program": reps,
        "trusted_base": ["semantic macro expander of the harness (value substitution of expression arguments)", "exprm::render for argument texts", "stateright 0.31 BFS"],
    }));
    rep.finish(coverage)
}
