//! C10 — symbols resolve by the documented binding rules or the build fails (E2 + E3).
//!
//! Reference model `symtab` (DESIGN.md appendix C): four disjoint name pools, all comparisons on
//! lower-cased names; labels and .equ are program-wide, .set is the latest preceding assignment,
//! .def is visible from its definition to the next .undef.

use std::collections::{BTreeMap, BTreeSet};
use std::sync::atomic::{AtomicU64, Ordering};
use std::sync::Mutex;

use serde_json::json;

use crate::isa::{self, Core, Opnd};
use crate::mc::{self, RefModel};
use crate::report::{cov, Report, Tier};
use crate::sut::{self, Outcome};

#[derive(Clone, Copy, PartialEq, Eq, Hash, Debug, PartialOrd, Ord)]
pub enum Name {
    LabA,
    LabB,
    EquA,
    SetA,
    DefA,
    DefB,
}

impl Name {
    fn base(self) -> &'static str {
        match self {
            Name::LabA => "lab_a",
            Name::LabB => "lab_b",
            Name::EquA => "equ_a",
            Name::SetA => "set_a",
            Name::DefA => "def_a",
            Name::DefB => "def_b",
        }
    }
    fn kind(self) -> &'static str {
        match self {
            Name::LabA | Name::LabB => "label",
            Name::EquA => "equ",
            Name::SetA => "set",
            Name::DefA | Name::DefB => "def",
        }
    }
    fn reg(self) -> i64 {
        if self == Name::DefA {
            17
        } else {
            20
        }
    }
}

fn spell(n: Name, case: u8) -> String {
    let b = n.base();
    match case % 3 {
        0 => b.to_string(),
        1 => b.to_uppercase(),
        _ => {
            // Mixed: capitalise the first letter and the one after the underscore
            let mut s = String::new();
            let mut up = true;
            for ch in b.chars() {
                if up {
                    s.extend(ch.to_uppercase());
                } else {
                    s.push(ch);
                }
                up = ch == '_';
            }
            s
        }
    }
}

const EQU_VALUE: i64 = 77;

#[derive(Clone, Copy, PartialEq, Eq, Hash, Debug, PartialOrd, Ord)]
pub enum Act {
    Label(Name, u8),
    Equ(u8),
    Set(i64, u8),
    SetInc(u8),
    Def(Name, u8),
    Undef(Name, u8),
    UseI(Name, u8),
    UseD(Name, u8),
    /// `.set` executed while another segment is selected or inside the body of an invoked macro
    /// (0 = .dseg, 1 = .eseg, 2 = macro body): symbols know no segments, the effect is that of Set
    SetIn(u8, i64),
    /// `.def` / `.undef` while .dseg is selected (0) or inside an invoked macro body (1)
    DefIn(u8, Name),
    UndefIn(u8, Name),
    /// use from EEPROM data: `.eseg / .db name / .cseg`
    UseE(Name),
    /// a new code segment starts here (`.cseg` again, or `.org` to the current position):
    /// symbols are program-wide, so nothing changes for the model
    NewSegment(u8),
}

#[derive(Clone, PartialEq, Eq, Hash, Debug)]
pub struct St {
    labels: BTreeSet<Name>,
    dup_label: bool,
    equ: bool,
    set: Option<i64>,
    defs: BTreeSet<Name>,
    /// labels / equ referenced but not (yet) defined
    pending: BTreeSet<Name>,
    /// a reference that can never resolve (set before assignment, alias outside its scope)
    dead: bool,
    words: u8,
    /// the current segment is still empty (hidden-state relevant only)
    fresh_segment: bool,
}

#[derive(Clone)]
pub struct SymModel;

impl RefModel for SymModel {
    type State = St;
    type Action = Act;
    fn init(&self) -> St {
        St { labels: BTreeSet::new(), dup_label: false, equ: false, set: None, defs: BTreeSet::new(), pending: BTreeSet::new(), dead: false, words: 0, fresh_segment: true }
    }
    fn actions(&self, s: &St) -> Vec<Act> {
        let mut v = vec![];
        if !s.fresh_segment {
            v.push(Act::NewSegment(0));
            v.push(Act::NewSegment(1));
        }
        for ctx in 0..3u8 {
            v.push(Act::SetIn(ctx, 6));
            v.push(Act::SetIn(ctx, 2));
        }
        for ctx in 0..2u8 {
            for d in [Name::DefA, Name::DefB] {
                if s.defs.contains(&d) {
                    v.push(Act::UndefIn(ctx, d));
                } else {
                    v.push(Act::DefIn(ctx, d));
                }
            }
        }
        for n in [Name::LabA, Name::EquA, Name::SetA] {
            v.push(Act::UseE(n));
        }
        for c in 0..3u8 {
            v.push(Act::Label(Name::LabA, c));
            v.push(Act::Label(Name::LabB, c));
            if !s.equ {
                v.push(Act::Equ(c)); // redefinition of .equ is not pinned => never generated
            }
            v.push(Act::Set(5, c));
            v.push(Act::Set(9, c));
            v.push(Act::SetInc(c));
            for d in [Name::DefA, Name::DefB] {
                if s.defs.contains(&d) {
                    v.push(Act::Undef(d, c)); // .undef of an unbound name is not pinned
                } else {
                    v.push(Act::Def(d, c)); // .def of a bound alias is not pinned
                }
            }
            for n in [Name::LabA, Name::LabB, Name::EquA, Name::SetA, Name::DefA, Name::DefB] {
                v.push(Act::UseI(n, c));
            }
            for n in [Name::LabA, Name::LabB, Name::EquA, Name::SetA] {
                v.push(Act::UseD(n, c));
            }
        }
        v
    }
    fn step(&self, s: &St, a: &Act) -> Option<St> {
        let mut n = s.clone();
        let use_of = |n: &mut St, name: Name| match name.kind() {
            "label" => {
                if !n.labels.contains(&name) {
                    n.pending.insert(name);
                }
            }
            "equ" => {
                if !n.equ {
                    n.pending.insert(name);
                }
            }
            "set" => {
                if n.set.is_none() {
                    n.dead = true;
                }
            }
            _ => {
                if !n.defs.contains(&name) {
                    n.dead = true;
                }
            }
        };
        // the wrappers of SetIn/DefIn/UndefIn/UseE end with `.cseg`: a new, empty code segment
        n.fresh_segment = matches!(a, Act::NewSegment(_) | Act::SetIn(0, _) | Act::SetIn(1, _) | Act::DefIn(0, _) | Act::UndefIn(0, _) | Act::UseE(_));
        match a {
            Act::NewSegment(_) => {}
            Act::Label(l, _) => {
                if !n.labels.insert(*l) {
                    n.dup_label = true;
                }
                n.pending.remove(l);
                n.words += 1;
            }
            Act::Equ(_) => {
                n.equ = true;
                n.pending.remove(&Name::EquA);
            }
            Act::Set(v, _) | Act::SetIn(_, v) => n.set = Some(*v),
            Act::DefIn(_, d) => {
                n.defs.insert(*d);
            }
            Act::UndefIn(_, d) => {
                n.defs.remove(d);
            }
            Act::UseE(name) => use_of(&mut n, *name),
            Act::SetInc(_) => match n.set {
                Some(v) => n.set = Some(v + 1),
                None => n.dead = true,
            },
            Act::Def(d, _) => {
                n.defs.insert(*d);
            }
            Act::Undef(d, _) => {
                n.defs.remove(d);
            }
            Act::UseI(name, _) | Act::UseD(name, _) => {
                use_of(&mut n, *name);
                n.words += 1;
            }
        }
        Some(n)
    }
    fn invariant(&self, s: &St) -> bool {
        s.pending.iter().all(|p| match p.kind() {
            "label" => !s.labels.contains(p),
            "equ" => !s.equ,
            _ => false,
        })
    }
}

#[derive(Debug, Clone, PartialEq, Eq)]
pub enum Expected {
    /// (flash image, EEPROM image)
    Ok(Vec<u8>, Vec<u8>),
    Err(&'static str),
    /// the trace contains a construct the statement does not pin
    Unpinned,
}

/// The model's prediction for an arbitrary action sequence (also used for the E3 mutations).
pub fn expect(trace: &[Act]) -> Expected {
    // pass A: program-wide definitions
    let mut label_at: BTreeMap<Name, i64> = BTreeMap::new();
    let mut words = 0i64;
    let mut dup = false;
    let mut equ = 0;
    for a in trace {
        match a {
            Act::Label(l, _) => {
                if label_at.insert(*l, words).is_some() {
                    dup = true;
                }
                words += 1;
            }
            Act::Equ(_) => equ += 1,
            Act::UseI(..) | Act::UseD(..) => words += 1,
            _ => {}
        }
    }
    // a segment directive with nothing after it in the trace is harmless
    if equ > 1 {
        return Expected::Unpinned;
    }
    // pass B: program order
    let mut set: Option<i64> = None;
    let mut defs: BTreeSet<Name> = BTreeSet::new();
    let mut code: Vec<u8> = vec![];
    let mut eeprom: Vec<u8> = vec![];
    let mut err: Option<&'static str> = if dup { Some("duplicate label") } else { None };
    for a in trace {
        let value = |n: Name, set: &Option<i64>| -> Result<i64, &'static str> {
            match n.kind() {
                "label" => label_at.get(&n).copied().ok_or("undefined label"),
                "equ" => {
                    if equ == 1 {
                        Ok(EQU_VALUE)
                    } else {
                        Err("undefined .equ")
                    }
                }
                "set" => set.ok_or(".set variable used before its first assignment"),
                _ => Err("alias is not an expression"),
            }
        };
        match a {
            Act::NewSegment(_) => {}
            Act::Label(..) => code.extend([0xa1, 0xaa]),
            Act::Equ(_) => {}
            Act::Set(v, _) | Act::SetIn(_, v) => set = Some(*v),
            Act::SetInc(_) => match set {
                Some(v) => set = Some(v + 1),
                None => err = err.or(Some(".set variable used before its first assignment")),
            },
            Act::UseE(n) => match value(*n, &set) {
                Ok(v) => eeprom.push(v as u8),
                Err(e) => {
                    err = err.or(Some(e));
                    eeprom.push(0);
                }
            },
            Act::Def(d, _) | Act::DefIn(_, d) => {
                if !defs.insert(*d) {
                    return Expected::Unpinned;
                }
            }
            Act::Undef(d, _) | Act::UndefIn(_, d) => {
                if !defs.remove(d) {
                    return Expected::Unpinned;
                }
            }
            Act::UseI(n, _) => {
                if n.kind() == "def" {
                    if defs.contains(n) {
                        code.extend(isa::words_to_bytes(&isa::encode(Core::Full, "mov", &[Opnd::Reg(n.reg()), Opnd::Reg(0)]).unwrap()));
                    } else {
                        err = err.or(Some("alias used outside its .def .. .undef scope"));
                        code.extend([0, 0]);
                    }
                } else {
                    match value(*n, &set) {
                        Ok(v) => code.extend(isa::words_to_bytes(&isa::encode(Core::Full, "ldi", &[Opnd::Reg(16), Opnd::Imm(v)]).unwrap())),
                        Err(e) => {
                            err = err.or(Some(e));
                            code.extend([0, 0]);
                        }
                    }
                }
            }
            Act::UseD(n, _) => match value(*n, &set) {
                Ok(v) => code.extend((v as u16).to_le_bytes()),
                Err(e) => {
                    err = err.or(Some(e));
                    code.extend([0, 0]);
                }
            },
        }
    }
    match err {
        Some(e) => Expected::Err(e),
        None => Expected::Ok(code, eeprom),
    }
}

pub fn render(trace: &[Act]) -> String {
    let mut s = String::new();
    let mut words = 0;
    for (i, a) in trace.iter().enumerate() {
        match a {
            Act::Label(..) | Act::UseI(..) | Act::UseD(..) => words += 1,
            _ => {}
        }
        match a {
            Act::SetIn(ctx, v) => {
                let line = format!(".set {} = {}", spell(Name::SetA, (i % 3) as u8), v);
                match ctx {
                    0 => s.push_str(&format!(".dseg\n{}\n.cseg\n", line)),
                    1 => s.push_str(&format!(".eseg\n{}\n.cseg\n", line)),
                    _ => s.push_str(&format!(".macro setm_{}\n{}\n.endm\nsetm_{}\n", i, line, i)),
                }
            }
            Act::DefIn(ctx, d) | Act::UndefIn(ctx, d) => {
                let line = if let Act::DefIn(..) = a { format!(".def {} = r{}", spell(*d, (i % 3) as u8), d.reg()) } else { format!(".undef {}", spell(*d, (i % 3) as u8)) };
                match ctx {
                    0 => s.push_str(&format!(".dseg\n{}\n.cseg\n", line)),
                    _ => s.push_str(&format!(".macro defm_{}\n{}\n.endm\ndefm_{}\n", i, line, i)),
                }
            }
            Act::UseE(n) => s.push_str(&format!(".eseg\n.db {}\n.cseg\n", spell(*n, (i % 3) as u8))),
            Act::NewSegment(0) => s.push_str(".cseg\n"),
            // words counts the item of this line too, but NewSegment emits none
            Act::NewSegment(_) => s.push_str(&format!(".org {}\n", words)),
            Act::Label(l, c) => s.push_str(&format!("{}: .dw 0xaaa1\n", spell(*l, *c))),
            Act::Equ(c) => s.push_str(&format!(".equ {} = {}\n", spell(Name::EquA, *c), EQU_VALUE)),
            Act::Set(v, c) => s.push_str(&format!(".set {} = {}\n", spell(Name::SetA, *c), v)),
            // the name on the right-hand side is spelled in another case than the one on the left
            Act::SetInc(c) => s.push_str(&format!(".set {} = {} + 1\n", spell(Name::SetA, *c), spell(Name::SetA, *c + 1 + (i % 2) as u8))),
            Act::Def(d, c) => s.push_str(&format!(".def {} = r{}\n", spell(*d, *c), d.reg())),
            Act::Undef(d, c) => s.push_str(&format!(".undef {}\n", spell(*d, *c))),
            Act::UseI(n, c) => {
                if n.kind() == "def" {
                    s.push_str(&format!("mov {}, r0\n", spell(*n, *c)));
                } else {
                    s.push_str(&format!("ldi r16, {}\n", spell(*n, *c)));
                }
            }
            Act::UseD(n, c) => s.push_str(&format!(".dw {}\n", spell(*n, *c))),
        }
    }
    s
}

fn features(trace: &[Act]) -> String {
    let mut kinds: BTreeSet<&'static str> = BTreeSet::new();
    let mut def_cases: BTreeMap<Name, BTreeSet<u8>> = BTreeMap::new();
    let mut case_differs = false;
    for a in trace {
        match a {
            Act::NewSegment(_) => {
                kinds.insert("new-segment");
                continue;
            }
            Act::SetIn(ctx, _) => {
                kinds.insert(["set-in-dseg", "set-in-eseg", "set-in-macro"][*ctx as usize]);
                continue;
            }
            Act::DefIn(ctx, _) | Act::UndefIn(ctx, _) => {
                kinds.insert(["def-undef-in-dseg", "def-undef-in-macro"][*ctx as usize]);
                continue;
            }
            Act::UseE(_) => {
                kinds.insert("use-in-eeprom");
                continue;
            }
            _ => {}
        }
        let (n, c) = match a {
            Act::Label(n, c) | Act::Def(n, c) | Act::Undef(n, c) | Act::UseI(n, c) | Act::UseD(n, c) => (*n, *c),
            Act::Equ(c) => (Name::EquA, *c),
            Act::Set(_, c) => (Name::SetA, *c),
            Act::SetInc(c) => {
                case_differs = true;
                (Name::SetA, *c)
            }
            _ => continue,
        };
        kinds.insert(n.kind());
        def_cases.entry(n).or_default().insert(c % 3);
        if let Act::Undef(..) = a {
            kinds.insert("undef");
        }
    }
    if def_cases.values().any(|s| s.len() > 1) {
        case_differs = true;
    }
    format!("symbols={}/case-differs={}", kinds.into_iter().collect::<Vec<_>>().join("+"), if case_differs { "yes" } else { "no" })
}

/// a deterministic selection of traces (state-cover access traces) for other checks' corpora
pub fn sample_traces() -> Vec<Vec<Act>> {
    let m = SymModel;
    let ex = mc::explore(&m, 3);
    ex.cover.into_iter().map(|(t, _)| t).filter(|t| t.len() == 3).step_by(5).collect()
}

pub fn run(tier: Tier) -> i32 {
    let rep = Report::new("C10", tier, "model_checking");
    let (n1, k) = if tier.thorough() { (4usize, 2usize) } else { (3usize, 2usize) };
    let m = SymModel;
    let ex = mc::explore(&m, n1);
    let n_ok = AtomicU64::new(0);
    let n_err = AtomicU64::new(0);
    let n_mut = AtomicU64::new(0);
    let outcomes: Mutex<BTreeSet<u64>> = Mutex::new(BTreeSet::new());
    let samples: Mutex<Vec<serde_json::Value>> = Mutex::new(vec![]);

    let check = |trace: &[Act], origin: &str| {
        let exp = expect(trace);
        if exp == Expected::Unpinned {
            return;
        }
        let src = render(trace);
        let o = sut::build_str(&src);
        let mut bad: Option<(&str, String)> = None;
        match (&exp, &o) {
            (Expected::Ok(code, eeprom), Outcome::Ok(b)) => {
                n_ok.fetch_add(1, Ordering::Relaxed);
                {
                    use std::hash::{Hash, Hasher};
                    let mut h = std::collections::hash_map::DefaultHasher::new();
                    b.code.hash(&mut h);
                    outcomes.lock().unwrap().insert(h.finish());
                }
                if &b.code != code {
                    bad = Some(("wrong-value", format!("image {} but the binding rules give {}", sut::hex(&b.code), sut::hex(code))));
                } else if &b.eeprom != eeprom {
                    bad = Some(("wrong-value", format!("EEPROM image {} but the binding rules give {}", sut::hex(&b.eeprom), sut::hex(eeprom))));
                }
            }
            (Expected::Ok(code, _), Outcome::Err(e)) => {
                n_err.fetch_add(1, Ordering::Relaxed);
                bad = Some(("rejected", format!("every reference resolves (expected image {}) but the build fails: {}", sut::hex(code), e)));
            }
            (Expected::Err(why), Outcome::Ok(b)) => {
                n_ok.fetch_add(1, Ordering::Relaxed);
                bad = Some(("accepted", format!("must fail ({}) but builds to {}", why, sut::hex(&b.code))));
            }
            (Expected::Err(_), Outcome::Err(_)) => {
                n_err.fetch_add(1, Ordering::Relaxed);
            }
            (_, Outcome::Panic { site, msg }) => bad = Some(("panic", format!("panic at {}: {}", site, msg))),
            (Expected::Unpinned, _) => {}
        }
        if let Some((kind, what)) = bad {
            let key = format!("C10/{}/{}", kind, features(trace));
            rep.violation(&key, || format!("{} {:?}: {}", origin, trace, what), || {
                json!({"kind": "build_str", "source": src, "trace": format!("{:?}", trace), "origin": origin,
                       "expected": match &exp { Expected::Ok(c, e) => json!({"result":"ok","code": sut::hex(c), "eeprom": sut::hex(e)}), Expected::Err(w) => json!({"result":"err","because": w}), _ => json!(null) },
                       "observed": o.to_json()})
            });
        } else if trace.len() >= 4 && origin == "trace" {
            let mut s = samples.lock().unwrap();
            if s.len() < 3 {
                s.push(json!({"trace": format!("{:?}", trace), "source": src, "expected": format!("{:?}", exp)}));
            }
        }
    };

    let traces = mc::conform(&m, &ex, k, |trace| {
        check(trace, "trace");
        // E3: every single deletion of a defining line and every duplication of a label line of
        // a trace that builds
        if let Expected::Ok(..) = expect(trace) {
            for i in 0..trace.len() {
                let defining = matches!(trace[i], Act::Label(..) | Act::Equ(_) | Act::Set(..) | Act::Def(..) | Act::SetIn(..) | Act::DefIn(..));
                if defining {
                    let mut t = trace.to_vec();
                    t.remove(i);
                    n_mut.fetch_add(1, Ordering::Relaxed);
                    check(&t, "deletion-of-definition");
                }
                if let Act::Label(l, c) = trace[i] {
                    for dc in 0..3u8 {
                        let mut t = trace.to_vec();
                        t.insert(i + 1, Act::Label(l, c + dc));
                        n_mut.fetch_add(1, Ordering::Relaxed);
                        check(&t, "duplication-of-label");
                    }
                }
            }
        }
    });
    let distinct = outcomes.lock().unwrap().len();
    // an instruction written with an alias is the instruction written with the register: every
    // mnemonic x every register position x r0..r31, with no device and on devices of each kind -
    // same bytes, or both refused
    let n_alias_pairs = AtomicU64::new(0);
    {
        use crate::checks::c04;
        use rayon::prelude::*;
        let cases = c04::gen_cases(Tier::Quick, crate::isa::Core::Full);
        // (mnemonic, operand position, register) -> literal text / alias text
        let mut lit: BTreeMap<(String, usize, String), String> = BTreeMap::new();
        let mut ali: Vec<(String, usize, String, String, String)> = vec![];
        for c in cases.iter() {
            if c.cat == "register" {
                lit.insert((c.ic.text(), c.pos, c.ic.mnem.to_string()), c.text.clone());
            }
        }
        for c in cases.iter() {
            if c.cat == "register-alias" {
                if let Some(l) = lit.get(&(c.ic.text(), c.pos, c.ic.mnem.to_string())) {
                    let i = c.text.find(c04::ALIAS).unwrap();
                    let n: String = c.text[i + c04::ALIAS.len()..].chars().take_while(|ch| ch.is_ascii_digit()).collect();
                    ali.push((c.ic.mnem.to_string(), c.pos, n, l.clone(), c.text.clone()));
                }
            }
        }
        let devices = ["", "ATtiny20", "ATtiny11", "ATmega8", "AT90S1200", "ATmega2560"];
        ali.par_iter().for_each(|(mnem, pos, n, literal, alias)| {
            for dev in devices {
                let devline = if dev.is_empty() { String::new() } else { format!(".device {}\n", dev) };
                let s_lit = format!("{}{}\n", devline, literal);
                // the alias in three spellings: as defined; defined in capitals and used in
                // lower case; defined in lower case and used in mixed case (no device: all three)
                let name = format!("{}{}", c04::ALIAS, n);
                let spelling = if dev.is_empty() { (pos + n.len() + mnem.len()) % 3 } else { 0 };
                let (def_name, use_line) = match spelling {
                    0 => (name.clone(), alias.clone()),
                    1 => (name.to_uppercase(), alias.clone()),
                    _ => (name.clone(), alias.replace(&name, &format!("A{}", &name[1..]).replace("_q", "_Q"))),
                };
                let s_ali = format!("{}.def {} = r{}\n{}\n", devline, def_name, n, use_line);
                let (o1, o2) = (sut::build_str(&s_lit), sut::build_str(&s_ali));
                n_alias_pairs.fetch_add(1, Ordering::Relaxed);
                let same = match (&o1, &o2) {
                    (Outcome::Ok(a), Outcome::Ok(b)) => a.code == b.code,
                    (Outcome::Err(_), Outcome::Err(_)) => true,
                    _ => false,
                };
                if !same {
                    rep.violation(
                        &format!("C10/alias-differs-from-register/mnem={}/position={}/device={}", mnem, pos, if dev.is_empty() { "none" } else { dev }),
                        || format!("`{}` gives {} but with `.def {}{} = r{}` the line `{}` gives {}", literal, o1.brief(), c04::ALIAS, n, n, alias, o2.brief()),
                        || json!({"kind": "build_str", "source": s_ali, "register_form": s_lit, "expected": o1.to_json(), "observed": o2.to_json()}),
                    );
                }
            }
        });
    }
    // a reference is a reference wherever it stands in an expression: an undefined name on the
    // side of `&&` / `||` that does not decide the value, inside a function, behind a unary operator
    let n_undef_expr = AtomicU64::new(0);
    {
        let wrappers = ["0 && {}", "1 || {}", "{} && 0", "{} || 1", "0 * {}", "low({}) & 0", "-{} * 0", "!{} && 0", "(1 || {}) + 1", "2 > 1 || {} > 3"];
        let defs: [(&str, &str); 5] = [("label", "u_name: nop\n"), ("equ", ".equ u_name = 4\n"), ("set", ".set u_name = 4\n"), ("late-equ", ""), ("late-label", "")];
        let uses = ["ldi r16, {}\n", ".db {}\n", ".dw 1, {}\n", ".set other_v = {}\n", ".if {}\nnop\n.endif\n", ".org 8 + ({})\nnop\n"];
        for w in wrappers {
            for (dk, dtext) in defs {
                for u in uses {
                    // conditions and .org are evaluated while parsing: later definitions do not count there
                    let parse_time = u.starts_with(".if") || u.starts_with(".org");
                    let late = match dk {
                        "late-equ" => ".equ u_name = 4\n",
                        "late-label" => "u_name: nop\n",
                        _ => "",
                    };
                    if parse_time && !late.is_empty() {
                        continue;
                    }
                    let line = u.replace("{}", &w.replace("{}", "u_name"));
                    let defined = format!("{}{}{}", dtext, line, late);
                    let undefined = line.clone();
                    n_undef_expr.fetch_add(2, Ordering::Relaxed);
                    // .if / .org with a label or a .set variable: labels and variables get their values
                    // in later passes, so only .equ definitions count there
                    let defined_must_build = !(parse_time && dk != "equ");
                    let o1 = sut::build_str(&defined);
                    if defined_must_build && !matches!(o1, Outcome::Ok(_)) {
                        rep.violation(&format!("C10/rejected/defined-name-in-expression/kind={}", dk), || format!("`{}` with u_name defined ({}) must build but: {}", line.trim(), dk, o1.brief()), || json!({"kind": "build_str", "source": defined, "expected": "ok", "observed": o1.to_json()}));
                    }
                    let o2 = sut::build_str(&undefined);
                    if matches!(o2, Outcome::Ok(_)) {
                        rep.violation(&format!("C10/accepted/undefined-name-in-expression/wrapper={}", w.replace("{}", "N").replace(' ', "")), || format!("`{}`: u_name is defined nowhere, the build must fail but: {}", line.trim(), o2.brief()), || json!({"kind": "build_str", "source": undefined, "expected": "err", "observed": o2.to_json()}));
                    }
                }
            }
        }
    }
    // names used on body lines of a macro are bound where the macro is called: re-binding between
    // two calls, a call before the definition, an .undef after the call
    let mut n_in_macro = 0u64;
    {
        let progs: Vec<(&str, &str, Option<&[u8]>)> = vec![
            ("alias-rebound-between-calls", ".def a_q = r16\n.macro m_q\nldi a_q, 1\n.endm\nm_q\n.undef a_q\n.def a_q = r17\nm_q\n", Some(&[0x01, 0xe0, 0x11, 0xe0])),
            ("alias-defined-after-the-call", ".macro m_q\nldi a_q, 1\n.endm\nm_q\n.def a_q = r16\n", None),
            ("alias-undefined-after-the-call", ".def a_q = r16\n.macro m_q\nldi a_q, 1\n.endm\nm_q\n.undef a_q\nnop\n", Some(&[0x01, 0xe0, 0x00, 0x00])),
            ("alias-undefined-before-the-second-call", ".def a_q = r16\n.macro m_q\nldi a_q, 1\n.endm\nm_q\n.undef a_q\nm_q\n", None),
            ("variable-reassigned-between-calls", ".set v_q = 1\n.macro m_q\nldi r16, v_q\n.endm\nm_q\n.set v_q = 2\nm_q\n", Some(&[0x01, 0xe0, 0x02, 0xe0])),
            ("variable-assigned-in-the-body", ".macro m_q\n.set v_q = @0\n.endm\nm_q 1\nldi r16, v_q\nm_q 2\nldi r16, v_q\n", Some(&[0x01, 0xe0, 0x02, 0xe0])),
            ("variable-assigned-after-the-only-call", ".macro m_q\nldi r16, v_q\n.endm\nm_q\n.set v_q = 2\n", None),
            ("alias-defined-in-the-body", ".macro m_q\n.def a_q = r17\n.endm\nm_q\nldi a_q, 1\n", Some(&[0x11, 0xe0])),
            ("alias-passed-as-argument-and-rebound", ".def a_q = r16\n.macro m_q\nldi @0, 1\n.endm\nm_q a_q\n.undef a_q\n.def a_q = r17\nm_q a_q\n", Some(&[0x01, 0xe0, 0x11, 0xe0])),
            // one name several times in one operand, names that share a definition
            ("one-name-several-times-in-one-operand", ".equ base_q = 2\n.equ step_q = base_q + 1\n.equ other_q = base_q * 2\nldi r16, step_q * step_q\nldi r17, (STEP_Q << 4) | step_q\nldi r18, step_q + other_q\n.dw step_q, Step_Q\n", Some(&[0x09, 0xe0, 0x13, 0xe3, 0x27, 0xe0, 0x03, 0x00, 0x03, 0x00])),
            ("one-variable-several-times-in-one-operand", ".set v_q = 3\nldi r16, v_q * V_q + v_q\n.set v_q = 1\nldi r17, v_q + v_q + v_q\n", Some(&[0x0c, 0xe0, 0x13, 0xe0])),
            // a label on a directive line that is itself skipped text defines nothing
            ("label-on-a-nested-endif-inside-a-skipped-arm", ".if 0\n.if 1\nnop\ninner_q: .endif\n.endif\nrjmp inner_q\n", None),
            ("label-on-a-nested-else-inside-a-skipped-arm-and-the-same-name-outside", ".if 0\n.if 1\nnop\ndup_q: .else\nnop\n.endif\n.endif\ndup_q: nop\nrjmp dup_q\n", Some(&[0x00, 0x00, 0xfe, 0xcf])),
            // a feature flag is another kind of name, told apart by letter case: it does not capture a label
            ("flag-that-differs-from-a-label-in-case-only", ".define UART_Q\n#define Tx_Q\nnop\nuart_q: nop\ntx_q: rjmp uart_q\n.dw uart_q, tx_q\n", Some(&[0x00, 0x00, 0x00, 0x00, 0xfe, 0xcf, 0x01, 0x00, 0x02, 0x00])),
            ("label-in-the-body-used-in-other-letter-cases-inside-the-body", ".macro wait_q\nWait_Lq: dec r16\nnop\nbrne WAIT_LQ\nrjmp wait_lq\n.endm\nnop\nwait_q\nnop\n", Some(&[0x00, 0x00, 0x0a, 0x95, 0x00, 0x00, 0xe9, 0xf7, 0xfc, 0xcf, 0x00, 0x00])),
            ("label-in-the-body-used-outside", ".macro m_q\nin_l: nop\n.endm\nnop\nm_q\nrjmp in_l\n", Some(&[0x00, 0x00, 0x00, 0x00, 0xfe, 0xcf])),
        ];
        for (name, src, want) in progs.iter() {
            let o = sut::build_str(src);
            n_in_macro += 1;
            let bad = match (want, &o) {
                (Some(w), Outcome::Ok(b)) if &b.code[..] == *w => None,
                (Some(w), other) => Some(format!("expected code {} but: {}", sut::hex(w), other.brief())),
                (None, Outcome::Ok(b)) => Some(format!("must fail (the name is not bound where the macro is called) but builds to {}", sut::hex(&b.code))),
                (None, _) => None,
            };
            if let Some(what) = bad {
                rep.violation(&format!("C10/binding-inside-macro-bodies/program={}", name), || what, || json!({"kind": "build_str", "source": src, "expected": match want { Some(w) => json!({"result": "ok", "code": sut::hex(w)}), None => json!({"result": "err"}) }, "observed": o.to_json()}));
            }
        }
    }
    // the life cycle of an alias in every combination of spellings: defined, used, unbound,
    // bound to another register, used again, unbound, bound a third time - each use encodes the
    // register bound at that point; a use between .undef and the next .def fails the build
    let mut n_life_cycles = 0u64;
    {
        let spellings = ["temp_q", "TEMP_Q", "Temp_q", "tEMP_Q"];
        for s_def in spellings {
            for s_use in spellings {
                for s_undef in spellings {
                    for (mn, regs) in [("mov", [16u16, 17, 3]), ("ldi", [16, 31, 20])] {
                        let use_line = |r: u16| -> (String, [u8; 2]) {
                            if mn == "mov" {
                                let w: u16 = 0x2c00 | (r & 0x1f) << 4; // mov Rd, r0
                                (format!("mov {}, r0\n", s_use), w.to_le_bytes())
                            } else {
                                let w: u16 = 0xe000 | ((0xa5u16 & 0xf0) << 4) | ((r - 16) << 4) | (0xa5u16 & 0x0f); // ldi Rd, 0xa5
                                (format!("ldi {}, 0xa5\n", s_use), w.to_le_bytes())
                            }
                        };
                        let mut src = String::new();
                        let mut want: Vec<u8> = vec![];
                        for (i, r) in regs.iter().enumerate() {
                            if i > 0 {
                                src.push_str(&format!(".undef {}\n", s_undef));
                            }
                            src.push_str(&format!(".def {} = r{}\n", s_def, r));
                            let (l, w) = use_line(*r);
                            src.push_str(&l);
                            want.extend(w);
                            src.push_str(&l);
                            want.extend(w);
                        }
                        let dead = format!(".def {} = r{}\n{}.undef {}\n{}", s_def, regs[0], use_line(regs[0]).0, s_undef, use_line(regs[0]).0);
                        let dead_then_rebound = format!("{}.def {} = r{}\n", dead, s_def, regs[1]);
                        n_life_cycles += 3;
                        let o = sut::build_str(&src);
                        if !matches!(&o, Outcome::Ok(b) if b.code == want) {
                            rep.violation(&format!("C10/alias-life-cycle/wrong-binding/mnem={}", mn), || format!("`{}` bound to r{}, r{}, r{} in turn (defined as {}, used as {}, unbound as {}): expected {} but {}", s_def, regs[0], regs[1], regs[2], s_def, s_use, s_undef, sut::hex(&want), o.brief()), || json!({"kind": "build_str", "source": src, "expected": {"result": "ok", "code": sut::hex(&want)}, "observed": o.to_json()}));
                        }
                        for (what, p) in [("use-after-undef", &dead), ("use-after-undef-before-the-next-def", &dead_then_rebound)] {
                            let o = sut::build_str(p);
                            if let Outcome::Ok(b) = &o {
                                rep.violation(&format!("C10/alias-life-cycle/accepted/{}/mnem={}", what, mn), || format!("the alias (defined as {}, used as {}, unbound as {}) is used after its .undef, the build must fail but gives {}", s_def, s_use, s_undef, sut::hex(&b.code)), || json!({"kind": "build_str", "source": p, "expected": {"result": "err (any text)"}, "observed": o.to_json()}));
                            }
                        }
                    }
                }
            }
        }
    }
    rep.guard(n_alias_pairs.load(Ordering::Relaxed) > 5000, "fewer than 5000 alias/register pairs");
    rep.guard(ex.states > 200, "fewer than 200 model states");
    rep.guard(n_ok.load(Ordering::Relaxed) > 1000 && n_err.load(Ordering::Relaxed) > 1000, "need both Ok and Err outcomes");
    rep.guard(distinct > 200, "fewer than 200 distinct observed images");
    for s in samples.into_inner().unwrap() {
        rep.sample(|| s);
    }
    rep.assume("name pools are disjoint per kind; .equ redefinition, .def of a bound alias and .undef of an unbound name are not pinned by the statement and are never generated");
    rep.assume("every defining and referring occurrence is spelled in an independently chosen letter case (lower, UPPER, Mixed)");
    let coverage = cov(json!({
        "alias_versus_register_pairs": n_alias_pairs.load(Ordering::Relaxed),
        "binding_inside_macro_bodies_programs": n_in_macro,
        "alias_life_cycle_programs": n_life_cycles,
        "names_inside_expressions_programs": n_undef_expr.load(Ordering::Relaxed),
        "states": ex.states,
        "transitions": ex.transitions,
        "traces_validated_against_impl": traces,
        "single_symbol_mutations_validated": n_mut.load(Ordering::Relaxed),
        "state_cover_size": ex.states,
        "bound": {"N1_model_depth": n1, "k_extension": k, "alphabet": 86},
        "exhaustive": true,
        "caps_hit": [],
        "distinct_observed_outcomes": distinct,
        "ok_outcomes": n_ok.load(Ordering::Relaxed),
        "err_outcomes": n_err.load(Ordering::Relaxed),
        "trusted_base": ["symtab reference model (DESIGN.md appendix C)", "isa reference for ldi/mov", "stateright 0.31 BFS"],
    }));
    rep.finish(coverage)
}
