//! C16 — no input makes the assembler panic, overflow its stack, or hang (E1 + E3 in the E5 sandbox).

use std::collections::{BTreeMap, BTreeSet};
use std::sync::atomic::{AtomicU64, Ordering};
use std::sync::Mutex;
use std::time::Duration;

use serde_json::json;

use crate::corpus;
use crate::isa;
use crate::lexer::{self, Role};
use crate::report::{cov, Report, Scratch, Tier};
use crate::sandbox::{self, Case, Hard};

const DIRECTIVES: [&str; 40] = [
    "byte", "cseg", "csegsize", "db", "def", "device", "dseg", "dw", "endm", "endmacro", "equ", "eseg", "exit", "include", "includepath",
    "list", "listmac", "macro", "nolist", "org", "set", "define", "else", "elif", "endif", "error", "if", "ifdef", "ifndef", "message", "dd",
    "dq", "undef", "warning", "overlap", "nooverlap", "pragma", "unknowndirective", "elseif", "endmacros",
];

fn dictionary() -> Vec<&'static str> {
    vec![
        // valid
        "r0", "r16", "r31", "X", "Y+", "-Z", "Z+1", "0", "1", "255", "\"s\"", "lbl",
        // boundary
        "r32", "r99", "r007", "Z+64", "-1", "256", "65536", "4194304", "0x7fffffffffffffff", "-0x7fffffffffffffff-1",
        // hostile
        "99999999999999999999", "$ffffffffffffffffff", "0b1111111111111111111111111111111111111111111111111111111111111111111111",
        "07777777777777777777777777", "1<<64", "1<<-1", "exp2(64)", "1/0", "-(-0x7fffffffffffffff-1)", "undefined", "''", "\"unterminated",
        "low()", "@0", "(", "", "cyc_a", "a = 1", "a = r16", "a = a", "ATmega48", "low(", "'ab'", "1 2 3 4 5 6 7",
        // names that are already something else in the 'after-label-and-def' context
        "lbl = 1", "dreg = 1", "pc = 1", "svar = r16", "lbl = r16", "dreg", "svar", "pc",
        // paths that are not regular files, a function of itself
        "\"/dev/zero\"", "\".\"", "\"/\"", "exp2(cyc_a)", "log2(a)",
        // register pairs in the colon notation of other assemblers, in order and out of order
        "r25:r24", "r23:r24",
    ]
}

struct Context {
    name: &'static str,
    prefix: &'static str,
    /// text after the line (closes what the prefix opened)
    suffix: &'static str,
}

const CONTEXTS: [Context; 13] = [
    Context { name: "none", prefix: "", suffix: "" },
    Context { name: "dseg", prefix: ".dseg\n", suffix: "" },
    Context { name: "eseg", prefix: ".eseg\n", suffix: "" },
    Context { name: "device-tiny20", prefix: ".device ATtiny20\n", suffix: "" },
    Context { name: "device-tiny11", prefix: ".device ATtiny11\n", suffix: "" },
    Context { name: "cyclic-equ", prefix: ".equ cyc_a = cyc_b + 1\n.equ cyc_b = cyc_a\n.equ a = a\n", suffix: "" },
    Context { name: "self-calling-macro", prefix: ".macro selfm\nselfm @0\n.endm\n.macro ping\npong\n.endm\n.macro pong\nping\n.endm\n.macro selfseg\n.eseg\n.db 1\n.cseg\nselfseg\n.endm\n.macro selforg\nnop\n.org 0x40\nselforg\n.endm\n.macro selfdseg\n.dseg\nselfdseg\n.endm\n.macro selfgrow\nselfgrow @0+@0\n.endm\n.macro selfif\n.if 1\nselfif\n.endif\n.endm\n", suffix: "" },
    Context { name: "open-if-0", prefix: ".if 0\n", suffix: "" },
    Context { name: "open-macro", prefix: ".macro never_closed\n", suffix: "" },
    Context { name: "after-label-and-def", prefix: "lbl: nop\n.def dreg = r20\n.set svar = 3\n", suffix: "" },
    // the line stands in the body of a macro that is called, in a selected arm, and in the body of
    // a macro called from another macro's body
    Context { name: "in-called-macro-body", prefix: ".macro wrap_m\n", suffix: ".endm\nwrap_m 1, 2\n" },
    Context { name: "in-selected-arm", prefix: ".if 1\n", suffix: ".else\n.endif\n" },
    Context { name: "in-nested-macro-body", prefix: ".macro outer_m\ninner_m\n.endm\n.macro inner_m\n", suffix: ".endm\nouter_m\n" },
];

#[derive(Clone)]
struct Meta {
    origin: &'static str,
    head: String,
    nops: usize,
    ctx: &'static str,
    probe: String,
}

fn blank_digits(s: &str) -> String {
    let mut out = String::new();
    let mut last_hash = false;
    for c in s.chars() {
        if c.is_ascii_digit() {
            if !last_hash {
                out.push('#');
            }
            last_hash = true;
        } else {
            out.push(c);
            last_hash = false;
        }
    }
    out.chars().take(70).collect()
}

/// "file.rs:function" for a panic location, found by scanning the tree upwards for the enclosing fn
fn site_fn(site: &str, cache: &Mutex<BTreeMap<String, Vec<String>>>) -> String {
    let (file, line) = match site.rsplit_once(':') {
        Some((f, l)) => (f.to_string(), l.parse::<usize>().unwrap_or(0)),
        None => return site.to_string(),
    };
    let short = file.rsplit("/src/").next().unwrap_or(&file).to_string();
    let mut c = cache.lock().unwrap();
    let lines = c.entry(file.clone()).or_insert_with(|| std::fs::read_to_string(&file).map(|t| t.lines().map(|l| l.to_string()).collect()).unwrap_or_default());
    let mut i = line.min(lines.len());
    while i > 0 {
        let l = &lines[i - 1];
        for kw in ["fn ", "rule "] {
            if let Some(p) = l.find(kw) {
                let before_ok = p == 0 || !l.as_bytes()[p - 1].is_ascii_alphanumeric();
                let name: String = l[p + kw.len()..].chars().take_while(|ch| ch.is_ascii_alphanumeric() || *ch == '_').collect();
                if before_ok && !name.is_empty() {
                    return format!("{}:{}", short, name);
                }
            }
        }
        i -= 1;
    }
    format!("{}:?", short)
}

pub fn run(tier: Tier) -> i32 {
    let rep = Report::new("C16", tier, "exploration");
    let scratch = Scratch::new("c16");
    let dict = dictionary();
    let mut cases: Vec<Case> = vec![];
    let mut meta: Vec<Meta> = vec![];
    let push = |cases: &mut Vec<Case>, meta: &mut Vec<Meta>, text: String, m: Meta| {
        cases.push(Case { kind: b'S', text });
        meta.push(m);
    };

    // 1. bounded-exhaustive single-line programs: head x operand lists x contexts
    let mut heads: Vec<String> = isa::all_mnemonics().iter().map(|m| m.to_string()).collect();
    heads.sort();
    heads.dedup();
    for d in DIRECTIVES.iter() {
        heads.push(format!(".{}", d));
        heads.push(format!("#{}", d));
    }
    heads.push("unknownname".into());
    heads.push("selfm".into());
    heads.push("ping".into());
    for h in ["selfseg", "selforg", "selfdseg", "selfgrow", "selfif"] {
        heads.push(h.into());
    }
    heads.push("LDI".into());
    let max_ops = if tier.thorough() { 3 } else { 2 };
    // operand lists
    let mut lists: Vec<Vec<&str>> = vec![vec![]];
    {
        let mut frontier: Vec<Vec<&str>> = vec![vec![]];
        for depth in 0..max_ops {
            let mut next = vec![];
            for l in &frontier {
                for (di, d) in dict.iter().enumerate() {
                    // the third operand (thorough) ranges over a reduced dictionary
                    if depth == 2 && di % 3 != 0 {
                        continue;
                    }
                    let mut t = l.clone();
                    t.push(*d);
                    next.push(t);
                }
            }
            lists.extend(next.iter().cloned());
            frontier = next;
        }
    }
    for (ci, ctx) in CONTEXTS.iter().enumerate() {
        for (hi, h) in heads.iter().enumerate() {
            for l in lists.iter() {
                // quick tier: two-operand lists in the non-default contexts only for every third head
                // three-operand lists (thorough tier) in the plain context only: 13 contexts x 250
                // heads x 70 000 such lists would not fit the memory
                if l.len() == 3 && ci != 0 {
                    continue;
                }
                // quick tier: the three "inside a body / arm" contexts take operand lists of length <= 1
                if !tier.thorough() && ci >= 10 && l.len() > 1 {
                    continue;
                }
                // quick tier: in the contexts other than the plain one, two-operand lists for every
                // second head (alternating with the context, so that every head meets them in half
                // of the contexts)
                if !tier.thorough() && ci >= 1 && l.len() == 2 && (hi + ci) % 2 == 1 {
                    continue;
                }
                let line = if l.is_empty() { h.clone() } else { format!("{} {}", h, l.join(", ")) };
                push(&mut cases, &mut meta, format!("{}{}\n{}", ctx.prefix, line, ctx.suffix), Meta { origin: "single-line", head: h.clone(), nops: l.len(), ctx: ctx.name, probe: String::new() });
                if ci == 0 && l.len() <= 1 {
                    push(&mut cases, &mut meta, format!("lab_q: {}\n", line), Meta { origin: "single-line-with-label", head: h.clone(), nops: l.len(), ctx: ctx.name, probe: String::new() });
                    push(&mut cases, &mut meta, format!("{} ; comment\n\n{}", line, line), Meta { origin: "single-line-twice", head: h.clone(), nops: l.len(), ctx: ctx.name, probe: String::new() });
                }
            }
        }
    }
    // 1b. unbalanced and interleaved structure: every sequence of structural lines up to a bound
    let core_lines: [&str; 20] = [
        ".macro m", ".endm", "m", ".macro m2", "m2 1, 2", ".if 1", ".if 0", ".ifdef X", ".ifndef X", ".elif 1", ".else", ".endif", ".define X", ".dseg", ".eseg",
        ".cseg", ".org 2", "nop", ".dw @0", ".exit",
    ];
    let extra_lines: [&str; 15] = [
        ".endmacro", ".elif 0", "lab:", "rjmp lab", ".db 1", ".byte 1", ".equ e = 1", ".set s = s + 1", ".def t = r16", ".undef t", ".device ATtiny13",
        ".include \"nofile.inc\"", ".error \"x\"", ".message \"x\"", "#endif",
    ];
    // 1a. macro parameters of every spelling on a body line of a macro that is called with two
    //     arguments (and one called with none): as the only operand and behind a register
    for h in heads.iter() {
        for ptext in ["@0", "@1", "@2", "@9", "@10", "@12", "@05", "@00", "@@1", "@", "@x", "@1@0", "@19", "@-1", "\"@1\"", "@1 ; @10"] {
            for (cname, pre, post) in [("in-called-macro-body", ".macro wrap_m\n", ".endm\nwrap_m 1, 2\n"), ("in-macro-body-called-without-arguments", ".macro wrap_n\n", ".endm\nwrap_n\n"), ("in-macro-body-called-with-one-argument", ".macro wrap_o\n", ".endm\nwrap_o r16\n")] {
                push(&mut cases, &mut meta, format!("{}{} {}\n{}", pre, h, ptext, post), Meta { origin: "single-line", head: h.clone(), nops: 1, ctx: cname, probe: String::new() });
                push(&mut cases, &mut meta, format!("{}{} r16, {}\n{}", pre, h, ptext, post), Meta { origin: "single-line", head: h.clone(), nops: 2, ctx: cname, probe: String::new() });
            }
        }
    }
    let n_before_struct = cases.len();
    {
        let all_lines: Vec<&str> = core_lines.iter().chain(extra_lines.iter()).copied().collect();
        let (k_all, k_core) = if tier.thorough() { (4usize, 5usize) } else { (3, 4) };
        let mut emit = |alphabet: &[&str], k: usize, only_len: Option<usize>| {
            let mut frontier: Vec<Vec<usize>> = vec![vec![]];
            for len in 1..=k {
                let mut next = Vec::with_capacity(frontier.len() * alphabet.len());
                for f in &frontier {
                    for a in 0..alphabet.len() {
                        let mut t = f.clone();
                        t.push(a);
                        next.push(t);
                    }
                }
                if only_len.map(|l| l == len).unwrap_or(true) {
                    for t in &next {
                        let mut text = String::new();
                        for a in t {
                            text.push_str(alphabet[*a]);
                            text.push('\n');
                        }
                        cases.push(Case { kind: b'S', text });
                        meta.push(Meta { origin: "structural-sequence", head: alphabet[t[0]].to_string(), nops: t.len(), ctx: "none", probe: String::new() });
                    }
                }
                frontier = next;
            }
        };
        emit(&all_lines, k_all, None);
        // one line longer over the core alphabet (sequences of that length only; shorter ones are above)
        emit(&core_lines, k_core, Some(k_core));
    }
    let n_struct = cases.len() - n_before_struct;
    let n_single = cases.len() - n_struct;

    // 1d. every row of the device table x every memory: one unit, filled exactly, one beyond, a
    //     position at / beyond the end - devices without RAM or EEPROM included (sizes of zero
    //     are where ratios and "almost full" computations divide)
    let n_before_dev = cases.len();
    for d in crate::sut::devices() {
        let fw = d.flash_words as usize;
        let mut progs: Vec<String> = vec![
            ".dseg\nv_q: .byte 1\n".to_string(),
            ".dseg\n.org 0x70\nv_q: .byte 1\n".to_string(),
            format!(".dseg\nv_q: .byte {}\n", d.ram_size),
            format!(".dseg\nv_q: .byte {}\n", d.ram_size as u64 + 1),
            format!(".dseg\nv_q: .byte {}\nw_q: .byte 1\n", d.ram_size.max(1) - 1),
            ".eseg\ne_q: .db 1\n".to_string(),
            format!(".eseg\ne_q: .byte {}\n", d.eeprom_size),
            format!(".eseg\ne_q: .byte {}\n.db 1\n", d.eeprom_size),
            format!(".eseg\n.org {}\n.db 1\n", d.eeprom_size.max(1) - 1),
            format!(".org {}\nnop\n", fw - 1),
            format!(".org {}\nnop\nnop\n", fw - 1),
            format!(".org {}\n.dw 1\n", fw),
            "nop\n.dseg\n.eseg\n.cseg\n".to_string(),
        ];
        if fw <= 8192 {
            progs.push(format!(".dw 0{}\n", ",0".repeat(255)).repeat(fw / 256));
            progs.push(format!("{}nop\n", format!(".dw 0{}\n", ",0".repeat(255)).repeat(fw / 256)));
        }
        for ptext in progs {
            push(&mut cases, &mut meta, format!(".device {}\n{}", d.name, ptext), Meta { origin: "device-memory", head: ".device".to_string(), nops: 1, ctx: "none", probe: String::new() });
        }
    }
    let n_dev_mem = cases.len() - n_before_dev;

    // 2. structured size probes (geometric ladders, texts up to 64 KiB)
    let ladder = [10usize, 100, 1000, 10000, 30000];
    let mut probe = |cases: &mut Vec<Case>, meta: &mut Vec<Meta>, name: &str, n: usize, text: String| {
        if text.len() <= 65536 {
            cases.push(Case { kind: b'S', text });
            meta.push(Meta { origin: "size-probe", head: String::new(), nops: 0, ctx: "none", probe: format!("{}/n={}", name, n) });
        }
    };
    for n in ladder {
        probe(&mut cases, &mut meta, "nested-parentheses", n, format!(".dw {}1{}\n", "(".repeat(n), ")".repeat(n)));
        probe(&mut cases, &mut meta, "unary-minus-chain", n, format!(".dw {}1\n", "-".repeat(n)));
        probe(&mut cases, &mut meta, "unary-not-chain", n, format!(".dw {}1\n", "!".repeat(n)));
        probe(&mut cases, &mut meta, "unary-complement-chain", n, format!(".dw {}1\n", "~".repeat(n)));
        probe(&mut cases, &mut meta, "left-leaning-sum", n, format!(".dw 1{}\n", "+1".repeat(n)));
        probe(&mut cases, &mut meta, "right-leaning-sum", n, format!(".dw {}1{}\n", "1+(".repeat(n), ")".repeat(n)));
        probe(&mut cases, &mut meta, "mixed-precedence-chain", n, format!(".dw 1{}\n", "*2+3|4".repeat(n / 3 + 1)));
        probe(&mut cases, &mut meta, "nested-function-calls", n, format!(".dw {}1{}\n", "low(".repeat(n), ")".repeat(n)));
        // deep nesting behind things a pre-scan of the line could trip over
        probe(&mut cases, &mut meta, "nesting-after-semicolon-char-literal", n, format!(".db ';', {}1{}\n", "(".repeat(n), ")".repeat(n)));
        probe(&mut cases, &mut meta, "nesting-after-quote-char-literal", n, format!(".db '\"', {}1{}\n", "(".repeat(n), ")".repeat(n)));
        probe(&mut cases, &mut meta, "nesting-after-string-with-semicolon", n, format!(".db \"a;b\", {}1{}\n", "(".repeat(n), ")".repeat(n)));
        probe(&mut cases, &mut meta, "nesting-after-string-ending-in-backslash", n, format!(".db \"C:\\TEMP\\\", {}1{}\n", "(".repeat(n), ")".repeat(n)));
        probe(&mut cases, &mut meta, "nesting-after-string-with-apostrophe", n, format!(".db \"it's\", {}1{}\n", "(".repeat(n), ")".repeat(n)));
        probe(&mut cases, &mut meta, "nesting-after-string-with-comment-opener", n, format!(".db \"a/*b\", {}1\n", "-".repeat(n)));
        probe(&mut cases, &mut meta, "nesting-after-backslash-char-literal", n, format!(".db '\\', {}1{}\n", "(".repeat(n), ")".repeat(n)));
        probe(&mut cases, &mut meta, "nesting-after-two-strings", n, format!(".db \"a\", \"b\\\", \"c\", {}1{}\n", "(".repeat(n), ")".repeat(n)));
        probe(&mut cases, &mut meta, "nesting-after-slash-slash-in-string", n, format!(".db \"a//b\", {}1{}\n", "-".repeat(n), ""));
        probe(&mut cases, &mut meta, "nesting-in-skipped-branch", n, format!(".if 0\n.db {}1{}\n.endif\nnop\n", "(".repeat(n), ")".repeat(n)));
        probe(&mut cases, &mut meta, "nesting-in-skipped-branch-after-char-literal", n, format!(".if 0\n.db ';', {}1{}\n.endif\nnop\n", "(".repeat(n), ")".repeat(n)));
        probe(&mut cases, &mut meta, "nesting-in-macro-body", n, format!(".macro deepm\n.db {}1{}\n.endm\nnop\n", "(".repeat(n), ")".repeat(n)));
        probe(&mut cases, &mut meta, "nesting-in-label-line", n, format!("deep_l: .dw {}1\n", "~".repeat(n)));
        probe(&mut cases, &mut meta, "nesting-in-instruction-operand", n, format!("ldi r16, {}1{}\n", "(".repeat(n), ")".repeat(n)));
        probe(&mut cases, &mut meta, "nesting-in-macro-argument", n, format!(".macro am\n.dw @0\n.endm\nam {}1{}\n", "(".repeat(n), ")".repeat(n)));
        probe(&mut cases, &mut meta, "nesting-mixed-unary-and-parentheses", n, format!(".dw {}1{}\n", "-(".repeat(n), ")".repeat(n)));
        probe(&mut cases, &mut meta, "nesting-with-blanks-between-unary", n, format!(".dw {}1\n", "- ".repeat(n)));
        probe(&mut cases, &mut meta, "db-operand-list", n, format!(".db 1{}\n", ",1".repeat(n)));
        probe(&mut cases, &mut meta, "instruction-operand-list", n, format!("nop r1{}\n", ",r1".repeat(n)));
        probe(&mut cases, &mut meta, "macro-call-operand-list", n, format!(".macro mm\nnop\n.endm\nmm 1{}\n", ",1".repeat(n)));
        probe(&mut cases, &mut meta, "trailing-blanks", n, format!("nop{}\n", " ".repeat(n)));
        probe(&mut cases, &mut meta, "long-comment", n, format!("nop ; {}\n", "x".repeat(n)));
        probe(&mut cases, &mut meta, "long-label", n, format!("{}: nop\n", "l".repeat(n)));
        probe(&mut cases, &mut meta, "long-symbol-reference", n, format!("ldi r16, {}\n", "s".repeat(n)));
        probe(&mut cases, &mut meta, "long-string", n, format!(".db \"{}\"\n", "a".repeat(n)));
        probe(&mut cases, &mut meta, "long-number", n, format!(".dw {}\n", "1".repeat(n)));
        probe(&mut cases, &mut meta, "many-lines", n, "nop\n".repeat(n.min(16000)));
        probe(&mut cases, &mut meta, "many-labels", n, (0..n.min(4000)).map(|i| format!("l{}:\n", i)).collect::<String>());
        probe(&mut cases, &mut meta, "many-nested-ifs", n, format!("{}nop\n{}", ".if 1\n".repeat(n.min(5000)), ".endif\n".repeat(n.min(5000))));
        probe(&mut cases, &mut meta, "many-skipped-nested-ifs", n, format!(".if 0\n{}nop\n{}.endif\n", ".if 1\n".repeat(n.min(5000)), ".endif\n".repeat(n.min(5000))));
        probe(&mut cases, &mut meta, "equ-chain", n, {
            let m = n.min(2000);
            let mut s = String::new();
            for i in 0..m {
                s.push_str(&format!(".equ e{} = e{} + 1\n", i, i + 1));
            }
            s.push_str(&format!(".equ e{} = 1\n.dw e0\n", m));
            s
        });
        // every symbol defined twice in terms of the previous one: 2^n resolutions without memoisation
        probe(&mut cases, &mut meta, "equ-doubling-chain", n, {
            let m = [18usize, 24, 30, 40, 60][ladder.iter().position(|x| *x == n).unwrap_or(0)];
            let mut s = String::from(".equ d0 = 1\n");
            for i in 1..=m {
                s.push_str(&format!(".equ d{} = d{} + d{}\n", i, i - 1, i - 1));
            }
            s.push_str(&format!(".dq d{} & 0xff\n", m));
            s
        });
        probe(&mut cases, &mut meta, "macro-doubling-chain", n, {
            let m = [8usize, 12, 16, 20, 24][ladder.iter().position(|x| *x == n).unwrap_or(0)];
            let mut s = String::from(".macro dm0\nnop\n.endm\n");
            for i in 1..=m {
                s.push_str(&format!(".macro dm{}\ndm{}\ndm{}\n.endm\n", i, i - 1, i - 1));
            }
            s.push_str(&format!(".device ATtiny13\ndm{}\n", m));
            s
        });
        // a tower that stays below every per-call budget, called again and again: the work of a
        // program is bounded as a whole, not per line of source
        probe(&mut cases, &mut meta, "empty-macro-tower-called-many-times", n, {
            let calls = [1usize, 4, 32, 256, 2048][ladder.iter().position(|x| *x == n).unwrap_or(0)];
            let mut s = String::from(".macro tw0\n.endm\n");
            for i in 1..=17 {
                s.push_str(&format!(".macro tw{}\ntw{}\ntw{}\n.endm\n", i, i - 1, i - 1));
            }
            s.push_str(&"tw17\n".repeat(calls));
            s.push_str("nop\n");
            s
        });
        probe(&mut cases, &mut meta, "message-macro-tower-called-many-times", n, {
            let calls = [1usize, 4, 32, 256, 2048][ladder.iter().position(|x| *x == n).unwrap_or(0)];
            let mut s = String::from(".macro tv0\n.message \"x\"\n.endm\n");
            for i in 1..=12 {
                s.push_str(&format!(".macro tv{}\ntv{}\ntv{}\n.endm\n", i, i - 1, i - 1));
            }
            s.push_str(&"tv12\n".repeat(calls));
            s
        });
        // doubling chains whose bodies place nothing, and an argument that doubles per level
        probe(&mut cases, &mut meta, "empty-macro-doubling-chain", n, {
            let m = [10usize, 14, 18, 24, 40][ladder.iter().position(|x| *x == n).unwrap_or(0)];
            let mut s = String::from(".macro em0\n.endm\n");
            for i in 1..=m {
                s.push_str(&format!(".macro em{}\nem{}\nem{}\n.endm\n", i, i - 1, i - 1));
            }
            s.push_str(&format!("em{}\nnop\n", m));
            s
        });
        probe(&mut cases, &mut meta, "conditional-only-macro-doubling-chain", n, {
            let m = [10usize, 14, 18, 24, 40][ladder.iter().position(|x| *x == n).unwrap_or(0)];
            let mut s = String::from(".macro cm0\n.if 0\nnop\n.endif\n.endm\n");
            for i in 1..=m {
                s.push_str(&format!(".macro cm{}\ncm{}\ncm{}\n.endm\n", i, i - 1, i - 1));
            }
            s.push_str(&format!("cm{}\nnop\n", m));
            s
        });
        probe(&mut cases, &mut meta, "macro-argument-doubling", n, {
            let m = [4usize, 8, 16, 32, 60][ladder.iter().position(|x| *x == n).unwrap_or(0)];
            // a chain of m macros, each passing its argument on twice: the text doubles per level
            let mut s = String::from(".macro ga0\n.dw @0\n.endm\n");
            for i in 1..=m {
                s.push_str(&format!(".macro ga{}\nga{} @0+@0\n.endm\n", i, i - 1));
            }
            s.push_str(&format!("ga{} 1\n", m));
            s
        });
        // many calls / definitions: anything worse than linear shows at the top of the ladder
        probe(&mut cases, &mut meta, "many-macro-calls", n, format!(".macro one\nnop\n.endm\n{}", "one\n".repeat(n.min(16000))));
        probe(&mut cases, &mut meta, "many-macro-calls-with-argument", n, format!(".macro onea\nldi r16, @0\n.endm\n{}", "onea 1\n".repeat(n.min(9000))));
        probe(&mut cases, &mut meta, "many-macro-calls-switching-segment", n, format!(".macro sw\n.dseg\n.byte 1\n.cseg\nnop\n.endm\n{}", "sw\n".repeat(n.min(3000))));
        probe(&mut cases, &mut meta, "many-macro-definitions", n, (0..n.min(3000)).map(|i| format!(".macro d{}\nnop\n.endm\n", i)).collect::<String>());
        probe(&mut cases, &mut meta, "many-equs-used", n, {
            let m = n.min(2500);
            let mut s: String = (0..m).map(|i| format!(".equ q{} = {}\n", i, i)).collect();
            s.push_str(&(0..m).map(|i| format!(".dw q{}\n", i)).collect::<String>());
            s
        });
        probe(&mut cases, &mut meta, "many-sets-of-one-name", n, (0..n.min(5000)).map(|i| format!(".set v = {}\n", i)).collect::<String>() + ".dw v\n");
        probe(&mut cases, &mut meta, "many-segment-switches", n, ".dseg\n.byte 1\n.cseg\nnop\n".repeat(n.min(2500)));
        probe(&mut cases, &mut meta, "many-orgs", n, (0..n.min(5000)).map(|i| format!(".org {}\nnop\n", 2 * i + 1)).collect::<String>());
        probe(&mut cases, &mut meta, "many-forward-branches", n, {
            let m = n.min(3000);
            let mut s: String = (0..m).map(|i| format!("rjmp f{}\n", i)).collect();
            s.push_str(&(0..m).map(|i| format!("f{}:\n", i)).collect::<String>());
            s
        });
        // the product of the guards: a chain of definitions (up to the symbol-depth guard), each
        // the previous one behind a run of unary operators and in front of a run of binary ones
        // (up to the per-line guards): every factor is admitted alone
        if n == 10 {
            for (levels, ops, unary) in [(8usize, 40usize, 0usize), (63, 30, 0), (63, 40, 0), (63, 200, 0), (63, 499, 0), (64, 499, 0), (63, 499, 100), (63, 400, 190), (32, 499, 190), (16, 499, 190), (63, 0, 190), (200, 3, 0)] {
                probe(&mut cases, &mut meta, &format!("equ-chain-of-operator-runs-{}x{}x{}", levels, ops, unary), n, {
                    let mut s = String::from(".equ pc0_k = 1\n");
                    for i in 1..=levels {
                        let u: String = (0..unary).map(|k| if k % 2 == 0 { '-' } else { '~' }).collect();
                        s.push_str(&format!(".equ pc{}_k = {}pc{}_k{}\n", i, u, i - 1, "+0".repeat(ops)));
                    }
                    s.push_str(&format!(".dw pc{}_k & 0xffff\n", levels));
                    s
                });
            }
        }
        // definitions that are cyclic, or double, through each built-in function
        if n == 10 || n == 1000 {
            for f in ["low", "high", "byte2", "byte3", "byte4", "lwrd", "hwrd", "page", "exp2", "log2"] {
                probe(&mut cases, &mut meta, &format!("cyclic-equ-through-{}", f), n, format!(".equ fa_k = {}(fb_k)\n.equ fb_k = {}(fa_k) - 1\nldi r16, fa_k\n", f, f));
                probe(&mut cases, &mut meta, &format!("self-referring-equ-through-{}", f), n, format!(".equ fn_k = {}(fn_k)\n.if fn_k\nnop\n.endif\n.dw fn_k\n", f));
                probe(&mut cases, &mut meta, &format!("doubling-equ-through-{}", f), n, {
                    let m = if n == 10 { 20 } else { 60 };
                    let mut s = String::from(".equ fd0 = 1\n");
                    for i in 1..=m {
                        s.push_str(&format!(".equ fd{} = {}(fd{}) + {}(fd{})\n", i, f, i - 1, f, i - 1));
                    }
                    s.push_str(&format!(".dq fd{} & 0xff\n", m));
                    s
                });
            }
        }
        // doubling chains whose bodies place many lines that are not instructions
        probe(&mut cases, &mut meta, "data-macro-doubling-chain", n, {
            let m = [4usize, 8, 12, 16, 24][ladder.iter().position(|x| *x == n).unwrap_or(0)];
            let mut s = format!(".device ATtiny13\n.macro bm0\n{}.endm\n", ".dw 0\n".repeat(200));
            for i in 1..=m {
                s.push_str(&format!(".macro bm{}\nbm{}\nbm{}\n.endm\n", i, i - 1, i - 1));
            }
            s.push_str(&format!("bm{}\n", m));
            s
        });
        // ... and bodies that print
        probe(&mut cases, &mut meta, "message-macro-doubling-chain", n, {
            let m = [4usize, 8, 12, 16, 24][ladder.iter().position(|x| *x == n).unwrap_or(0)];
            let mut s = format!(".device ATtiny13\n.macro pm0\n.message \"{}\"\n.warning \"{}\"\n.endm\n", "m".repeat(1500), "w".repeat(500));
            for i in 1..=m {
                s.push_str(&format!(".macro pm{}\npm{}\npm{}\n.endm\n", i, i - 1, i - 1));
            }
            s.push_str(&format!("pm{}\nnop\n", m));
            s
        });
        probe(&mut cases, &mut meta, "label-macro-doubling-chain", n, {
            let m = [4usize, 8, 12, 16, 24][ladder.iter().position(|x| *x == n).unwrap_or(0)];
            let mut s = format!(".device ATtiny13\n.macro lm0\n{}.endm\n", ".set lm_v = 1\n.def lm_r = r16\n".repeat(150));
            for i in 1..=m {
                s.push_str(&format!(".macro lm{}\nlm{}\nlm{}\n.endm\n", i, i - 1, i - 1));
            }
            s.push_str(&format!("lm{}\nnop\n", m));
            s
        });
        // unary runs interleaved with function calls and parentheses (each run below the limit)
        probe(&mut cases, &mut meta, "unary-runs-between-function-calls", n, format!(".dw {}1{}\n", format!("{}low(", "-".repeat(50)).repeat(n.min(1200)), ")".repeat(n.min(1200))));
        probe(&mut cases, &mut meta, "unary-runs-between-parentheses", n, format!(".dw {}1{}\n", format!("{}(", "~".repeat(150)).repeat(n.min(400)), ")".repeat(n.min(400))));
        probe(&mut cases, &mut meta, "macro-nesting-chain", n, {
            let m = n.min(1500);
            let mut s = String::new();
            for i in 0..m {
                s.push_str(&format!(".macro m{}\nm{}\n.endm\n", i, i + 1));
            }
            s.push_str(&format!(".macro m{}\nnop\n.endm\nm0\n", m));
            s
        });
    }
    for p in [8u32, 12, 16, 20, 22, 23, 24, 28, 31, 32, 33, 40, 62, 63] {
        for delta in [-1i64, 0, 1] {
            let v: i128 = (1i128 << p) + delta as i128;
            if v > i64::MAX as i128 {
                continue;
            }
            let n = p as usize;
            probe(&mut cases, &mut meta, "org-magnitude-code", n, format!(".org {}\nnop\n", v));
            probe(&mut cases, &mut meta, "org-magnitude-eeprom", n, format!(".eseg\n.org {}\n.db 1\n", v));
            probe(&mut cases, &mut meta, "org-magnitude-data", n, format!(".dseg\n.org {}\n.byte 1\n", v));
            probe(&mut cases, &mut meta, "byte-magnitude-data", n, format!(".dseg\n.byte {}\n", v));
            probe(&mut cases, &mut meta, "byte-magnitude-eeprom", n, format!(".eseg\n.byte {}\n", v));
            probe(&mut cases, &mut meta, "negative-org", n, format!(".org -{}\nnop\n", v));
            probe(&mut cases, &mut meta, "negative-byte", n, format!(".dseg\n.byte -{}\n", v));
            probe(&mut cases, &mut meta, "org-then-device", n, format!(".device ATtiny13\n.org {}\nnop\n", v));
            // a position far beyond the device followed only by lines that occupy no space
            probe(&mut cases, &mut meta, "org-then-set-only", n, format!(".device ATtiny13\nnop\n.org {}\n.set version_v = 3\n", v));
            probe(&mut cases, &mut meta, "org-then-def-only", n, format!("nop\n.org {}\n.def tmp_r = r16\n", v));
            probe(&mut cases, &mut meta, "org-then-label-only", n, format!("nop\n.org {}\nend_l:\n", v));
            probe(&mut cases, &mut meta, "org-then-nothing", n, format!("nop\n.org {}\n", v));
            probe(&mut cases, &mut meta, "eeprom-org-then-set-only", n, format!(".eseg\n.db 1\n.org {}\n.set version_v = 3\n", v));
        }
    }
    // include nesting (real files): a self-including file and chains
    {
        let selfinc = scratch.path.join("selfinc.asm");
        std::fs::write(&selfinc, "nop\n.include \"selfinc.asm\"\n").ok();
        cases.push(Case { kind: b'F', text: selfinc.display().to_string() });
        meta.push(Meta { origin: "size-probe", head: String::new(), nops: 0, ctx: "none", probe: "self-including-file/n=0".into() });
        for n in [10usize, 100, 400] {
            for i in 0..n {
                let body = if i + 1 < n { format!("nop\n.include \"chain{}_{}.inc\"\n", n, i + 1) } else { "nop\n".to_string() };
                std::fs::write(scratch.path.join(format!("chain{}_{}.inc", n, i)), body).ok();
            }
            cases.push(Case { kind: b'F', text: scratch.path.join(format!("chain{}_0.inc", n)).display().to_string() });
            meta.push(Meta { origin: "size-probe", head: String::new(), nops: 0, ctx: "none", probe: format!("include-chain/n={}", n) });
        }
    }
    let n_probe = cases.len() - n_single - n_struct - n_dev_mem;

    // 3. E3 on the corpus: every single token deleted / duplicated / replaced by every dictionary entry
    let known = |m: &str| isa::known_mnemonic(m);
    for (pname, src) in corpus::programs() {
        let lines = lexer::lex(src, &known);
        for li in 0..lines.len() {
            for ti in 0..lines[li].toks.len() {
                let role = lines[li].toks[ti].role;
                if role == Role::Ws || role == Role::Comment {
                    continue;
                }
                let mut variants: Vec<(String, Option<String>)> = vec![("delete".into(), None), ("duplicate".into(), Some(format!("{} {}", lines[li].toks[ti].text, lines[li].toks[ti].text)))];
                for d in dict.iter() {
                    variants.push(("replace".into(), Some(d.to_string())));
                }
                for (vk, repl) in variants {
                    let mut l2 = lines.clone();
                    match repl {
                        None => {
                            l2[li].toks.remove(ti);
                        }
                        Some(t) => l2[li].toks[ti].text = t,
                    }
                    let head = lines[li].toks.iter().find(|t| matches!(t.role, Role::Mnemonic | Role::Directive | Role::MacroCall)).map(|t| t.text.clone()).unwrap_or_default();
                    cases.push(Case { kind: b'S', text: lexer::render(&l2, "\n") });
                    meta.push(Meta { origin: "corpus-token-mutation", head, nops: 0, ctx: "none", probe: format!("{}:{}:{}", pname, li + 1, vk) });
                }
            }
        }
    }
    // 3b. every byte position of every corpus program: deleted, and with every text of a
    //     hostile-character alphabet written over it / inserted before it (distance 1, exhaustive)
    let hostile: [&str; 30] = ["\"", "'", "\\", "(", ")", ",", ":", ";", ".", "#", "@", "/", "*", "-", "+", "0", "x", "$", "\t", "\n", "\r", "\0", "\u{e9}", "\u{2028}", "=", "<", "%", "!", "~", "r"];
    let mut n_bytemut = 0usize;
    for (pname, src) in corpus::programs() {
        let stride = 1usize;
        let idxs: Vec<usize> = src.char_indices().map(|(i, _)| i).collect();
        for (k, &i) in idxs.iter().enumerate().step_by(stride) {
            let end = idxs.get(k + 1).copied().unwrap_or(src.len());
            let head = String::new();
            let mut push_case = |text: String, vk: &str| {
                cases.push(Case { kind: b'S', text });
                meta.push(Meta { origin: "corpus-byte-mutation", head: head.clone(), nops: 0, ctx: "none", probe: format!("{}@{}:{}", pname, i, vk) });
                n_bytemut += 1;
            };
            push_case(format!("{}{}", &src[..i], &src[end..]), "delete");
            for h in hostile.iter() {
                push_case(format!("{}{}{}", &src[..i], h, &src[end..]), "overwrite");
                push_case(format!("{}{}{}", &src[..i], h, &src[i..]), "insert");
            }
        }
        // truncation at every position (an input that simply ends anywhere)
        for &i in idxs.iter() {
            cases.push(Case { kind: b'S', text: src[..i].to_string() });
            meta.push(Meta { origin: "corpus-byte-mutation", head: String::new(), nops: 0, ctx: "none", probe: format!("{}@{}:truncate", pname, i) });
            n_bytemut += 1;
        }
    }
    let n_mut = cases.len() - n_single - n_probe - n_bytemut - n_struct - n_dev_mem;

    // run everything in the sandbox
    let cache: Mutex<BTreeMap<String, Vec<String>>> = Mutex::new(BTreeMap::new());
    let hard_seen: Mutex<BTreeMap<&'static str, u64>> = Mutex::new(BTreeMap::new());
    let timeouts: Mutex<Vec<usize>> = Mutex::new(vec![]);
    let record = |i: usize, h: &Hard| {
        let m = &meta[i];
        let (kind, detail, site): (&'static str, String, String) = match h {
            Hard::Panic { site, msg } => ("panic", format!("panics at {}: {}", site, msg), format!("site={}/what={}", site_fn(site, &cache), blank_digits(msg))),
            Hard::Abort { signal, stderr_tail } => ("abort", format!("the process dies with signal {}: {}", signal, stderr_tail.trim()), String::new()),
            Hard::StackOverflow => ("stack-overflow", "the 8 MiB stack overflows".to_string(), String::new()),
            Hard::Oom { stderr_tail } => ("out-of-memory", format!("allocation beyond the 1 GiB limit: {}", stderr_tail.trim().lines().last().unwrap_or("")), String::new()),
            Hard::Timeout => ("timeout", "no result within the watchdog limit".to_string(), String::new()),
        };
        *hard_seen.lock().unwrap().entry(kind).or_insert(0) += 1;
        if std::env::var("VERIF_VERBOSE").is_ok() {
            eprintln!("[{:7.1}s] {} {} ctx={} head={} probe={}", rep.elapsed(), kind, m.origin, m.ctx, m.head, m.probe);
        }
        let shape = match m.origin {
            "size-probe" => format!("probe={}", m.probe.split("/n=").next().unwrap_or("")),
            "corpus-token-mutation" => format!("origin=corpus-token-mutation/head={}", m.head),
            "structural-sequence" => format!("origin=structural-sequence/first={}", m.head),
            "corpus-byte-mutation" => format!("origin=corpus-byte-mutation/how={}", m.probe.rsplit(':').next().unwrap_or("")),
            _ => format!("ctx={}/head={}", m.ctx, m.head),
        };
        let key = if site.is_empty() { format!("C16/{}/{}", kind, shape) } else { format!("C16/{}/{}/{}", kind, site, shape) };
        let text = &cases[i].text;
        rep.violation(&key, || format!("{} [{}{}]: {}", if text.len() > 120 { format!("{}…({} bytes)", &text[..120].replace('\n', "\\n"), text.len()) } else { text.replace('\n', "\\n") }, m.origin, if m.probe.is_empty() { String::new() } else { format!(" {}", m.probe) }, detail), || {
            json!({"kind": if cases[i].kind == b'F' { "build_file" } else { "build_str" }, "source": if text.len() > 70000 { format!("{}…", &text[..2000]) } else { text.clone() }, "source_len": text.len(), "expected": "ok or err within 5 s and 1 GiB", "observed": detail})
        });
    };
    let on_hard = |i: usize, h: Hard| {
        if h == Hard::Timeout {
            timeouts.lock().unwrap().push(i);
        } else {
            record(i, &h);
        }
    };
    let workers = std::thread::available_parallelism().map(|n| n.get()).unwrap_or(8);
    let counts = sandbox::run_cases(&cases, workers, Duration::from_secs(5), &on_hard);
    // a case that timed out in the loaded pool is re-run alone with 20 s before it is called a hang
    // (the first 32 of them, four at a time: when more time out the verdict no longer depends on
    // the rest, which are counted and left)
    let confirmed = AtomicU64::new(0);
    let to_confirm: Vec<usize> = {
        let mut t = timeouts.lock().unwrap().clone();
        t.sort();
        t.truncate(32);
        t
    };
    {
        let next = std::sync::atomic::AtomicUsize::new(0);
        std::thread::scope(|sc| {
            for _ in 0..4 {
                sc.spawn(|| loop {
                    let k = next.fetch_add(1, Ordering::Relaxed);
                    if k >= to_confirm.len() {
                        break;
                    }
                    let i = to_confirm[k];
                    if let Some(h) = sandbox::run_alone(&cases[i], Duration::from_secs(20)) {
                        if h == Hard::Timeout {
                            confirmed.fetch_add(1, Ordering::Relaxed);
                        }
                        record(i, &h);
                    }
                });
            }
        });
    }
    let confirmed_hangs = confirmed.load(Ordering::Relaxed);
    let timeouts_not_rechecked = timeouts.lock().unwrap().len() - to_confirm.len();
    // the size probes once more through the command-line tool as `cargo build` produces it (dev
    // profile: the largest stack frames; main thread: the 8 MiB a user gets), 1 GiB, 30 s of CPU
    if std::env::var("VERIF_VERBOSE").is_ok() {
        eprintln!("[{:7.1}s] sandbox pass done", rep.elapsed());
    }
    let n_cli = AtomicU64::new(0);
    let cli_bin = std::env::var("AVRA_BIN").ok().map(std::path::PathBuf::from).filter(|p| p.exists());
    if let Some(bin) = &cli_bin {
        use rayon::prelude::*;
        let idxs: Vec<usize> = (0..cases.len())
            .filter(|i| {
                // the probes about depth: nesting, chains, lists, cycles (the others exercise sizes
                // and arithmetic, which do not depend on the build profile)
                let p = &meta[*i].probe;
                meta[*i].origin == "size-probe" && cases[*i].kind == b'S' && !p.contains("doubling") && ["nest", "unary", "leaning", "precedence", "chain", "operand-list", "cyclic", "self-referring", "function"].iter().any(|k| p.contains(k))
            })
            .collect();
        idxs.par_iter().for_each(|i| {
            use std::os::unix::process::{CommandExt, ExitStatusExt};
            let f = scratch.path.join(format!("cli_probe_{}.asm", i));
            if std::fs::write(&f, &cases[*i].text).is_err() {
                return;
            }
            let mut cmd = std::process::Command::new(bin);
            cmd.arg("-s").arg(&f).arg("-o").arg(scratch.path.join(format!("cli_probe_{}.hex", i))).arg("-e").arg(scratch.path.join(format!("cli_probe_{}.eep", i)));
            cmd.stdin(std::process::Stdio::null()).stdout(std::process::Stdio::null()).stderr(std::process::Stdio::piped()).env("RUST_BACKTRACE", "0");
            unsafe {
                cmd.pre_exec(|| {
                    let mem = libc::rlimit { rlim_cur: 1 << 30, rlim_max: 1 << 30 };
                    libc::setrlimit(libc::RLIMIT_AS, &mem);
                    let cpu = libc::rlimit { rlim_cur: 30, rlim_max: 31 };
                    libc::setrlimit(libc::RLIMIT_CPU, &cpu);
                    let z = libc::rlimit { rlim_cur: 0, rlim_max: 0 };
                    libc::setrlimit(libc::RLIMIT_CORE, &z);
                    Ok(())
                });
            }
            let t0 = std::time::Instant::now();
            let out = match cmd.output() {
                Ok(o) => o,
                Err(e) => crate::report::machinery_fail(&format!("cannot run {:?}: {}", bin, e)),
            };
            if std::env::var("VERIF_VERBOSE").is_ok() && t0.elapsed().as_secs_f64() > 0.7 {
                eprintln!("[cli {:5.1}s] {}", t0.elapsed().as_secs_f64(), meta[*i].probe);
            }
            n_cli.fetch_add(1, Ordering::Relaxed);
            for ext in ["asm", "hex", "eep"] {
                let _ = std::fs::remove_file(scratch.path.join(format!("cli_probe_{}.{}", i, ext)));
            }
            let err = String::from_utf8_lossy(&out.stderr).to_string();
            let how: Option<String> = if let Some(sig) = out.status.signal() {
                Some(if err.contains("overflowed its stack") { "stack-overflow".to_string() } else if sig == libc::SIGXCPU || sig == libc::SIGKILL { "cpu-limit".to_string() } else { format!("signal-{}", sig) })
            } else if out.status.code() == Some(101) {
                Some("panic".to_string())
            } else if err.contains("memory allocation") {
                Some("out-of-memory".to_string())
            } else {
                None
            };
            if let Some(how) = how {
                let name = meta[*i].probe.split("/n=").next().unwrap_or("").to_string();
                let text = &cases[*i].text;
                rep.violation(&format!("C16/cli-dev-profile/{}/probe={}", how, name), || format!("the command-line tool (dev profile) on probe {} ({} bytes): {}; stderr: {}", meta[*i].probe, text.len(), how, err.lines().last().unwrap_or("")), || {
                    json!({"kind": "cli", "argv": ["-s", "probe.asm"], "files": {"probe.asm": if text.len() > 70000 { format!("{}…", &text[..2000]) } else { text.clone() }}, "expected": "exit status 0 or 1 within the limits", "observed": {"how": how, "stderr_tail": err.lines().last().unwrap_or("")}})
                });
            }
        });
    }
    if std::env::var("VERIF_VERBOSE").is_ok() {
        eprintln!("[{:7.1}s] cli pass done ({} runs)", rep.elapsed(), n_cli.load(Ordering::Relaxed));
    }
    rep.guard(counts.ok > 1000 && counts.err > 10000, "need both Ok and Err outcomes from the workers");
    rep.guard(n_single > 100_000, "fewer than 100k single-line programs");
    let origins: BTreeSet<&str> = meta.iter().map(|m| m.origin).collect();
    rep.guard(origins.len() >= 5, "not every case origin was generated");
    rep.sample(|| json!({"source": cases[n_single / 3].text, "origin": meta[n_single / 3].origin, "context": meta[n_single / 3].ctx}));
    rep.sample(|| json!({"source": cases[n_single / 2 + 7].text, "origin": meta[n_single / 2 + 7].origin, "context": meta[n_single / 2 + 7].ctx}));
    rep.sample(|| json!({"probe": meta[n_single + n_struct + 3].probe, "source_head": cases[n_single + n_struct + 3].text.chars().take(80).collect::<String>()}));
    rep.sample(|| json!({"corpus_byte_mutation": meta[cases.len() - 5].probe, "source": cases[cases.len() - 5].text}));
    rep.sample(|| json!({"corpus_token_mutation": meta[n_single + n_struct + n_probe + 5].probe, "source": cases[n_single + n_struct + n_probe + 5].text}));
    rep.assume("the quantifier's 'random multi-line programs and byte mutations up to 64 KiB' is sampling and is not claimed; it is replaced by the systematic token mutations and size probes");
    rep.assume("limits: 5 s per case (re-run alone with 20 s before a hang is reported), 1 GiB address space, 8 MiB stack (what a CLI user gets)");
    rep.assume("ok/err counts come from workers that finished their chunk; cases of a chunk whose worker died are still all executed (the worker is restarted after the failing case)");
    let distinct_texts = {
        use std::hash::{Hash, Hasher};
        let mut v: Vec<u64> = cases
            .iter()
            .map(|c| {
                let mut h = std::collections::hash_map::DefaultHasher::new();
                c.text.hash(&mut h);
                h.finish()
            })
            .collect();
        v.sort_unstable();
        v.dedup();
        v.len()
    };
    let coverage = cov(json!({
        "evaluations": cases.len(),
        "distinct_nontrivial": distinct_texts,
        "rule": "every single-line program head x operand list of length 0..2 (thorough 0..3, third operand from a reduced dictionary) over a 54-text dictionary of valid, boundary and hostile operands x 10 context prefixes (segments, reduced and Tiny1x devices, cyclic .equ, self- and mutually-calling macros, open .if 0 / .macro, definitions), heads = every mnemonic and every directive in both '.' and '#' spelling + unknown names; geometric size ladders (nesting depth of parentheses/unary/function chains, left/right-leaning operator chains, operand-list, line, label, string and number lengths, line counts, nested conditionals, .equ chains, macro and include nesting, .org/.byte magnitudes 2^8..2^63 +-1 and negative); every single token of every corpus program deleted, duplicated and replaced by every dictionary entry. Each case runs in a sandboxed worker. distinct_nontrivial = distinct source texts",
        "exhaustive": counts.skipped_after_cap == 0 && timeouts_not_rechecked == 0,
        "single_line_programs": n_single,
        "device_row_times_memory_programs": n_dev_mem,
        "size_probes": n_probe,
        "structural_line_sequences": n_struct,
        "corpus_token_mutations": n_mut,
        "corpus_byte_mutations": n_bytemut,
        "size_probes_through_the_dev_profile_cli": n_cli.load(Ordering::Relaxed),
        "worker_outcomes": {"ok": counts.ok, "err": counts.err, "hard_failures": counts.hard, "worker_restarts": counts.worker_restarts, "timeouts_rechecked": to_confirm.len(), "timeouts_not_rechecked_beyond_the_first_32": timeouts_not_rechecked, "confirmed_hangs": confirmed_hangs, "cases_not_run_after_the_cap_on_hard_failures": counts.skipped_after_cap},
        "hard_failure_kinds": *hard_seen.lock().unwrap(),
        "caps_hit": if counts.skipped_after_cap > 0 || timeouts_not_rechecked > 0 { json!([format!("stopped after {} hard failures: {} cases not run, {} timeouts not re-checked alone (violations are reported; the run is not exhaustive)", counts.hard, counts.skipped_after_cap, timeouts_not_rechecked)]) } else { json!([]) },
        "trusted_base": ["sandbox worker pool (RLIMIT_AS, explicit 8 MiB stack, watchdog)", "classification of a dead worker by exit signal and stderr tail"],
    }));
    drop(scratch);
    rep.finish(coverage)
}
