//! C01 — every valid instruction assembles to its exact AVR ISA machine code (E1, exhaustive).

use std::sync::atomic::{AtomicU64, Ordering};
use std::sync::Mutex;

use rayon::prelude::*;
use serde_json::json;

use crate::batch::{self, BCase, BatchResult};
use crate::icase::{self, ICase};
use crate::isa::{self, Core, Opnd};
use crate::report::{cov, machinery_fail, Report, Tier};
use crate::sut::{self, Outcome};

const BATCH: usize = 4096;
const BATCH_REDUCED: usize = 256; // must stay well below the flash of the reduced-core device
const REDUCED_PREFIX: &str = ".device ATtiny20\n";

struct Stats {
    cases: AtomicU64,
    batches: AtomicU64,
    localised: AtomicU64,
    encodings: Mutex<Vec<u32>>,
}

fn record_failure(rep: &Report, core: Core, prefix: &str, c: &ICase, expect: &[u8], o: &Outcome) {
    let corename = if core == Core::Full { "full" } else { "reduced" };
    let kind = match o {
        Outcome::Ok(_) => "wrong-encoding",
        Outcome::Err(_) => "rejected",
        Outcome::Panic { .. } => "panic",
    };
    let mut key = format!("C01/{}/core={}/mnem={}/nops={}", kind, corename, c.mnem, c.ops.len());
    if prefix != REDUCED_PREFIX {
        if let Some(d) = prefix.strip_prefix(".device ") {
            key.push_str(&format!("/device={}", d.trim()));
        }
    }
    rep.violation(
        &key,
        || {
            let got = match o {
                Outcome::Ok(b) => format!("assembles to {} = `{}`", sut::hex(&b.code), icase::describe(core, &b.code)),
                Outcome::Err(e) => format!("is rejected: {}", e),
                Outcome::Panic { site, msg } => format!("panics at {}: {}", site, msg),
            };
            format!("`{}` must assemble to {} but {}", c.text(), sut::hex(expect), got)
        },
        || {
            json!({"kind": "build_str", "source": format!("{}{}\n", prefix, c.text()),
                   "expected": {"result": "ok", "code": sut::hex(expect)}, "observed": o.to_json()})
        },
    );
}

fn run_cases(rep: &Report, core: Core, prefix: &str, cases: &[ICase], stats: &Stats) {
    let mut bcases = Vec::with_capacity(cases.len());
    let mut encs = Vec::with_capacity(cases.len());
    for c in cases {
        let words = isa::encode(core, c.mnem, &c.ops)
            .unwrap_or_else(|| machinery_fail(&format!("C01 generated a case the reference cannot encode: {:?}", c)));
        // oracle (2): the independent decoder gives back what was written (reference-side identity)
        let d = isa::decode(core, words[0], words.get(1).copied());
        let (cm, cops) = isa::canonical(c.mnem, &c.ops);
        match d {
            Some(d) if d.mnem == cm && d.ops == cops && d.len == words.len() => {}
            other => machinery_fail(&format!(
                "reference decoder disagrees with reference encoder on {:?}: {:?} vs {} {:?}",
                c, other, cm, cops
            )),
        }
        encs.push(words[0] as u32 | (*words.get(1).unwrap_or(&0) as u32) << 16 | if words.len() == 2 { 0 } else { 0 });
        bcases.push(BCase { text: c.text(), expect: isa::words_to_bytes(&words) });
    }
    stats.cases.fetch_add(cases.len() as u64, Ordering::Relaxed);
    stats.batches.fetch_add(1, Ordering::Relaxed);
    stats.encodings.lock().unwrap().extend(encs);
    match batch::run_batch(prefix, &bcases) {
        BatchResult::AllOk => {}
        BatchResult::Failures(f) => {
            stats.localised.fetch_add(1, Ordering::Relaxed);
            for (i, o) in f {
                record_failure(rep, core, prefix, &cases[i], &bcases[i].expect, &o);
            }
        }
        BatchResult::ContextDependent(pos, out) => {
            let lo = pos.saturating_sub(2);
            let hi = (pos + 2).min(cases.len());
            let key = format!("C01/context-dependent/mnem={}", cases[pos].mnem);
            rep.violation(
                &key,
                || {
                    format!(
                        "`{}` assembles correctly alone but not inside a program (position {} of a packed batch; neighbours: {:?})",
                        cases[pos].text(),
                        pos,
                        cases[lo..hi].iter().map(|c| c.text()).collect::<Vec<_>>()
                    )
                },
                || json!({"kind": "build_str", "source": batch::program(prefix, &bcases), "observed": out.to_json(),
                          "expected": {"result":"ok","code_is":"concatenation of the per-line reference encodings"}}),
            );
        }
    }
}

pub fn run(tier: Tier) -> i32 {
    let rep = Report::new("C01", tier, "exploration");
    let sc = isa::self_check().unwrap_or_else(|e| machinery_fail(&format!("ISA reference self-check failed: {}", e)));
    let stats = Stats {
        cases: AtomicU64::new(0),
        batches: AtomicU64::new(0),
        localised: AtomicU64::new(0),
        encodings: Mutex::new(vec![]),
    };

    // 1. the small spaces, in enumeration order (class boundaries fall inside batches)
    let small = icase::small_cases_full();
    let n_small = small.len();
    small.par_chunks(BATCH).for_each(|ch| run_cases(&rep, Core::Full, "", ch, &stats));

    // 2. the four big address spaces, completely
    let nb = (icase::BIG_TOTAL as usize + BATCH - 1) / BATCH;
    (0..nb).into_par_iter().for_each(|b| {
        let lo = (b * BATCH) as u64;
        let hi = (lo + BATCH as u64).min(icase::BIG_TOTAL);
        let cases: Vec<ICase> = (lo..hi).map(icase::big_case).collect();
        run_cases(&rep, Core::Full, "", &cases, &stats);
    });

    // 3. the reduced core
    let red = icase::reduced_cases();
    let n_red = red.len();
    red.par_chunks(BATCH_REDUCED)
        .for_each(|ch| run_cases(&rep, Core::Reduced, REDUCED_PREFIX, ch, &stats));

    let distinct_single = {
        let mut e = stats.encodings.lock().unwrap();
        let v = std::mem::take(&mut *e);
        crate::report::distinct(v)
    };

    // 4. adjacency: every ordered pair (thorough: triple) of mnemonic classes next to each other
    let mut by_mnem: Vec<Vec<&ICase>> = vec![];
    {
        let mut index: std::collections::HashMap<&str, usize> = std::collections::HashMap::new();
        for c in small.iter() {
            let i = *index.entry(c.mnem).or_insert_with(|| {
                by_mnem.push(vec![]);
                by_mnem.len() - 1
            });
            by_mnem[i].push(c);
        }
    }
    let big_reps: Vec<ICase> = vec![
        icase::big_case(0x12345),
        icase::big_case((1 << 22) + 0x3f_fffe),
        icase::big_case((2 << 22) + (17 << 16) + 0xabcd),
        icase::big_case((2 << 22) + (1 << 21) + (31 << 16) + 0x0060),
    ];
    let mut classes: Vec<Vec<&ICase>> = by_mnem;
    for c in big_reps.iter() {
        classes.push(vec![c]);
    }
    let ncls = classes.len();
    let pick = |cls: usize, salt: usize| -> ICase {
        let v = &classes[cls];
        (*v[(salt.wrapping_mul(2654435761)) % v.len()]).clone()
    };
    let mut seqs: Vec<ICase> = vec![];
    for i in 0..ncls {
        for j in 0..ncls {
            seqs.push(pick(i, i * ncls + j));
            seqs.push(pick(j, j * ncls + i + 7));
        }
    }
    let n_pairs = ncls * ncls;
    let mut n_triples = 0usize;
    seqs.par_chunks(BATCH).for_each(|ch| run_cases(&rep, Core::Full, "", ch, &stats));
    if tier.thorough() {
        n_triples = ncls * ncls * ncls;
        (0..ncls * ncls).into_par_iter().for_each(|ij| {
            let (i, j) = (ij / ncls, ij % ncls);
            let mut v = Vec::with_capacity(ncls * 3);
            for k in 0..ncls {
                v.push(pick(i, ij + k));
                v.push(pick(j, ij * 3 + k + 1));
                v.push(pick(k, ij * 5 + k + 2));
            }
            run_cases(&rep, Core::Full, "", &v, &stats);
        });
    }
    stats.encodings.lock().unwrap().clear();

    // 5. operands that are labels: the instruction lengths of this property (two words for
    //    jmp/call and for lds/sts on cores with the 32-bit form, one on the reduced core) must be
    //    the same in the layout pass and in the encoder, or every label after such an instruction
    //    is off and the instruction naming it gets a wrong field
    let mut n_label_programs = 0usize;
    for (core, prefix, two_word) in [(Core::Full, "", vec!["jmp 0x1234", "call 0x2345", "lds r16, 0x0160", "sts 0x0161, r17"]), (Core::Reduced, REDUCED_PREFIX, vec!["lds r16, 0x60", "sts 0x61, r17"])] {
        let one_word = ["nop", "ldi r18, 7", "inc r19"];
        let mut items: Vec<(&str, Vec<u16>)> = vec![];
        for t in two_word.iter().chain(one_word.iter()) {
            let mut parts = t.splitn(2, ' ');
            let m = parts.next().unwrap();
            let ops: Vec<Opnd> = parts
                .next()
                .map(|r| {
                    r.split(',')
                        .map(|o| {
                            let o = o.trim();
                            if let Some(n) = o.strip_prefix('r') {
                                Opnd::Reg(n.parse().unwrap())
                            } else if let Some(h) = o.strip_prefix("0x") {
                                Opnd::Imm(i64::from_str_radix(h, 16).unwrap())
                            } else {
                                Opnd::Imm(o.parse().unwrap())
                            }
                        })
                        .collect()
                })
                .unwrap_or_default();
            let w = isa::encode(core, m, &ops).unwrap_or_else(|| machinery_fail(&format!("label pass: reference rejects {}", t)));
            items.push((t, w));
        }
        // every ordered triple of items, each labelled; then rjmp / ldi naming each label
        let n = items.len();
        for a in 0..n {
            for b in 0..n {
                for c in 0..n {
                    let seq = [a, b, c];
                    let mut src = String::from(prefix);
                    let mut words: Vec<u16> = vec![];
                    let mut addr = vec![];
                    for (i, it) in seq.iter().enumerate() {
                        addr.push(words.len() as i64);
                        src.push_str(&format!("lab{}: {}\n", i, items[*it].0));
                        words.extend(items[*it].1.iter());
                    }
                    for (i, la) in addr.iter().enumerate() {
                        let here = words.len() as i64;
                        src.push_str(&format!("rjmp lab{}\nldi r20, lab{}\n", i, i));
                        words.extend(isa::encode(core, "rjmp", &[Opnd::Imm(la - (here + 1))]).unwrap());
                        words.extend(isa::encode(core, "ldi", &[Opnd::Reg(20), Opnd::Imm(*la)]).unwrap());
                    }
                    let want = isa::words_to_bytes(&words);
                    let o = sut::build_str(&src);
                    n_label_programs += 1;
                    stats.cases.fetch_add(1, Ordering::Relaxed);
                    let ok = matches!(&o, Outcome::Ok(bu) if bu.code == want);
                    if !ok {
                        let key = format!("C01/label-operand/core={}/after={}", if core == Core::Full { "full" } else { "reduced" }, items[a].0.split(' ').next().unwrap());
                        rep.violation(&key, || format!("labels after `{}` / `{}` / `{}`: the instructions naming them must assemble to {} but {}", items[a].0, items[b].0, items[c].0, sut::hex(&want), match &o { Outcome::Ok(bu) => format!("the image is {}", sut::hex(&bu.code)), other => format!("{}", other.to_json()) }), || json!({"kind": "build_str", "source": src, "expected": {"result": "ok", "code": sut::hex(&want)}, "observed": o.to_json()}));
                    }
                }
            }
        }
    }

    // 5b. operands that are variables of the data segment and of the EEPROM: blocks placed with
    //     .org and blocks that continue an earlier one, used by lds / sts / ldi low() high()
    let mut n_data_labels = 0usize;
    for (core, prefix, ram0) in [(Core::Full, "", 0x60i64), (Core::Reduced, REDUCED_PREFIX, 0x40)] {
        for org in [ram0 + 0x10, ram0 + 0x21] {
            for first in [1i64, 16, 3] {
                for code_between in [0usize, 1, 3] {
                    let a_buf = org;
                    let a_flags = org + first;
                    let a_last = a_flags + 2;
                    let src = format!(
                        "{}.dseg\n.org {}\nbuf_q: .byte {}\n.cseg\n{}.dseg\nflags_q: .byte 2\n.cseg\n{}.dseg\nlast_q: .byte 1\n{}.cseg\nlds r16, flags_q\nsts buf_q, r17\nlds r18, last_q\nldi r19, low(flags_q)\nldi r20, high(last_q)\nldi r21, ee_q\nldi r22, ee2_q\n",
                        prefix, org, first, "nop\n".repeat(code_between), "nop\n".repeat(code_between),
                        // (the reduced-core device has no EEPROM: constants stand in there)
                        if core == Core::Full { ".eseg\n.org 5\nee_q: .db 1, 2\n.cseg\n.eseg\nee2_q: .db 3\n" } else { ".equ ee_q = 5\n.equ ee2_q = 7\n" }
                    );
                    let mut words: Vec<u16> = vec![0; 2 * code_between];
                    let enc = |m: &str, o: &[Opnd]| isa::encode(core, m, o).unwrap_or_else(|| machinery_fail(&format!("data-label pass: reference rejects {} {:?}", m, o)));
                    words.extend(enc("lds", &[Opnd::Reg(16), Opnd::Imm(a_flags)]));
                    words.extend(enc("sts", &[Opnd::Imm(a_buf), Opnd::Reg(17)]));
                    words.extend(enc("lds", &[Opnd::Reg(18), Opnd::Imm(a_last)]));
                    words.extend(enc("ldi", &[Opnd::Reg(19), Opnd::Imm(a_flags & 0xff)]));
                    words.extend(enc("ldi", &[Opnd::Reg(20), Opnd::Imm((a_last >> 8) & 0xff)]));
                    words.extend(enc("ldi", &[Opnd::Reg(21), Opnd::Imm(5)]));
                    words.extend(enc("ldi", &[Opnd::Reg(22), Opnd::Imm(7)]));
                    let want = isa::words_to_bytes(&words);
                    let o = sut::build_str(&src);
                    n_data_labels += 1;
                    stats.cases.fetch_add(1, Ordering::Relaxed);
                    if !matches!(&o, Outcome::Ok(bu) if bu.code == want) {
                        rep.violation(&format!("C01/data-label-operand/core={}", if core == Core::Full { "full" } else { "reduced" }), || format!("variables of a positioned and of a continued data block as operands: the code must be {} but {}", sut::hex(&want), o.brief()), || json!({"kind": "build_str", "source": src, "expected": {"result": "ok", "code": sut::hex(&want)}, "observed": o.to_json()}));
                    }
                }
            }
        }
    }
    // 6. pc-relative operands directly behind in-code data: `pc` is the address of the
    //    instruction itself, whatever precedes it
    let mut n_pc_after_data = 0usize;
    {
        let datas: [(&str, Vec<u8>); 8] = [
            // (strings are emitted as their UTF-8 bytes, padded to a whole word)
            (".db \"\u{b0}\"", vec![0xc2, 0xb0]),
            (".db \"\u{b5}s\"", vec![0xc2, 0xb5, b's', 0]),
            (".dw 0x1111", vec![0x11, 0x11]),
            (".db 1, 2, 3", vec![1, 2, 3, 0]),
            (".db \"a\"", vec![b'a', 0]),
            (".dd 0x01020304", vec![4, 3, 2, 1]),
            (".dq 0x0102030405060708", vec![8, 7, 6, 5, 4, 3, 2, 1]),
            (".dw 1, 2, 3", vec![1, 0, 2, 0, 3, 0]),
        ];
        let rels: Vec<ICase> = small.iter().filter(|c| icase::is_relative(c.mnem)).filter(|c| matches!(c.ops.last(), Some(Opnd::Imm(d)) if [-64i64, -2, -1, 0, 1, 63, -2048, 2047].contains(d))).cloned().collect();
        for (dt, db) in datas.iter() {
            for c in rels.iter() {
                for lead in [0usize, 1, 3] {
                    let mut src = String::new();
                    let mut want: Vec<u8> = vec![];
                    for _ in 0..lead {
                        src.push_str("nop\n");
                        want.extend([0, 0]);
                    }
                    src.push_str(dt);
                    src.push('\n');
                    want.extend(db.iter());
                    src.push_str(&c.text());
                    src.push('\n');
                    want.extend(icase::expect_bytes(Core::Full, c).unwrap());
                    src.push_str(&c.text());
                    src.push_str("\nnop\n");
                    want.extend(icase::expect_bytes(Core::Full, c).unwrap());
                    want.extend([0, 0]);
                    let o = sut::build_str(&src);
                    n_pc_after_data += 1;
                    stats.cases.fetch_add(1, Ordering::Relaxed);
                    if !matches!(&o, Outcome::Ok(bu) if bu.code == want) {
                        rep.violation(&format!("C01/pc-operand-after-data/mnem={}/data={}", c.mnem, dt.split(' ').next().unwrap()), || format!("`{}` directly after `{}` must assemble to {} but {}", c.text(), dt, sut::hex(&want), o.to_json()), || json!({"kind": "build_str", "source": src, "expected": {"result": "ok", "code": sut::hex(&want)}, "observed": o.to_json()}));
                    }
                }
            }
        }
    }
    // 7. one large program whose operands are constants defined by expressions: the
    //    encoding of an instruction does not depend on how many were assembled before it
    let n_large;
    {
        let mut src = String::from(".equ e_one = 1 + 1\n.equ e_two = e_one * 2\n.equ e_three = e_two + e_one\n");
        let mut want: Vec<u8> = vec![];
        let lines = if tier.thorough() { 120_000 } else { 40_000 };
        let a = isa::words_to_bytes(&isa::encode(Core::Full, "cpi", &[Opnd::Reg(16), Opnd::Imm(6)]).unwrap());
        let b = isa::words_to_bytes(&isa::encode(Core::Full, "ldi", &[Opnd::Reg(17), Opnd::Imm(4)]).unwrap());
        for i in 0..lines {
            if i % 2 == 0 {
                src.push_str("cpi r16, e_three\n");
                want.extend(a.iter());
            } else {
                src.push_str("ldi r17, low(e_two)\n");
                want.extend(b.iter());
            }
        }
        n_large = lines;
        let o = sut::build_str(&src);
        stats.cases.fetch_add(lines as u64, Ordering::Relaxed);
        if !matches!(&o, Outcome::Ok(bu) if bu.code == want) {
            let detail = match &o {
                Outcome::Ok(bu) => format!("the image differs (first difference at byte {})", bu.code.iter().zip(want.iter()).position(|(x, y)| x != y).unwrap_or(bu.code.len().min(want.len()))),
                other => format!("{}", other.to_json()),
            };
            rep.violation("C01/large-symbolic-program", || format!("{} alternating `cpi r16, e_three` / `ldi r17, low(e_two)` lines (constants defined by expressions) must assemble line by line, but {}", lines, detail), || json!({"kind": "build_str", "source": format!("{}… ({} lines in all)", &src[..300], lines + 3), "observed": detail}));
        }
    }

    // 8. configurations: the same words on every class of device that has the instruction. One
    //    device per distinct set of feature flags (the one with the largest flash); every small
    //    case that no flag of the row removes (devspec of C13) must assemble to the ISA word there
    //    too - lds/sts in their one-word form on rows flagged Avr8l
    let mut n_dev_classes = 0usize;
    let n_dev_cases = AtomicU64::new(0);
    {
        let mut by_flags: std::collections::BTreeMap<Vec<String>, sut::DeviceRow> = std::collections::BTreeMap::new();
        for d in sut::devices() {
            let k: Vec<String> = d.flags.iter().cloned().collect();
            match by_flags.get(&k) {
                Some(o) if o.flash_words >= d.flash_words => {}
                _ => {
                    by_flags.insert(k, d);
                }
            }
        }
        n_dev_classes = by_flags.len();
        // thorough: every row of the table
        let rows: Vec<sut::DeviceRow> = if tier.thorough() { sut::devices() } else { by_flags.into_values().collect() };
        let work: Vec<(&sut::DeviceRow, Vec<ICase>)> = rows
            .iter()
            .flat_map(|d| {
                let core = if d.flags.contains("Avr8l") { Core::Reduced } else { Core::Full };
                let mut mine: Vec<ICase> = small.iter().filter(|c| super::c13::removed_by_case(c, &d.flags).is_none() && isa::encode(core, c.mnem, &c.ops).is_some()).cloned().collect();
                if core == Core::Reduced {
                    mine.extend(red.iter().step_by(7).cloned());
                } else if !d.flags.contains("Tiny1x") {
                    mine.extend((0..64u64).map(|i| icase::big_case((2 << 22) + i * 0x10_0fd % (1 << 22))));
                }
                let per = ((d.flash_words / 4) as usize).clamp(32, 2048);
                mine.chunks(per).map(|ch| (d, ch.to_vec())).collect::<Vec<_>>()
            })
            .collect();
        work.par_iter().for_each(|(d, ch)| {
            let core = if d.flags.contains("Avr8l") { Core::Reduced } else { Core::Full };
            n_dev_cases.fetch_add(ch.len() as u64, Ordering::Relaxed);
            run_cases(&rep, core, &format!(".device {}\n", d.name), ch, &stats);
        });
    }
    rep.guard(n_dev_classes >= 8, "fewer than 8 distinct device classes");

    // 8b. twin lines: two lines of one program that differ only in the letter case of a
    //     character literal (the one place of an instruction line where case carries meaning),
    //     in both orders, repeated, at top level and in the body of a macro that is called twice
    let mut n_twins = 0usize;
    for mn in ["ldi", "cpi", "subi", "sbci", "andi", "ori"] {
        for (lo, up) in [('a', 'A'), ('z', 'Z'), ('q', 'Q'), ('x', 'X')] {
            for reg in [16i64, 31] {
                let line = |ch: char, spaced: bool| if spaced { format!("{} r{}, '{}'", mn, reg, ch) } else { format!("{} r{},'{}'", mn, reg, ch) };
                let word = |ch: char| isa::words_to_bytes(&isa::encode(Core::Full, mn, &[Opnd::Reg(reg), Opnd::Imm(ch as i64)]).unwrap());
                for order in [[lo, up, lo, up], [up, lo, lo, up], [lo, lo, up, up], [up, up, lo, lo]] {
                    for spaced in [true, false] {
                        for in_macro in [false, true] {
                            let mut body = String::new();
                            let mut want: Vec<u8> = vec![];
                            for ch in order {
                                body.push_str(&line(ch, spaced));
                                body.push('\n');
                                want.extend(word(ch));
                            }
                            let src = if in_macro {
                                want = [want.clone(), want].concat();
                                format!(".macro twin_m\n{}.endm\ntwin_m\ntwin_m\n", body)
                            } else {
                                body
                            };
                            let o = sut::build_str(&src);
                            n_twins += 1;
                            stats.cases.fetch_add(4, Ordering::Relaxed);
                            if !matches!(&o, Outcome::Ok(b) if b.code == want) {
                                rep.violation(&format!("C01/twin-lines/mnem={}/in-macro={}", mn, in_macro), || format!("lines that differ only in the case of a character literal (`{}` / `{}`) must assemble to {} but {}", line(lo, spaced), line(up, spaced), sut::hex(&want), o.brief()), || json!({"kind": "build_str", "source": src, "expected": {"result": "ok", "code": sut::hex(&want)}, "observed": o.to_json()}));
                            }
                        }
                    }
                }
            }
        }
    }

    // 9. surroundings: the word of an instruction does not depend on where the line stands - in
    //    the body of a called macro (with and without unused parameters, called twice), in the
    //    selected arm of a conditional (the other arms hold other instructions), behind data,
    //    RAM and EEPROM segments, behind an `.org`, in an included file, in a macro that an
    //    included file defines. Every small case in every surrounding (the reduced core too).
    let n_ctx_cases = AtomicU64::new(0);
    let ctx_names = ["macro-body", "macro-body-called-twice", "selected-arm", "elif-arm-nested", "behind-other-segments", "behind-org", "included-file", "macro-from-included-file", "macro-in-arm-in-macro"];
    {
        let scratch = crate::report::Scratch::new("c01");
        let n_file = AtomicU64::new(0);
        let per = 256usize;
        let sets: Vec<(Core, &str, Vec<ICase>)> = vec![(Core::Full, "", small.clone()), (Core::Reduced, REDUCED_PREFIX, red.clone())];
        for (core, prefix, set) in sets.iter() {
            let chunks: Vec<(usize, &[ICase])> = set.chunks(per).enumerate().collect();
            chunks.par_iter().for_each(|(ci, ch)| {
                let mut body = String::new();
                let mut want: Vec<u8> = vec![];
                for c in ch.iter() {
                    body.push_str(&c.text());
                    body.push('\n');
                    want.extend(icase::expect_bytes(*core, c).unwrap());
                }
                // relative operands are written pc-relative, so the bytes do not depend on the address
                for (k, name) in ctx_names.iter().enumerate() {
                    // one surrounding per chunk in the quick tier (rotating), all in the thorough tier
                    if !tier.thorough() && (ci + k) % 3 != 0 {
                        continue;
                    }
                    let mut expect = want.clone();
                    let mut files: Vec<(String, String)> = vec![];
                    let src = match *name {
                        "macro-body" => format!("{}.macro ctx_m\n{}.endm\nctx_m\n", prefix, body),
                        "macro-body-called-twice" => {
                            expect.extend(want.iter());
                            format!("{}.macro ctx_m\n{}.endm\nctx_m 1, r2\nctx_m 3, 4\n", prefix, body)
                        }
                        "selected-arm" => format!("{}.equ ctx_one = 1\n.if ctx_one == 1\n{}.else\nnop\nldi r16, 1\n.endif\n", prefix, body),
                        "elif-arm-nested" => format!("{}.ifndef ctx_nothing\n.if 0\nnop\n.elif 2 > 1\n{}.else\ninc r1\n.endif\n.else\nnop\n.endif\n", prefix, body),
                        "behind-other-segments" => {
                            if *core == Core::Full {
                                format!("{}.dseg\nctx_v: .byte 3\n.eseg\nctx_e: .db 1, 2, 3\n.cseg\n{}", prefix, body)
                            } else {
                                format!("{}.dseg\nctx_v: .byte 3\n.cseg\n{}", prefix, body)
                            }
                        }
                        "behind-org" => {
                            let mut e = vec![0u8; 2 * 5];
                            e[0] = 0; // nop at word 0, gap zero-filled up to word 5
                            e.extend(want.iter());
                            expect = e;
                            format!("{}nop\n.org 5\n{}", prefix, body)
                        }
                        "included-file" => {
                            files.push(("ctx_part.inc".into(), body.clone()));
                            format!("{}.include \"ctx_part.inc\"\n", prefix)
                        }
                        "macro-from-included-file" => {
                            files.push(("ctx_part.inc".into(), format!(".macro ctx_m\n{}.endm\n", body)));
                            format!("{}.include \"ctx_part.inc\"\nctx_m\n", prefix)
                        }
                        "macro-in-arm-in-macro" => format!("{}.macro ctx_inner\n{}.endm\n.macro ctx_outer\n.if @0\nctx_inner\n.else\nnop\n.endif\n.endm\nctx_outer 1\n", prefix, body),
                        _ => unreachable!(),
                    };
                    let with_eeprom = *name == "behind-other-segments" && *core == Core::Full;
                    let o = if files.is_empty() {
                        sut::build_str(&src)
                    } else {
                        let d = scratch.path.join(format!("t{}", n_file.fetch_add(1, Ordering::Relaxed)));
                        std::fs::create_dir_all(&d).unwrap_or_else(|e| machinery_fail(&format!("C01 scratch: {}", e)));
                        for (n, t) in files.iter() {
                            std::fs::write(d.join(n), t).unwrap_or_else(|e| machinery_fail(&format!("C01 scratch: {}", e)));
                        }
                        std::fs::write(d.join("main.asm"), &src).unwrap_or_else(|e| machinery_fail(&format!("C01 scratch: {}", e)));
                        let o = sut::build_file(d.join("main.asm"), std::collections::BTreeSet::new());
                        let _ = std::fs::remove_dir_all(&d);
                        o
                    };
                    n_ctx_cases.fetch_add(ch.len() as u64, Ordering::Relaxed);
                    stats.cases.fetch_add(ch.len() as u64, Ordering::Relaxed);
                    let good = matches!(&o, Outcome::Ok(b) if b.code == expect && (b.eeprom.is_empty() != with_eeprom));
                    if good {
                        continue;
                    }
                    // localise: the first line whose word differs (or the build's failure)
                    let what = match &o {
                        Outcome::Ok(b) => {
                            let off = expect.len() - want.len().min(expect.len());
                            let mut pos = if *name == "behind-org" { off } else { 0 };
                            let mut first: Option<&ICase> = None;
                            for c in ch.iter().chain(ch.iter()) {
                                let w = icase::expect_bytes(*core, c).unwrap();
                                if pos + w.len() > b.code.len() || b.code[pos..pos + w.len()] != w[..] {
                                    first = Some(c);
                                    break;
                                }
                                pos += w.len();
                                if pos >= expect.len() {
                                    break;
                                }
                            }
                            match first {
                                Some(c) => (c.mnem.to_string(), format!("`{}` does not assemble to its word there (byte offset {})", c.text(), pos)),
                                None => ("-".to_string(), format!("the images differ in length or in the EEPROM ({} code bytes for {}, {} EEPROM bytes)", b.code.len(), expect.len(), b.eeprom.len())),
                            }
                        }
                        other => (ch[0].mnem.to_string(), format!("the build fails: {}", other.brief())),
                    };
                    let mut files_json = serde_json::Map::new();
                    let mut pasted = src.clone();
                    for (n, t) in files.iter() {
                        files_json.insert(n.clone(), json!(t));
                        pasted = pasted.replace(&format!(".include \"{}\"\n", n), t);
                    }
                    if !files.is_empty() {
                        files_json.insert("main.asm".into(), json!(src));
                    }
                    rep.violation(
                        &format!("C01/surrounding={}/core={}/mnem={}", name, if *core == Core::Full { "full" } else { "reduced" }, what.0),
                        || format!("{} instruction lines that assemble correctly on their own, placed in the surrounding `{}`: {}", ch.len(), name, what.1),
                        || json!({"kind": if files.is_empty() { "build_str" } else { "file_tree" }, "source": src, "files": files_json, "main": "main.asm", "pasted_program": pasted, "expected": {"result": "ok", "code": sut::hex_trunc(&expect, 64)}, "observed": o.to_json()}),
                    );
                }
            });
        }
    }
    rep.guard(n_ctx_cases.load(Ordering::Relaxed) > 100_000, "fewer than 100000 instruction lines were placed in surroundings");

    let total = stats.cases.load(Ordering::Relaxed);
    rep.guard(n_small > 90_000, "small operand spaces shrank");
    rep.guard(ncls >= 110 && ncls <= 130, "unexpected number of mnemonic classes");
    rep.guard(distinct_single > 12_000_000, "fewer than 12M distinct encodings");
    for i in [0usize, n_small / 3, n_small - 1] {
        let c = &small[i];
        rep.sample(|| json!({"source": c.text(), "expected_code": sut::hex(&icase::expect_bytes(Core::Full, c).unwrap())}));
    }
    rep.sample(|| {
        let c = icase::big_case((2 << 22) + (17 << 16) + 0xabcd);
        json!({"source": c.text(), "expected_code": sut::hex(&icase::expect_bytes(Core::Full, &c).unwrap())})
    });
    rep.sample(|| {
        let c = &red[5];
        json!({"source": format!("{}{}", REDUCED_PREFIX, c.text()), "expected_code": sut::hex(&icase::expect_bytes(Core::Reduced, c).unwrap())})
    });
    rep.assume("operands are written in the tool's canonical spelling (r5, Z+3, decimal, pc-relative targets); spelling variation is C14's business");
    rep.assume("reference = encoder+decoder written from the AVR Instruction Set Manual, cross-validated over all 2^16 first words and the byte vectors pinned in the repository's tests");
    let coverage = cov(json!({
        "evaluations": total,
        "distinct_nontrivial": distinct_single,
        "rule": "every legal operand tuple of every mnemonic (full core: all small spaces + lds/sts 32x2^16 + jmp/call 2^22; reduced core: lds/sts 16x128), packed 4096 per program and localised one-per-build on any mismatch; distinct_nontrivial = distinct reference encodings among the single-instruction cases (every case emits >= 1 word, so all are non-trivial)",
        "exhaustive": true,
        "space": {"small_full_core": n_small, "big_full_core": icase::BIG_TOTAL, "reduced_core": n_red,
                  "adjacent_class_pairs": n_pairs, "adjacent_class_triples": n_triples, "mnemonic_classes": ncls, "label_operand_programs": n_label_programs, "data_label_operand_programs": n_data_labels, "pc_operand_after_data_programs": n_pc_after_data, "lines_of_the_large_symbolic_program": n_large,
                  "twin_line_programs": n_twins, "surroundings": ctx_names.len(), "cases_in_a_surrounding": n_ctx_cases.load(Ordering::Relaxed), "device_classes": n_dev_classes, "cases_under_a_selected_device": n_dev_cases.load(Ordering::Relaxed)},
        "batches": stats.batches.load(Ordering::Relaxed),
        "batches_localised_one_per_build": stats.localised.load(Ordering::Relaxed),
        "reference_self_check": {"first_words_decoded": sc.decoded_first_words, "first_words_unknown": sc.unknown_first_words, "roundtrips": sc.roundtrips},
        "caps_hit": [],
        "trusted_base": ["harness isa::encode / isa::decode (self-checked)", "batch packing with one-per-build localisation"],
    }));
    rep.finish(coverage)
}
