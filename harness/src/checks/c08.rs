//! C08 — conditional assembly assembles exactly the selected branch (E2).
//!
//! Reference model: the conditional-assembly stack machine of DESIGN.md appendix C.

use std::collections::{BTreeMap, BTreeSet};
use std::sync::atomic::{AtomicU64, Ordering};
use std::sync::Mutex;

use serde_json::json;

use crate::isa::{self, Core, Opnd};
use crate::mc::{self, RefModel};
use crate::report::{cov, machinery_fail, Report, Tier};
use crate::sut::{self, Outcome};

#[derive(Clone, Copy, PartialEq, Eq, Hash, Debug)]
pub struct Frame {
    parent: bool,
    taken: bool,
    active: bool,
    else_seen: bool,
}

#[derive(Clone, PartialEq, Eq, Hash, Debug)]
pub struct St {
    stack: Vec<Frame>,
    /// an assembled `.exit` ended the file: nothing after it is looked at
    exited: bool,
}

#[derive(Clone, Copy, PartialEq, Eq, Hash, Debug, PartialOrd, Ord)]
pub enum Cond {
    Lit,
    Equ,
    IfDef,
    IfNDef,
    HashIfDef,
    HashIfNDef,
    HashIf,
    /// numeric conditions other than 0/1: negative, large, computed (any non-zero value holds)
    Value,
    /// a condition that cannot be evaluated (undefined symbol): only where it must not be evaluated
    Unevaluable,
    /// a condition that is not even an expression (`.if (`, `.if @0 == 1` as in a macro body that is
    /// defined inside an unselected arm): the line is still a conditional directive and nests
    Unparseable,
}

#[derive(Clone, Copy, PartialEq, Eq, Hash, Debug, PartialOrd, Ord)]
pub enum Act {
    If(Cond, bool),
    Elif(Cond, bool),
    Else,
    Endif,
    /// `.exit`: ends the file where it is assembled (open conditionals included), nothing where it is skipped
    Exit,
}

#[derive(Clone)]
pub struct CondModel {
    pub max_nest: usize,
}

fn assembling(s: &St) -> bool {
    !s.exited && s.stack.last().map(|f| f.active).unwrap_or(true)
}

impl RefModel for CondModel {
    type State = St;
    type Action = Act;
    fn init(&self) -> St {
        St { stack: vec![], exited: false }
    }
    fn actions(&self, s: &St) -> Vec<Act> {
        let mut v = vec![];
        if s.exited {
            return v;
        }
        if !s.stack.is_empty() {
            v.push(Act::Exit);
        }
        if s.stack.len() < self.max_nest {
            for c in [Cond::Lit, Cond::Equ, Cond::IfDef, Cond::IfNDef, Cond::HashIfDef, Cond::HashIfNDef, Cond::HashIf, Cond::Value] {
                v.push(Act::If(c, true));
                v.push(Act::If(c, false));
            }
            if !assembling(s) {
                v.push(Act::If(Cond::Unevaluable, false));
                v.push(Act::If(Cond::Unparseable, false));
            }
        }
        if let Some(f) = s.stack.last() {
            if !f.else_seen {
                for c in [Cond::Lit, Cond::Equ, Cond::Value] {
                    v.push(Act::Elif(c, true));
                    v.push(Act::Elif(c, false));
                }
                // not evaluated when the parent is inactive or an arm was already taken
                if !f.parent || f.taken {
                    v.push(Act::Elif(Cond::Unevaluable, false));
                }
                // (an .elif whose operand does not parse: only deep inside text that is skipped anyway)
                if !f.parent {
                    v.push(Act::Elif(Cond::Unparseable, false));
                }
                v.push(Act::Else);
            }
            v.push(Act::Endif);
        }
        v
    }
    fn step(&self, s: &St, a: &Act) -> Option<St> {
        let mut n = s.clone();
        match a {
            Act::If(_, c) => {
                let parent = assembling(s);
                n.stack.push(Frame { parent, taken: parent && *c, active: parent && *c, else_seen: false });
            }
            Act::Elif(_, c) => {
                let f = n.stack.last_mut()?;
                f.active = f.parent && !f.taken && *c;
                f.taken = f.taken || f.active;
            }
            Act::Else => {
                let f = n.stack.last_mut()?;
                f.active = f.parent && !f.taken;
                f.taken = true;
                f.else_seen = true;
            }
            Act::Endif => {
                n.stack.pop()?;
            }
            Act::Exit => {
                if assembling(s) {
                    n.exited = true;
                }
            }
        }
        Some(n)
    }
    fn invariant(&self, s: &St) -> bool {
        // an arm can only be active inside an active parent, and only once an arm was taken
        s.stack.iter().all(|f| (!f.active || (f.parent && f.taken)))
            && s.stack.windows(2).all(|w| w[1].parent == w[0].active)
    }
}

const UNSELECTED_KINDS: usize = 18;

fn unselected_payload(kind: usize, id: usize) -> String {
    match kind % UNSELECTED_KINDS {
        0 => format!("ldi r17, {}", id),
        1 => "!! garbage that is not assembly".to_string(),
        2 => format!(".error \"unselected {}\"", id),
        3 => "outer_lbl: nop".to_string(),
        4 => "ldi r16, undefined_sym".to_string(),
        5 => ".include \"missing_file.inc\"".to_string(),
        6 => ".equ k_cond = 99".to_string(),
        7 => ".device ATtiny11".to_string(),
        8 => ".define UNDEF_FLAG".to_string(),
        9 => format!(".message \"unselected {}\"", id),
        // prose and fragments: openers without closers, closers without openers, quotes, a backslash
        10 => "generated from data/*.csv by the build script".to_string(),
        11 => "end of the table */ and more prose".to_string(),
        12 => ".db \"an unterminated string".to_string(),
        13 => "it's prose with an apostrophe".to_string(),
        14 => "a path like C:\\TEMP\\".to_string(),
        15 => ".endm".to_string(),
        16 => ".exit".to_string(),
        _ => "( ( ( unbalanced".to_string(),
    }
}

/// numeric conditions: every non-zero value holds
const TRUE_VALUES: [&str; 6] = ["-1", "2", "0x100", "k_cond - 5", "~0", "1 - 3"];
const FALSE_VALUES: [&str; 4] = ["0", "k_cond - 3", "2 - 2", "!5"];

fn cond_text(c: Cond, truth: bool, elif: bool, hash: bool, salt: usize) -> String {
    let dot = if hash { "#" } else { "." };
    let value = if truth { TRUE_VALUES[salt % TRUE_VALUES.len()] } else { FALSE_VALUES[salt % FALSE_VALUES.len()] };
    if elif {
        return match c {
            Cond::Lit => format!("{}elif {}", dot, if truth { 1 } else { 0 }),
            Cond::Value => format!("{}elif {}", dot, value),
            Cond::Equ => format!("{}elif k_cond {} 4", dot, if truth { "<" } else { ">" }),
            Cond::Unparseable => format!("{}{} {}", dot, if salt % 3 == 2 { "ELIF" } else { "elif" }, ["@1 > 2", ")(", "(", "1 +"][salt % 4]),
            _ => format!("{}elif undefined_cond_sym", dot),
        };
    }
    match c {
        Cond::Lit => format!(".if {}", if truth { 1 } else { 0 }),
        Cond::Equ => format!(".if k_cond {} 2", if truth { ">" } else { "<" }),
        Cond::IfDef => format!(".ifdef {}", if truth { "DEF_FLAG" } else { "UNDEF_FLAG" }),
        Cond::IfNDef => format!(".ifndef {}", if truth { "UNDEF_FLAG" } else { "DEF_FLAG" }),
        Cond::HashIfDef => format!("#ifdef {}", if truth { "DEF_FLAG" } else { "UNDEF_FLAG" }),
        Cond::HashIfNDef => format!("#ifndef {}", if truth { "UNDEF_FLAG" } else { "DEF_FLAG" }),
        Cond::HashIf => format!("#if {}", if truth { "2 - 1" } else { "1 - 1" }),
        Cond::Value => format!(".if {}", value),
        Cond::Unevaluable => ".if undefined_cond_sym".to_string(),
        Cond::Unparseable => [".if @0 == 1", ".if (", ".ifdef", ".if 1 +", "#if )(", ".IF (", ".IfDef", "#IF 1 +"][salt % 8].to_string(),
    }
}

/// trailing comments on directive lines: a comment is a comment, whatever it contains and
/// whether or not a blank separates it from the directive
fn decorate(line: String, salt: usize) -> String {
    match salt % 9 {
        // a label in front of the directive (unique per line: the salt includes the position)
        7 => format!("dl_{}: {}", salt, line),
        8 => format!("dl_{}:{} ; labelled", salt, line),
        0 | 1 => line,
        2 => format!("{} ; note: with a colon", line),
        3 => format!("{};glued", line),
        4 => format!("{} // fallback: default .endif", line),
        5 => format!("{}/* block */", line),
        _ => format!("{}//glued too", line),
    }
}

pub struct Rendered {
    pub program: String,
    pub flattened: String,
    pub code: Vec<u8>,
    pub markers: Vec<String>,
    pub features: BTreeSet<&'static str>,
    /// byte offsets in `program`: behind the first payload, in front of the last one (the text
    /// between them is the conditional structure proper)
    pub cut: (usize, usize),
}

impl CondModel {
    /// `density`: which positions carry a payload line. 0 = after every directive; 1 / 2 = only
    /// after directives at even / odd positions; 3 = none between directives (only before the
    /// first and after the last), so that directives are directly adjacent.
    pub fn render(&self, trace: &[Act]) -> Rendered {
        self.render_density(trace, 0)
    }

    pub fn render_density(&self, trace: &[Act], density: u8) -> Rendered {
        let prologue = ".equ k_cond = 3\n.define DEF_FLAG\nouter_lbl:\n";
        let mut program = String::from(prologue);
        let mut flattened = String::from(prologue);
        let mut code = vec![];
        let mut markers = vec![];
        let mut features = BTreeSet::new();
        let mut s = self.init();
        let mut id = 0usize;
        let mut payload = |s: &St, program: &mut String, flattened: &mut String, code: &mut Vec<u8>, markers: &mut Vec<String>, salt: usize| {
            id += 1;
            if assembling(s) {
                let l1 = format!("ldi r16, {}\n", id);
                let l2 = format!(".message \"m{}m\"\n", id);
                program.push_str(&l1);
                program.push_str(&l2);
                flattened.push_str(&l1);
                flattened.push_str(&l2);
                code.extend(isa::words_to_bytes(&isa::encode(Core::Full, "ldi", &[Opnd::Reg(16), Opnd::Imm(id as i64)]).unwrap()));
                markers.push(format!("m{}m", id));
            } else {
                program.push_str(&unselected_payload(id + salt, id));
                program.push('\n');
            }
        };
        // the rotation of unselected payload kinds is shifted by a hash of the trace so that all
        // kinds meet all structures across the enumeration
        let salt = trace.iter().fold(7usize, |h, a| h.wrapping_mul(31).wrapping_add(match a { Act::If(c, t) => *c as usize * 2 + *t as usize, Act::Elif(c, t) => 20 + *c as usize * 2 + *t as usize, Act::Else => 40, Act::Endif => 41, Act::Exit => 42 }));
        payload(&s, &mut program, &mut flattened, &mut code, &mut markers, salt);
        let cut_a = program.len();
        let mut cut_b = program.len();
        let mut all: Vec<Act> = trace.to_vec();
        // close open frames at the end of the trace
        let mut tmp = s.clone();
        for a in trace {
            tmp = self.step(&tmp, a).unwrap();
        }
        for _ in 0..tmp.stack.len() {
            all.push(Act::Endif);
        }
        let nall = all.len();
        // labels in front of directive lines. Where the label is assembled beyond doubt (in front
        // of an `.if` / `.exit` that stands in assembled text) it is defined: name and word address.
        // Where it is skipped beyond doubt (the directive is itself part of skipped text: nested in
        // an unselected arm, or behind an assembled .exit) it defines nothing: the same name is
        // defined once more at the end. A label in front of the .elif / .else / .endif of a live
        // conditional is neither: `lbl: .endif` can be read as the last line of the arm it ends
        // or as part of the directive line; the statement does not say, and no reading is demanded.
        let mut live_labels: Vec<(String, usize)> = vec![];
        let mut dead_labels: Vec<String> = vec![];
        for (i, a) in all.iter().enumerate() {
            let hash = i % 3 == 1;
            {
                let dsalt = salt / 7 + i;
                if dsalt % 9 >= 7 {
                    let surroundings_assembled = match a {
                        Act::If(..) | Act::Exit => assembling(&s),
                        _ => !s.exited && s.stack.last().map(|f| f.parent).unwrap_or(false),
                    };
                    if surroundings_assembled {
                        if matches!(a, Act::If(..) | Act::Exit) {
                            live_labels.push((format!("dl_{}", dsalt), code.len() / 2));
                            flattened.push_str(&format!("dl_{}:\n", dsalt));
                        }
                    } else {
                        dead_labels.push(format!("dl_{}", dsalt));
                    }
                }
            }
            match a {
                Act::If(c, t) => {
                    program.push_str(&decorate(cond_text(*c, *t, false, false, salt + i), salt / 7 + i));
                    program.push('\n');
                    if !s.stack.is_empty() {
                        features.insert("nested");
                    }
                    match c {
                        Cond::IfDef | Cond::IfNDef => {
                            features.insert("ifdef");
                        }
                        Cond::HashIfDef | Cond::HashIfNDef | Cond::HashIf => {
                            features.insert("hash-spelling");
                        }
                        Cond::Equ => {
                            features.insert("equ");
                        }
                        Cond::Unevaluable => {
                            features.insert("unevaluated-condition");
                        }
                        Cond::Unparseable => {
                            features.insert("unparseable-condition-in-skipped-text");
                        }
                        Cond::Value => {
                            features.insert("numeric-value");
                        }
                        Cond::Lit => {}
                    }
                }
                Act::Elif(c, t) => {
                    let f = s.stack.last().unwrap();
                    if f.parent && f.taken {
                        features.insert("elif-after-taken-arm");
                    } else {
                        features.insert("elif");
                    }
                    if *c == Cond::Unevaluable {
                        features.insert("unevaluated-condition");
                    }
                    program.push_str(&decorate(cond_text(*c, *t, true, hash, salt + i), salt / 7 + i));
                    program.push('\n');
                }
                Act::Else => {
                    let f = s.stack.last().unwrap();
                    if f.parent && f.taken {
                        features.insert("else-after-taken-arm");
                    } else {
                        features.insert("else");
                    }
                    program.push_str(&decorate(if hash { "#else".to_string() } else { ".else".to_string() }, salt / 7 + i));
                    program.push('\n');
                }
                Act::Endif => {
                    program.push_str(&decorate(if hash { "#endif".to_string() } else { ".endif".to_string() }, salt / 7 + i));
                    program.push('\n');
                }
                Act::Exit => {
                    features.insert(if assembling(&s) { "exit-assembled-inside-conditional" } else { "exit-skipped" });
                    program.push_str(&decorate(".exit".to_string(), salt / 7 + i));
                    program.push('\n');
                }
            }
            s = self.step(&s, a).unwrap();
            let keep = match density {
                0 => true,
                1 => i % 2 == 0,
                2 => i % 2 == 1,
                _ => false,
            };
            if i + 1 == nall {
                cut_b = program.len();
            }
            if keep || i + 1 == nall {
                payload(&s, &mut program, &mut flattened, &mut code, &mut markers, salt);
            }
        }
        if density != 0 {
            features.insert("adjacent-directives");
        }
        if !s.exited && (!live_labels.is_empty() || !dead_labels.is_empty()) {
            features.insert("label-on-directive-line");
            for (name, addr) in &live_labels {
                let l = format!(".dw {}\n", name);
                program.push_str(&l);
                flattened.push_str(&l);
                code.extend([(*addr & 0xff) as u8, (*addr >> 8) as u8]);
            }
            for name in &dead_labels {
                let l = format!("{}:\n", name);
                program.push_str(&l);
                flattened.push_str(&l);
            }
        }
        Rendered { program, flattened, code, markers, features, cut: (cut_a, cut_b) }
    }
}

fn markers_of(msgs: &[String]) -> Vec<String> {
    msgs.iter()
        .map(|m| {
            // the marker is m<digits>m; everything else (prefix, line number) is format
            let b = m.as_bytes();
            let mut i = 0;
            while i < b.len() {
                if b[i] == b'm' {
                    let mut j = i + 1;
                    while j < b.len() && b[j].is_ascii_digit() {
                        j += 1;
                    }
                    if j > i + 1 && j < b.len() && b[j] == b'm' {
                        return m[i..=j].to_string();
                    }
                }
                i += 1;
            }
            format!("<no marker: {}>", m)
        })
        .collect()
}

pub fn run(tier: Tier) -> i32 {
    let rep = Report::new("C08", tier, "model_checking");
    let (n1, k, nest) = if tier.thorough() { (9usize, 4usize, 4usize) } else { (6usize, 3usize, 3usize) };
    let m = CondModel { max_nest: nest };
    let ex = mc::explore(&m, n1);
    let n_ok = AtomicU64::new(0);
    let outcomes: Mutex<BTreeSet<u64>> = Mutex::new(BTreeSet::new());
    let act_use: Mutex<BTreeMap<String, u64>> = Mutex::new(BTreeMap::new());
    let samples: Mutex<Vec<serde_json::Value>> = Mutex::new(vec![]);
    let scratch = crate::report::Scratch::new("c08");
    let n_inc = AtomicU64::new(0);
    let n_two_files = AtomicU64::new(0);
    let traces = mc::conform(&m, &ex, k, |trace| {
      for density in 0..4u8 {
        let r = m.render_density(trace, density);
        let o1 = sut::build_str(&r.program);
        let o2 = sut::build_str(&r.flattened);
        if let Some(a) = trace.last() {
            let name = match a {
                Act::If(c, _) => format!("if-{:?}", c),
                Act::Elif(c, _) => format!("elif-{:?}", c),
                Act::Else => "else".to_string(),
                Act::Endif => "endif".to_string(),
                Act::Exit => "exit".to_string(),
            };
            *act_use.lock().unwrap().entry(name).or_insert(0) += 1;
        }
        let mut bad: Option<(&str, String)> = None;
        match &o1 {
            Outcome::Ok(b1) => {
                n_ok.fetch_add(1, Ordering::Relaxed);
                {
                    use std::hash::{Hash, Hasher};
                    let mut h = std::collections::hash_map::DefaultHasher::new();
                    b1.code.hash(&mut h);
                    outcomes.lock().unwrap().insert(h.finish());
                }
                let mk = markers_of(&b1.messages);
                if b1.code != r.code {
                    bad = Some(("wrong-code", format!("code {} but the selected lines assemble to {}", sut::hex_trunc(&b1.code, 40), sut::hex_trunc(&r.code, 40))));
                } else if mk != r.markers {
                    bad = Some(("wrong-messages", format!("messages {:?}, selected branches produce {:?}", mk, r.markers)));
                } else if b1.flash_size != sut::DEFAULT_FLASH_WORDS || !b1.eeprom.is_empty() || b1.ram_filling != 0 {
                    bad = Some(("side-effect", "an unselected line changed the device or another image".to_string()));
                } else if let Outcome::Ok(b2) = &o2 {
                    if b2.code != b1.code || markers_of(&b2.messages) != mk || b2.flash_size != b1.flash_size {
                        bad = Some(("differs-from-deleted", "the result differs from that of the program with the unselected lines deleted".to_string()));
                    }
                } else {
                    bad = Some(("differs-from-deleted", format!("the program with the unselected lines deleted does not build: {}", o2.to_json())));
                }
            }
            Outcome::Err(e) => bad = Some(("unselected-line-had-effect", format!("the build fails although every selected line is valid: {}", e))),
            Outcome::Panic { site, msg } => bad = Some(("panic", format!("panic at {}: {}", site, msg))),
        }
        let was_bad = bad.is_some();
        if let Some((kind, what)) = bad {
            let feats = r.features.iter().cloned().collect::<Vec<_>>().join("+");
            let key = format!("C08/{}/features={}", kind, if feats.is_empty() { "plain".to_string() } else { feats });
            rep.violation(&key, || format!("trace {:?}: {}", trace, what), || {
                json!({"kind": "build_str", "source": r.program, "trace": format!("{:?}", trace), "program_with_unselected_lines_deleted": r.flattened,
                       "expected": {"result": "ok", "code": sut::hex(&r.code), "message_markers": r.markers}, "observed": o1.to_json()})
            });
        }
        if !was_bad && (density == 0 || density == 3) && !trace.is_empty() && trace.len() <= if tier.thorough() { 6 } else { 4 } && !trace.contains(&Act::Exit) {
            // the same conditional structure read from an included file (the file begins with
            // the first directive and ends with the last one): same image, same messages
            let (a, b) = r.cut;
            let dir = scratch.path.join(format!("t{}", rayon::current_thread_index().unwrap_or(0)));
            let _ = std::fs::create_dir_all(&dir);
            let main = format!("{}.include \"cond.inc\"\n{}", &r.program[..a], &r.program[b..]);
            let inc = &r.program[a..b];
            std::fs::write(dir.join("main.asm"), &main).unwrap_or_else(|e| machinery_fail(&format!("cannot write scratch file: {}", e)));
            std::fs::write(dir.join("cond.inc"), inc).unwrap_or_else(|e| machinery_fail(&format!("cannot write scratch file: {}", e)));
            let o3 = sut::build_file(dir.join("main.asm"), BTreeSet::new());
            n_inc.fetch_add(1, Ordering::Relaxed);
            let same = match (&o1, &o3) {
                (Outcome::Ok(b1), Outcome::Ok(b3)) => b1.code == b3.code && markers_of(&b1.messages) == markers_of(&b3.messages) && b3.eeprom.is_empty() && b3.ram_filling == 0,
                _ => false,
            };
            if !same {
                let feats = r.features.iter().cloned().collect::<Vec<_>>().join("+");
                let key = format!("C08/differs-when-included/features={}", if feats.is_empty() { "plain".to_string() } else { feats });
                rep.violation(&key, || format!("trace {:?}: the conditional structure gives {} in the main text but {} when it is read from an included file", trace, o1.brief(), o3.brief()), || {
                    json!({"kind": "file_tree", "files": {"main.asm": main, "cond.inc": inc}, "main": "main.asm", "caller_paths": [], "pasted_program": r.program,
                           "expected": {"result": "ok", "code": sut::hex(&r.code), "message_markers": r.markers}, "observed": o3.to_json()})
                });
            }
        }
        if !was_bad && density == 0 && !trace.is_empty() && trace.len() <= 4 && !trace.contains(&Act::Exit) {
            // two files of one program that both begin with a conditional structure (the same
            // line numbers, other extents): a second included file holds a decoy that assembles
            // nothing, read before or after the file with the structure
            let (a, b) = r.cut;
            let dir = scratch.path.join(format!("u{}", rayon::current_thread_index().unwrap_or(0)));
            let _ = std::fs::create_dir_all(&dir);
            let inc = &r.program[a..b];
            let decoys = [".if 0\n junk one\n.endif\n", ".if 0\n junk one\n junk two\n junk three\n.if 1\n junk four\n.endif\n junk five\n.endif\n", ".ifdef never_defined_q\n junk one\n junk two\n.else\n.if 0\n junk three\n junk four\n junk five\n junk six\n.endif\n.endif\n"];
            // (quick tier: one decoy and one order per trace, rotating; thorough: all six for traces of up to 4 directives)
            let turn = format!("{:?}", trace).bytes().fold(0usize, |h, b| h.wrapping_mul(31).wrapping_add(b as usize));
            for (di, decoy) in decoys.iter().enumerate() {
                for decoy_first in [true, false] {
                    if !tier.thorough() && (di * 2 + decoy_first as usize) != turn % 6 {
                        continue;
                    }
                    let main = if decoy_first { format!(".include \"decoy.inc\"\n{}.include \"cond.inc\"\n{}", &r.program[..a], &r.program[b..]) } else { format!("{}.include \"cond.inc\"\n.include \"decoy.inc\"\n{}", &r.program[..a], &r.program[b..]) };
                    std::fs::write(dir.join("main.asm"), &main).unwrap_or_else(|e| machinery_fail(&format!("cannot write scratch file: {}", e)));
                    std::fs::write(dir.join("cond.inc"), inc).unwrap_or_else(|e| machinery_fail(&format!("cannot write scratch file: {}", e)));
                    std::fs::write(dir.join("decoy.inc"), decoy).unwrap_or_else(|e| machinery_fail(&format!("cannot write scratch file: {}", e)));
                    let o4 = sut::build_file(dir.join("main.asm"), BTreeSet::new());
                    n_two_files.fetch_add(1, Ordering::Relaxed);
                    let same = match (&o1, &o4) {
                        (Outcome::Ok(b1), Outcome::Ok(b4)) => b1.code == b4.code && markers_of(&b1.messages) == markers_of(&b4.messages) && b4.eeprom.is_empty() && b4.ram_filling == 0,
                        _ => false,
                    };
                    if !same {
                        let feats = r.features.iter().cloned().collect::<Vec<_>>().join("+");
                        let key = format!("C08/differs-with-a-second-conditional-file/decoy={}/decoy-first={}/features={}", di, decoy_first, if feats.is_empty() { "plain".to_string() } else { feats });
                        rep.violation(&key, || format!("trace {:?}: the conditional structure gives {} in the main text but {} when it is read from an included file next to another included file that begins with a conditional of its own (which assembles nothing)", trace, o1.brief(), o4.brief()), || {
                            json!({"kind": "file_tree", "files": {"main.asm": main, "cond.inc": inc, "decoy.inc": decoy}, "main": "main.asm", "caller_paths": [], "pasted_program": r.program,
                                   "expected": {"result": "ok", "code": sut::hex(&r.code), "message_markers": r.markers}, "observed": o4.to_json()})
                        });
                    }
                }
            }
        }
        if !was_bad && trace.len() >= 5 {
            let mut s = samples.lock().unwrap();
            if s.len() < 2 {
                s.push(json!({"trace": format!("{:?}", trace), "payload_density": density, "source": r.program, "expected_code": sut::hex(&r.code), "expected_message_markers": r.markers}));
            }
        }
      }
    });
    let distinct = outcomes.lock().unwrap().len();
    rep.guard(ex.states > 50, "fewer than 50 model states");
    rep.guard(distinct > 100, "fewer than 100 distinct observed images");
    rep.guard(act_use.lock().unwrap().len() >= 15, "not every action of the alphabet was used as last action");
    for s in samples.into_inner().unwrap() {
        rep.sample(|| s);
    }
    rep.assume("well-formed conditional structure only (no .elif/.else after .else, .endif only inside a construct); open constructs are closed at the end of the trace");
    rep.assume("conditions on literals, .equ constants and .define flags; a condition that must not be evaluated may be ill-formed");
    rep.assume("messages are compared by their marker text, not by format or line number");
    rep.assume("directive lines carry rotating trailing comments (none, with a colon, glued without a blank, //, /* */)");
    rep.assume("the renderings with a payload after every directive and with adjacent directives are also built with the conditional structure in an included file (traces without .exit, which ends only the file it stands in; traces of up to 4 directives, thorough 6)");
    rep.assume("every trace is rendered four times: with a payload line after every directive, after every second one (two phases) and with directly adjacent directives");
    let coverage = cov(json!({
        "states": ex.states,
        "transitions": ex.transitions,
        "traces_validated_against_impl": traces,
        "renderings_per_trace": 4,
        "programs_built": traces * 4,
        "renderings_read_from_an_included_file": n_inc.load(Ordering::Relaxed),
        "renderings_next_to_a_second_file_that_begins_with_a_conditional": n_two_files.load(Ordering::Relaxed),
        "state_cover_size": ex.states,
        "bound": {"N1_model_depth": n1, "k_extension": k, "nesting": nest},
        "exhaustive": true,
        "caps_hit": [],
        "distinct_observed_outcomes": distinct,
        "ok_outcomes": n_ok.load(Ordering::Relaxed),
        "alphabet_use_as_last_action": *act_use.lock().unwrap(),
        "unselected_payload_kinds": UNSELECTED_KINDS,
        "trusted_base": ["conditional-assembly stack machine (DESIGN.md appendix C)", "isa reference for ldi", "stateright 0.31 BFS"],
    }));
    rep.finish(coverage)
}
