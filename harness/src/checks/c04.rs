//! C04 — operands the ISA cannot encode are rejected, never mis-encoded (E1).
//!
//! Every mnemonic x { every register in each register position, every numeric field in a window
//! well beyond both ends of its legal range (plus extremes), every operand-kind confusion in each
//! position, operand counts 0..3 } on the default core, the reduced core (ATtiny20) and a Tiny1x
//! device (ATtiny11). One case per build (an expected rejection cannot be packed).

use std::collections::{BTreeMap, BTreeSet};
use std::sync::atomic::{AtomicU64, Ordering};

use rayon::prelude::*;
use serde_json::json;

use crate::icase::{self, ICase};
use crate::isa::{self, Core, Opnd, Ptr};
use crate::report::{cov, machinery_fail, Report, Tier};
use crate::sut::{self, Outcome};

#[derive(Clone)]
pub struct Case {
    pub ic: ICase,
    /// source text of the instruction line (may use a .def alias instead of a register)
    pub text: String,
    /// what kind of departure from the legal base tuple this is (part of the violation key)
    pub cat: &'static str,
    pub pos: usize,
    pub uses_alias: bool,
}

pub const ALIAS: &str = "alias_q";

fn extremes() -> Vec<i64> {
    let mut v = vec![];
    for p in [15u32, 16, 31, 32, 62] {
        v.push(1i64 << p);
        v.push(-(1i64 << p));
        v.push((1i64 << p) - 1);
        v.push(-(1i64 << p) - 1);
    }
    v.push(i64::MAX);
    v.push(-i64::MAX);
    v
}

/// legal numeric range per (mnemonic, operand position), measured from the legal enumeration
fn numeric_ranges(small: &[ICase]) -> BTreeMap<(&'static str, usize), (i64, i64)> {
    let mut m: BTreeMap<(&'static str, usize), (i64, i64)> = BTreeMap::new();
    let mut note = |mn: &'static str, pos: usize, k: i64| {
        let e = m.entry((mn, pos)).or_insert((k, k));
        e.0 = e.0.min(k);
        e.1 = e.1.max(k);
    };
    for c in small {
        for (p, o) in c.ops.iter().enumerate() {
            match o {
                Opnd::Imm(k) => note(c.mnem, p, *k),
                Opnd::Disp(_, q) => note(c.mnem, p, *q),
                _ => {}
            }
        }
    }
    m.insert(("jmp", 0), (0, 4_194_303));
    m.insert(("call", 0), (0, 4_194_303));
    m.insert(("lds", 1), (0, 65535));
    m.insert(("sts", 0), (0, 65535));
    m
}

fn window(lo: i64, hi: i64, w: i64) -> BTreeSet<i64> {
    let mut s = BTreeSet::new();
    if hi - lo <= 2 * w {
        for k in lo - w..=hi + w {
            s.insert(k);
        }
    } else {
        for k in lo - w..=lo + w {
            s.insert(k);
        }
        for k in hi - w..=hi + w {
            s.insert(k);
        }
    }
    s.extend(extremes());
    s
}

pub fn gen_cases(tier: Tier, core: Core) -> Vec<Case> {
    let small = if core == Core::Full {
        let mut v = icase::small_cases_full();
        v.push(icase::big_case(0x2_1234));
        v.push(icase::big_case((1 << 22) + 0x3f_0001));
        v.push(icase::big_case((2 << 22) + (5 << 16) + 0x1234));
        v.push(icase::big_case((2 << 22) + (1 << 21) + (30 << 16) + 0xfffe));
        v
    } else {
        icase::reduced_cases()
    };
    let ranges = if core == Core::Full {
        numeric_ranges(&small)
    } else {
        let mut m = BTreeMap::new();
        m.insert(("lds", 1usize), (0x40i64, 0xbfi64));
        m.insert(("sts", 0usize), (0x40i64, 0xbfi64));
        m
    };
    // base tuples: a few legal representatives per mnemonic
    let mut by_mnem: BTreeMap<&'static str, Vec<&ICase>> = BTreeMap::new();
    for c in small.iter() {
        by_mnem.entry(c.mnem).or_default().push(c);
    }
    let mut out: Vec<Case> = vec![];
    let nreps = if tier.thorough() { 5 } else { 2 };
    for (mn, v) in by_mnem.iter() {
        let mut reps: Vec<&ICase> = vec![];
        for i in 0..nreps {
            let c = v[(i * (v.len() - 1)) / (nreps - 1).max(1)];
            if !reps.contains(&c) {
                reps.push(c);
            }
        }
        // lpm/elpm: make sure the 2-operand form is among the representatives
        if *mn == "lpm" || *mn == "elpm" {
            reps = vec![v[0], v[1], v[v.len() - 1]];
        }
        for base in reps {
            let push = |out: &mut Vec<Case>, ops: Vec<Opnd>, cat: &'static str, pos: usize| {
                let ic = ICase::new(base.mnem, ops);
                let text = ic.text();
                out.push(Case { ic, text, cat, pos, uses_alias: false });
            };
            // the base tuple itself (must assemble)
            push(&mut out, base.ops.clone(), "legal", 0);
            // 0. two register positions: every register in both at once (a check that looks at
            //    the two operands together - their sum, their difference, one through the other -
            //    is right for every tuple that departs from a legal one in one place only)
            {
                let regpos: Vec<usize> = base.ops.iter().enumerate().filter(|(_, o)| matches!(o, Opnd::Reg(_))).map(|(i, _)| i).collect();
                if regpos.len() == 2 && std::ptr::eq(base, *by_mnem[mn].first().unwrap()) {
                    for a in 0..32 {
                        for b in 0..32 {
                            let mut ops = base.ops.clone();
                            ops[regpos[0]] = Opnd::Reg(a);
                            ops[regpos[1]] = Opnd::Reg(b);
                            push(&mut out, ops, "register-pair", regpos[1]);
                        }
                    }
                }
            }
            for (p, o) in base.ops.iter().enumerate() {
                // 1. every register in each register position
                if let Opnd::Reg(_) = o {
                    for r in 0..32 {
                        let mut ops = base.ops.clone();
                        ops[p] = Opnd::Reg(r);
                        push(&mut out, ops, "register", p);
                    }
                    // every register through a .def alias as well (alias_q<N> = rN)
                    for r in 0..32 {
                        let mut ops = base.ops.clone();
                        ops[p] = Opnd::Reg(r);
                        let ic = ICase::new(base.mnem, ops);
                        let mut parts: Vec<String> = vec![];
                        for (i, oo) in ic.ops.iter().enumerate() {
                            parts.push(if i == p { format!("{}{}", ALIAS, r) } else { oo.text() });
                        }
                        // relative instructions have no register operands, so plain join is right
                        let text = format!("{} {}", ic.mnem, parts.join(", "));
                        out.push(Case { ic, text, cat: "register-alias", pos: p, uses_alias: true });
                    }
                }
                // 2. numeric fields: window beyond both ends + extremes
                let numeric = matches!(o, Opnd::Imm(_) | Opnd::Disp(_, _));
                if numeric {
                    let (lo, hi) = *ranges
                        .get(&(base.mnem, p))
                        .unwrap_or_else(|| machinery_fail(&format!("no numeric range for {} pos {}", base.mnem, p)));
                    let w = if tier.thorough() {
                        if hi - lo >= 255 { 6000 } else { 1500 }
                    } else if hi - lo >= 255 && hi - lo < 1000 {
                        300
                    } else if hi - lo >= 1000 {
                        40
                    } else {
                        80
                    };
                    let mut values = window(lo, hi, w);
                    // values congruent to a legal one modulo 2^8 / 2^16 / 2^32 (a narrowing cast
                    // before the range check would fold them into the field)
                    for m in [8u32, 16, 32] {
                        for base_v in [lo, hi, (lo + hi) / 2] {
                            values.insert(base_v + (1i64 << m));
                            values.insert(base_v - (1i64 << m));
                            values.insert(base_v + 3 * (1i64 << m));
                        }
                    }
                    for k in values {
                        let mut ops = base.ops.clone();
                        ops[p] = match o {
                            Opnd::Disp(b, _) => Opnd::Disp(*b, k),
                            _ => Opnd::Imm(k),
                        };
                        push(&mut out, ops, "numeric", p);
                    }
                }
                // 3. operand-kind confusions in this position
                let mut kinds: Vec<Opnd> = vec![Opnd::Reg(0), Opnd::Reg(16), Opnd::Reg(24), Opnd::Imm(1), Opnd::Imm(0)];
                for pm in Ptr::ALL {
                    kinds.push(Opnd::Ptr(pm));
                }
                for b in ['X', 'Y', 'Z'] {
                    kinds.push(Opnd::Disp(b, 1));
                    kinds.push(Opnd::Disp(b, 0));
                    kinds.push(Opnd::Disp(b, 63));
                    kinds.push(Opnd::Disp(b, 64));
                }
                for k in kinds {
                    if icase::is_relative(base.mnem) && p == base.ops.len() - 1 && matches!(k, Opnd::Imm(_)) {
                        continue; // a number in the target position is a legal displacement: covered by (2)
                    }
                    let mut ops = base.ops.clone();
                    ops[p] = k;
                    push(&mut out, ops, "kind", p);
                }
            }
            // 4. operand count 0..3 built from legal operands
            for n in 0..base.ops.len() {
                push(&mut out, base.ops[..n].to_vec(), "count-missing", n);
            }
            let extras: Vec<Opnd> = vec![Opnd::Reg(0), Opnd::Reg(17), Opnd::Imm(0), Opnd::Imm(1), Opnd::Ptr(Ptr::Z)];
            for e in extras.iter() {
                if base.ops.len() < 3 {
                    let mut ops = base.ops.clone();
                    if icase::is_relative(base.mnem) {
                        // keep the displacement last so that the text stays pc-relative
                        ops.insert(ops.len().saturating_sub(1), e.clone());
                        if base.ops.is_empty() {
                            continue;
                        }
                    } else {
                        ops.push(e.clone());
                    }
                    push(&mut out, ops.clone(), "count-surplus", base.ops.len());
                    if ops.len() < 3 && !icase::is_relative(base.mnem) {
                        ops.push(e.clone());
                        push(&mut out, ops, "count-surplus", base.ops.len() + 1);
                    }
                }
            }
        }
    }
    out
}

/// lenient reading for ld/ldd/st/std written with the sibling's addressing form: accepted iff the
/// bytes are the sibling's encoding of exactly the operand written (same operation, same operand)
fn sibling(core: Core, c: &ICase) -> Option<Vec<u16>> {
    let sib = match c.mnem {
        "ld" => "ldd",
        "ldd" => "ld",
        "st" => "std",
        "std" => "st",
        _ => return None,
    };
    isa::encode(core, sib, &c.ops)
}

struct Ctx<'a> {
    rep: &'a Report,
    evals: AtomicU64,
    ok_seen: AtomicU64,
    err_seen: AtomicU64,
    panic_seen: AtomicU64,
    lenient_used: AtomicU64,
}

fn check_case(cx: &Ctx, devname: &str, core: Core, strict_ok: bool, c: &Case) {
    let mut prefix = String::new();
    if !devname.is_empty() {
        prefix.push_str(&format!(".device {}\n", devname));
    }
    if c.uses_alias {
        // which alias does the text use? alias_q<N> = rN
        if let Some(i) = c.text.find(ALIAS) {
            let n: String = c.text[i + ALIAS.len()..].chars().take_while(|ch| ch.is_ascii_digit()).collect();
            prefix.push_str(&format!(".def {}{} = r{}\n", ALIAS, n, n));
        }
    }
    let src = format!("{}{}\n", prefix, c.text);
    let o = sut::build_str(&src);
    cx.evals.fetch_add(1, Ordering::Relaxed);
    match &o {
        Outcome::Ok(_) => cx.ok_seen.fetch_add(1, Ordering::Relaxed),
        Outcome::Err(_) => cx.err_seen.fetch_add(1, Ordering::Relaxed),
        Outcome::Panic { .. } => cx.panic_seen.fetch_add(1, Ordering::Relaxed),
    };
    let expect = isa::encode(core, c.ic.mnem, &c.ic.ops);
    let dev = if devname.is_empty() { "none" } else { devname };
    let mut bad: Option<(String, String)> = None; // (key, what)
    match (&expect, &o) {
        (Some(w), Outcome::Ok(b)) => {
            let want = isa::words_to_bytes(w);
            if b.code != want {
                bad = Some((
                    format!("C04/wrong-bytes/mnem={}/cat={}", c.ic.mnem, c.cat),
                    format!(
                        "`{}` must assemble to {} but gives {} = `{}`",
                        c.text,
                        sut::hex(&want),
                        sut::hex(&b.code),
                        icase::describe(core, &b.code)
                    ),
                ));
            }
        }
        (Some(w), other) => {
            // on a selected device an encodable instruction may still be absent from the device
            // (C13's business); with no device it must assemble. A panic is C16's business.
            if strict_ok && !other.is_panic() {
                bad = Some((
                    format!("C04/over-rejected/mnem={}/cat={}", c.ic.mnem, c.cat),
                    format!(
                        "`{}` is encodable ({}) but is rejected: {}",
                        c.text,
                        sut::hex(&isa::words_to_bytes(w)),
                        other.err_text().unwrap_or("")
                    ),
                ));
            }
        }
        (None, Outcome::Ok(b)) => {
            let sib = sibling(core, &c.ic);
            let lenient_ok = matches!(&sib, Some(w) if isa::words_to_bytes(w) == b.code);
            if lenient_ok {
                cx.lenient_used.fetch_add(1, Ordering::Relaxed);
            } else {
                bad = Some((
                    format!("C04/accepted/core={}/mnem={}/cat={}", if core == Core::Full { "full" } else { "reduced" }, c.ic.mnem, c.cat),
                    format!(
                        "`{}` (device {}, operand position {}) cannot be encoded by the ISA but assembles to {} = `{}`",
                        c.text, dev, c.pos,
                        sut::hex(&b.code),
                        icase::describe(core, &b.code)
                    ),
                ));
            }
        }
        (None, _) => {} // rejected (Err) — or a caught panic, which is C16's business
    }
    if let Some((key, what)) = bad {
        cx.rep.violation(
            &key,
            || what,
            || {
                json!({"kind": "build_str", "source": src,
                   "expected": match &expect { Some(w) => json!({"result":"ok","code": sut::hex(&isa::words_to_bytes(w))}), None => json!({"result":"err (any text)"}) },
                   "observed": o.to_json()})
            },
        );
    }
}

pub fn run(tier: Tier) -> i32 {
    let rep = Report::new("C04", tier, "exploration");
    isa::self_check().unwrap_or_else(|e| machinery_fail(&format!("ISA reference self-check failed: {}", e)));
    let cx = Ctx {
        rep: &rep,
        evals: AtomicU64::new(0),
        ok_seen: AtomicU64::new(0),
        err_seen: AtomicU64::new(0),
        panic_seen: AtomicU64::new(0),
        lenient_used: AtomicU64::new(0),
    };
    let full = gen_cases(tier, Core::Full);
    let reduced = gen_cases(tier, Core::Reduced);
    // distinct cases (by text) and how many of them the reference rejects
    let mut texts: Vec<&str> = full.iter().map(|c| c.text.as_str()).collect();
    texts.sort_unstable();
    texts.dedup();
    let distinct_full = texts.len();
    let must_reject_full = {
        let mut s: BTreeSet<&str> = BTreeSet::new();
        for c in full.iter() {
            if isa::encode(Core::Full, c.ic.mnem, &c.ic.ops).is_none() && sibling(Core::Full, &c.ic).is_none() {
                s.insert(c.text.as_str());
            }
        }
        s.len()
    };
    let mut cats: BTreeMap<&str, u64> = BTreeMap::new();
    for c in full.iter().chain(reduced.iter()) {
        *cats.entry(c.cat).or_insert(0) += 1;
    }

    full.par_iter().for_each(|c| check_case(&cx, "", Core::Full, true, c));
    // reduced core: the full-core tuples (lds/sts now follow the one-word rules) + its own windows
    // (every row of the device table that has the reduced core, not only the one known today)
    let reduced_devs: Vec<String> = sut::devices().iter().filter(|d| d.flags.contains("Avr8l")).map(|d| d.name.clone()).collect();
    rep.guard(reduced_devs.iter().any(|d| d == "ATtiny20"), "ATtiny20 is expected among the reduced-core rows");
    for dev in reduced_devs.iter() {
        full.par_iter().for_each(|c| check_case(&cx, dev, Core::Reduced, false, c));
        reduced.par_iter().for_each(|c| check_case(&cx, dev, Core::Reduced, true, c));
    }
    // a Tiny1x device: nothing unencodable may slip through there either
    full.par_iter().for_each(|c| check_case(&cx, "ATtiny11", Core::Full, false, c));
    // relative jumps and branches on devices whose flash a 12-bit displacement spans
    for dev in ["ATmega8", "ATtiny13", "ATtiny45"] {
        full.par_iter().filter(|c| icase::is_relative(c.ic.mnem)).for_each(|c| check_case(&cx, dev, Core::Full, false, c));
    }
    // the operand reaches the instruction through symbols: a constant, a variable, and a constant
    // defined over a variable that had a legal value at an earlier use of the same line
    let n_via_symbols = AtomicU64::new(0);
    let char_done: std::sync::Mutex<std::collections::BTreeSet<(&'static str, usize)>> = std::sync::Mutex::new(Default::default());
    full.par_iter().filter(|c| c.cat == "numeric" && !c.uses_alias).for_each(|c| {
        let ops = &c.ic.ops;
        let p = c.pos;
        let k = match ops.get(p) {
            Some(Opnd::Imm(k)) => *k,
            _ => return,
        };
        if icase::is_relative(c.ic.mnem) || isa::encode(Core::Full, c.ic.mnem, ops).is_some() || sibling(Core::Full, &c.ic).is_some() {
            return;
        }
        // thinned like the followed-by-a-segment programs
        if (k.unsigned_abs() % 5) != 0 && k.unsigned_abs() > 300 {
            return;
        }
        // a legal value for the same field: search near the ends of small ranges
        let legal = [0i64, 1, 16, 63, 64, 32, 7].iter().copied().find(|v| {
            let mut o2 = ops.clone();
            o2[p] = Opnd::Imm(*v);
            isa::encode(Core::Full, c.ic.mnem, &o2).is_some()
        });
        let legal = match legal {
            Some(v) => v,
            None => return,
        };
        let with = |name: &str| -> String {
            let mut parts: Vec<String> = ops.iter().map(|o| o.text()).collect();
            parts[p] = name.to_string();
            format!("{} {}", c.ic.mnem, parts.join(", "))
        };
        let kt = if k == i64::MIN { "-9223372036854775807-1".to_string() } else { format!("{}", k) };
        let programs = [
            ("equ", format!(".equ v_q = {}\n{}\n", kt, with("v_q"))),
            ("set", format!(".set v_q = {}\n{}\n", kt, with("v_q"))),
            ("late-equ", format!("{}\n.equ v_q = {}\n", with("v_q"), kt)),
            ("equ-over-variable-that-changed", format!(".set n_q = {}\n.equ v_q = n_q + 0\n{}\n.set n_q = {}\n{}\n", legal, with("v_q"), kt, with("v_q"))),
            ("variable-that-changed", format!(".set n_q = {}\n{}\n.set n_q = {}\n{}\n", legal, with("n_q"), kt, with("n_q"))),
            ("variable-that-changed-inside-dseg", format!(".set n_q = {}\n{}\n.dseg\n.set n_q = {}\n.cseg\n{}\n", legal, with("n_q"), kt, with("n_q"))),
            // the same value written as an expression: complement of its complement's value,
            // negation of its negation, in parentheses, a sum
            ("complement-spelling", format!("{}\n", with(&{ let m = (-(k as i128)) - 1; if m >= 0 { format!("~{}", m) } else { format!("~(-{})", -m) } }))),
            ("complement-of-hex-spelling", format!("{}\n", with(&{ let m = (-(k as i128)) - 1; if m >= 0 { format!("~0x{:X}", m) } else { format!("~(0-0x{:X})", -m) } }))),
            ("negation-spelling", format!("{}\n", with(&{ let m = -(k as i128); if m >= 0 { format!("-{}", m) } else { format!("-(-{})", -m) } }))),
            ("parenthesised-sum-spelling", format!("{}\n", with(&format!("({} + 1 - 1)", if k < 0 { format!("(0{})", kt) } else { kt.clone() })))),
        ];
        // the value written as a character literal (code points of 256 and more are numbers like
        // any other: they do not fit a byte-wide field, whatever their low byte is), once per
        // mnemonic and operand position
        let mut programs: Vec<(&str, String)> = programs.into_iter().collect();
        if char_done.lock().unwrap().insert((c.ic.mnem, p)) {
            for cp in [0x100 + legal as u32, 0x2000 + legal as u32, 0x1f600 + (legal as u32 & 0x3f), 0x100, 0x20ac, 0x150, 0xff00 + legal as u32] {
                let mut o2 = ops.clone();
                o2[p] = Opnd::Imm(cp as i64);
                if isa::encode(Core::Full, c.ic.mnem, &o2).is_some() {
                    continue;
                }
                if let Some(ch) = char::from_u32(cp) {
                    programs.push(("character-literal-spelling", format!("{}\n", with(&format!("'{}'", ch)))));
                }
            }
        }
        for (how, src) in programs.iter() {
            let o = sut::build_str(src);
            cx.evals.fetch_add(1, Ordering::Relaxed);
            n_via_symbols.fetch_add(1, Ordering::Relaxed);
            if let Outcome::Ok(b) = &o {
                cx.rep.violation(
                    &format!("C04/accepted-through-a-symbol/mnem={}/how={}", c.ic.mnem, how),
                    || format!("`{}` cannot be encoded, but with the value {} reaching it through a symbol ({}) the program assembles to {}", c.text, k, how, sut::hex_trunc(&b.code, 16)),
                    || json!({"kind": "build_str", "source": src, "expected": {"result": "err (any text)"}, "observed": o.to_json()}),
                );
            }
        }
    });
    // relative targets written from a position that a symbol captured: a label, a variable set
    // from `pc` right behind an instruction, behind data, behind a two-word instruction, behind
    // other lines that place nothing. The last displacements inside the field must encode like
    // `pc+k`, the first ones outside must be refused.
    let n_captured_pc = AtomicU64::new(0);
    {
        let mut rel: Vec<(&'static str, Vec<Opnd>)> = vec![];
        for c in icase::small_cases_full().iter() {
            if icase::is_relative(c.mnem) && !c.ops.is_empty() && !rel.iter().any(|(m, o)| *m == c.mnem && o.len() == c.ops.len() && o[..o.len() - 1] == c.ops[..c.ops.len() - 1]) {
                rel.push((c.mnem, c.ops.clone()));
            }
        }
        let captures: [(&str, &str, i64); 8] = [
            ("label", "nop\nbase_q:\n", 1),
            ("set-behind-instruction", "nop\n.set base_q = pc\n", 1),
            ("set-behind-two-word-instruction", "jmp 0x100\n.set base_q = pc\n", 2),
            ("set-behind-data", ".db 1, 2, 3\n.set base_q = pc\n", 2),
            ("set-behind-other-lines-that-place-nothing", "nop\n.equ other_q = 5\n.def alias_cq = r20\n.set base_q = pc\n", 1),
            ("set-at-the-start", ".set base_q = pc\n", 0),
            ("set-behind-org", "nop\n.org 0xa00\n.set base_q = pc\n", 0xa00),
            ("set-twice", ".set base_q = pc\nnop\nnop\n.set base_q = pc\n", 2),
        ];
        rel.par_iter().for_each(|(mnem, ops)| {
            let wide = *mnem == "rjmp" || *mnem == "rcall";
            let (lo, hi) = if wide { (-2048i64, 2047i64) } else { (-64i64, 63i64) };
            for (how, pre, addr) in captures.iter() {
                for d in [lo - 2, lo - 1, lo, lo + 1, -1, 0, 1, hi - 1, hi, hi + 1, hi + 2] {
                    // target = address of the instruction + 1 + d; the front part of the program is
                    // moved up so that backward targets exist
                    let shift = 0x900i64;
                    let target = format!("base_q + {}", 1 + d);
                    let mut parts: Vec<String> = ops[..ops.len() - 1].iter().map(|o| o.text()).collect();
                    parts.push(target);
                    let src = format!(".org {}\n{}{} {}\n", shift, pre, mnem, parts.join(", "));
                    let _ = addr;
                    let o = sut::build_str(&src);
                    cx.evals.fetch_add(1, Ordering::Relaxed);
                    n_captured_pc.fetch_add(1, Ordering::Relaxed);
                    let mut o2 = ops.clone();
                    let n = o2.len();
                    o2[n - 1] = Opnd::Imm(d);
                    let want = isa::encode(Core::Full, mnem, &o2).map(|w| isa::words_to_bytes(&w));
                    let bad = match (&want, &o) {
                        (None, Outcome::Ok(b)) => Some(("accepted-from-a-captured-position", format!("displacement {} does not fit, but the program assembles to …{}", d, sut::hex(&b.code[b.code.len().saturating_sub(4)..])))),
                        (Some(w), Outcome::Ok(b)) if !b.code.ends_with(w) => Some(("wrong-encoding-from-a-captured-position", format!("displacement {} must encode to {} but the image ends in {}", d, sut::hex(w), sut::hex(&b.code[b.code.len().saturating_sub(4)..])))),
                        (Some(_), Outcome::Err(e)) => Some(("rejected-from-a-captured-position", format!("displacement {} fits but the program is refused: {}", d, e))),
                        (_, Outcome::Panic { site, msg }) => Some(("panic", format!("panic at {}: {}", site, msg))),
                        _ => None,
                    };
                    if let Some((kind, what)) = bad {
                        cx.rep.violation(&format!("C04/{}/mnem={}/how={}", kind, mnem, how), || format!("`{} {}` behind `{}`: {}", mnem, parts.join(", "), pre.trim().replace('\n', " / "), what), || json!({"kind": "build_str", "source": src, "observed": o.to_json()}));
                    }
                }
            }
        });
    }
    // the rejected line is not the last thing in the program: other segments follow it
    let n_followed = AtomicU64::new(0);
    full.par_iter().filter(|c| !c.uses_alias).for_each(|c| {
        if isa::encode(Core::Full, c.ic.mnem, &c.ic.ops).is_some() || sibling(Core::Full, &c.ic).is_some() {
            return;
        }
        // (numeric windows are thinned: every 7th value; all other categories in full)
        if c.cat == "numeric" {
            let mut h = 0u64;
            for b in c.text.bytes() {
                h = h.wrapping_mul(131).wrapping_add(b as u64);
            }
            if h % 7 != 0 {
                return;
            }
        }
        for (si, suffix) in [".org 0x40\nnop\n", ".eseg\n.db 1\n", ".dseg\n.byte 1\n.cseg\nnop\n", ".cseg\n.org 0x20\n.dw 1\n"].iter().enumerate() {
            let src = format!("{}\n{}", c.text, suffix);
            let o = sut::build_str(&src);
            cx.evals.fetch_add(1, Ordering::Relaxed);
            n_followed.fetch_add(1, Ordering::Relaxed);
            if let Outcome::Ok(b) = &o {
                cx.rep.violation(
                    &format!("C04/accepted-when-followed-by-another-segment/mnem={}/cat={}/suffix={}", c.ic.mnem, c.cat, si),
                    || format!("`{}` cannot be encoded by the ISA, but followed by `{}` the program assembles to {}", c.text, suffix.replace('\n', " / "), sut::hex_trunc(&b.code, 24)),
                    || json!({"kind": "build_str", "source": src, "expected": {"result": "err (any text)"}, "observed": o.to_json()}),
                );
            }
        }
    });

    // the rejected line stands somewhere else than at the top level of the source text: in the
    // body of a called macro (also as the second call, after a harmless first one), in the
    // selected arm of a conditional, behind data / RAM / EEPROM segments, in an included file;
    // and the offending number reaches the line as a macro argument
    let n_surrounded = AtomicU64::new(0);
    let scratch = crate::report::Scratch::new("c04");
    let n_file = AtomicU64::new(0);
    full.par_iter().filter(|c| !c.uses_alias).for_each(|c| {
        if isa::encode(Core::Full, c.ic.mnem, &c.ic.ops).is_some() || sibling(Core::Full, &c.ic).is_some() {
            return;
        }
        let mut h = 0u64;
        for b in c.text.bytes() {
            h = h.wrapping_mul(131).wrapping_add(b as u64);
        }
        if c.cat == "numeric" && h % 5 != 0 {
            return;
        }
        let mut programs: Vec<(&str, String, Option<String>)> = vec![
            ("macro-body", format!(".macro ctx_m\nnop\n{}\n.endm\nnop\nctx_m\n", c.text), None),
            ("macro-body-second-call", format!(".macro ctx_m\n.if @0\n{}\n.else\nnop\n.endif\n.endm\nctx_m 0\nctx_m 1\n", c.text), None),
            ("selected-arm", format!(".equ ctx_one = 1\n.if ctx_one\n{}\n.else\nnop\n.endif\n", c.text), None),
            ("elif-arm", format!(".if 0\nnop\n.elif 1\nnop\n{}\n.endif\nnop\n", c.text), None),
            ("behind-other-segments", format!("nop\n.dseg\nctx_v: .byte 2\n.eseg\n.db 1\n.cseg\n{}\n", c.text), None),
        ];
        if let Some(Opnd::Imm(k)) = c.ic.ops.get(c.pos) {
            if c.cat == "numeric" && *k != i64::MIN {
                let mut parts: Vec<String> = c.ic.ops.iter().map(|o| o.text()).collect();
                // (the argument is the operand as written: `pc+65` for a relative target)
                let arg = if icase::is_relative(c.ic.mnem) { { let t = *k as i128 + 1; if t >= 0 { format!("pc+{}", t) } else { format!("pc-{}", -t) } } } else { format!("{}", k) };
                parts[c.pos] = "@0".to_string();
                programs.push(("macro-argument", format!(".macro ctx_m\n{} {}\n.endm\nctx_m {}\n", c.ic.mnem, parts.join(", "), arg), None));
                parts[c.pos] = "@1".to_string();
                programs.push(("second-macro-argument-of-second-call", format!(".macro ctx_m\nnop\n.if @0\n{} {}\n.endif\n.endm\nctx_m 0, 0\nctx_m 1, {}\n", c.ic.mnem, parts.join(", "), arg), None));
            }
        }
        if h % 8 == 0 {
            programs.push(("included-file", ".include \"ctx_part.inc\"\nnop\n".to_string(), Some(format!("nop\n{}\n", c.text))));
        }
        for (how, src, part) in programs.iter() {
            let o = match part {
                None => sut::build_str(src),
                Some(t) => {
                    let d = scratch.path.join(format!("t{}", n_file.fetch_add(1, Ordering::Relaxed)));
                    std::fs::create_dir_all(&d).unwrap_or_else(|e| machinery_fail(&format!("C04 scratch: {}", e)));
                    std::fs::write(d.join("ctx_part.inc"), t).unwrap_or_else(|e| machinery_fail(&format!("C04 scratch: {}", e)));
                    std::fs::write(d.join("main.asm"), src).unwrap_or_else(|e| machinery_fail(&format!("C04 scratch: {}", e)));
                    let o = sut::build_file(d.join("main.asm"), BTreeSet::new());
                    let _ = std::fs::remove_dir_all(&d);
                    o
                }
            };
            cx.evals.fetch_add(1, Ordering::Relaxed);
            n_surrounded.fetch_add(1, Ordering::Relaxed);
            if let Outcome::Ok(b) = &o {
                cx.rep.violation(
                    &format!("C04/accepted-in-a-surrounding/mnem={}/cat={}/where={}", c.ic.mnem, c.cat, how),
                    || format!("`{}` cannot be encoded by the ISA, but placed `{}` the program assembles to {}", c.text, how, sut::hex_trunc(&b.code, 24)),
                    || match part {
                        None => json!({"kind": "build_str", "source": src, "expected": {"result": "err (any text)"}, "observed": o.to_json()}),
                        Some(t) => json!({"kind": "file_tree", "files": {"main.asm": src, "ctx_part.inc": t}, "main": "main.asm", "pasted_program": format!("{}nop\n", t), "expected": {"result": "err (any text)"}, "observed": o.to_json()}),
                    },
                );
            }
        }
    });
    drop(scratch);
    rep.guard(n_surrounded.load(Ordering::Relaxed) > 20_000, "fewer than 20k must-reject lines were placed in surroundings");

    let mnems: BTreeSet<&str> = full.iter().map(|c| c.ic.mnem).collect();
    rep.guard(mnems.len() >= 110, "fewer than 110 mnemonics enumerated");
    rep.guard(must_reject_full > 20_000, "fewer than 20k must-reject cases");
    rep.guard(cx.ok_seen.load(Ordering::Relaxed) > 1000 && cx.err_seen.load(Ordering::Relaxed) > 1000, "need both Ok and Err outcomes");
    for cat in ["legal", "register", "register-pair", "register-alias", "numeric", "kind", "count-missing", "count-surplus"] {
        rep.guard(cats.get(cat).copied().unwrap_or(0) > 0, &format!("category {} not generated", cat));
    }
    for i in [1usize, full.len() / 2, full.len() - 3] {
        let c = &full[i];
        rep.sample(|| json!({"source": c.text, "category": c.cat, "reference": match isa::encode(Core::Full, c.ic.mnem, &c.ic.ops) { Some(w) => json!(sut::hex(&isa::words_to_bytes(&w))), None => json!("must be rejected") }}));
    }
    rep.sample(|| { let c = &reduced[reduced.len() / 2]; json!({"source": format!(".device ATtiny20\n{}", c.text), "category": c.cat, "reference": match isa::encode(Core::Reduced, c.ic.mnem, &c.ic.ops) { Some(w) => json!(sut::hex(&isa::words_to_bytes(&w))), None => json!("must be rejected") }}) });
    rep.assume("ld/ldd/st/std written with the sibling's addressing form are accepted iff the bytes are the sibling's encoding of exactly the operand written (or rejected)");
    rep.assume("negative 8-bit immediates -128..-1 are legal (two's complement, as AVRASM)");
    rep.assume("a caught panic counts as 'rejected' here and is reported under C16, so one root cause is not reported twice");
    rep.assume("on a selected device an encodable instruction may be rejected because the device lacks it (C13); only 'unencodable => not Ok' and 'Ok => exact bytes' are required there");
    let coverage = cov(json!({
        "evaluations": cx.evals.load(Ordering::Relaxed),
        "distinct_nontrivial": must_reject_full,
        "rule": "per mnemonic: a few legal base tuples; each register position x r0..r31 (+ .def alias); both register positions of a two-register mnemonic x all 32x32 pairs; each numeric field x a window beyond both ends of its legal range + extremes up to +-(2^63-1); each position x each operand kind (register, 9 pointer forms, displacement forms, number); operand counts 0..3; run one per build on no device, ATtiny20 (reduced core) and ATtiny11; relative jumps/branches also on ATmega8, ATtiny13, ATtiny45; every must-reject line (numeric windows thinned to every 7th value) also followed by each of four other segments (.org+code, .eseg data, .dseg+.cseg, .cseg+.org+data), and (numeric windows thinned to every 5th value) in the body of a called macro, of its second call, in a selected .if / .elif arm, behind other segments, with the number as a macro argument, and (every 8th) in an included file. distinct_nontrivial = distinct source lines (no device) that the reference says must be rejected; evaluations counts all builds",
        "exhaustive": true,
        "distinct_cases_full_core": distinct_full,
        "cases_reduced_core_specific": reduced.len(),
        "categories": cats,
        "mnemonics": mnems.len(),
        "outcomes": {"ok": cx.ok_seen.load(Ordering::Relaxed), "err": cx.err_seen.load(Ordering::Relaxed), "panic_left_to_C16": cx.panic_seen.load(Ordering::Relaxed)},
        "must_reject_values_through_symbols_programs": n_via_symbols.load(Ordering::Relaxed),
        "relative_targets_from_a_captured_position_programs": n_captured_pc.load(Ordering::Relaxed),
        "must_reject_lines_followed_by_another_segment": n_followed.load(Ordering::Relaxed),
        "must_reject_lines_in_surroundings_programs": n_surrounded.load(Ordering::Relaxed),
        "lenient_sibling_form_accepted": cx.lenient_used.load(Ordering::Relaxed),
        "caps_hit": [],
        "trusted_base": ["harness isa::encode (self-checked against isa::decode over 2^16 opcodes)"],
    }));
    rep.finish(coverage)
}
