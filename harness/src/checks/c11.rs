//! C11 — including a file is the same as pasting it, and files are found where documented.
//! Enumeration of file-tree configurations (real directory trees under the scratch directory).

use std::collections::{BTreeMap, BTreeSet};
use std::path::{Path, PathBuf};
use std::sync::atomic::{AtomicU64, Ordering};
use std::sync::Mutex;

use rayon::prelude::*;
use serde_json::json;

use crate::report::{cov, machinery_fail, Report, Scratch, Tier};
use crate::sut::{self, Outcome};

#[derive(Clone, Copy, PartialEq, Eq, Debug, Hash, PartialOrd, Ord)]
enum Loc {
    SameDir,
    SubDir,
    CallerDir,
    IncPathRel,
    IncPathAbs,
    IncPathInEarlierFile,
    AbsPath,
    Nowhere,
}

const LOCS: [Loc; 8] = [Loc::SameDir, Loc::SubDir, Loc::CallerDir, Loc::IncPathRel, Loc::IncPathAbs, Loc::IncPathInEarlierFile, Loc::AbsPath, Loc::Nowhere];

/// a base program: atomic units (a unit is one or more lines that must stay in one file)
fn bases() -> Vec<(&'static str, Vec<Vec<&'static str>>)> {
    vec![
        (
            "symbols-both-directions",
            vec![
                vec![".equ k_early = 5"],
                vec!["ldi r16, k_early", ".message \"mk1\""],
                vec!["ldi r17, k_late"],
                vec![".equ k_late = 9"],
                vec!["lab_x: .dw lab_x, k_early + k_late"],
                vec![".message \"mk2\"", "rjmp lab_x"],
            ],
        ),
        (
            "macro-across-files",
            vec![
                vec!["m_inc 1"],
                vec![".macro m_inc", "ldi r18, @0", ".message \"mk3\"", ".endmacro"],
                vec!["m_inc 3"],
                vec!["M_INC 4"],
                vec![".message \"mk4\"", "nop"],
            ],
        ),
        (
            "device-in-include",
            vec![
                vec![".device ATtiny20"],
                vec!["lds r16, 0x60"],
                vec!["nop", ".dseg"],
                vec!["v_one: .byte 2"],
                vec![".cseg", ".dw v_one"],
                vec![".message \"mk5\""],
            ],
        ),
        (
            // data lines of different byte lengths: after cutting, lines with the same line number
            // in different files have different lengths (odd/even, flash padding, EEPROM packing)
            "data-lines",
            vec![
                vec![".db 1"],
                vec![".db 1, 2, 3, 4"],
                vec![".db \"abc\"", ".message \"mk8\""],
                vec![".eseg", ".db 5, 6, 7", ".db 8", ".cseg"],
                vec!["tail_l: .db 9, 10"],
                vec![".dw tail_l"],
            ],
        ),
        (
            "conditional-and-flags",
            vec![
                vec![".define FLAG_A"],
                vec![".ifdef FLAG_A", "ldi r20, 1", ".message \"mk6\"", ".else", "ldi r20, 2", ".endif"],
                vec!["ldi r21, 3"],
                vec![".ifndef FLAG_A", ".error \"not selected\"", ".endif"],
                vec![".eseg", ".db 1, 2, 3", ".cseg"],
                vec![".message \"mk7\"", "ldi r21, 4"],
            ],
        ),
    ]
}

/// (file index of the parent, unit range moved into the child) — children are numbered from 1
#[derive(Clone, Debug)]
struct Split {
    /// child k (1-based) is cut out of file `parent[k-1]` and covers units [lo, hi) of the base
    parent: Vec<usize>,
    range: Vec<(usize, usize)>,
    shape: &'static str,
}

fn splits(n: usize, max_children: usize) -> Vec<Split> {
    let mut v = vec![Split { parent: vec![], range: vec![], shape: "no-include" }];
    let blocks = |lo: usize, hi: usize| -> Vec<(usize, usize)> {
        let mut b = vec![];
        for i in lo..hi {
            for j in i + 1..=hi {
                b.push((i, j));
            }
        }
        b
    };
    for (i, j) in blocks(0, n) {
        v.push(Split { parent: vec![0], range: vec![(i, j)], shape: "one-include" });
        if max_children >= 2 {
            // nested: a proper sub-block of the first child
            for (p, q) in blocks(i, j) {
                if (p, q) != (i, j) {
                    v.push(Split { parent: vec![0, 1], range: vec![(i, j), (p, q)], shape: "nested-depth-2" });
                    if max_children >= 3 {
                        for (r, s) in blocks(p, q) {
                            if (r, s) != (p, q) && q - p <= 3 {
                                v.push(Split { parent: vec![0, 1, 2], range: vec![(i, j), (p, q), (r, s)], shape: "nested-depth-3" });
                            }
                        }
                    }
                }
            }
            // siblings: a second block after the first
            for (p, q) in blocks(j, n) {
                v.push(Split { parent: vec![0, 0], range: vec![(i, j), (p, q)], shape: "siblings" });
            }
        }
    }
    v
}

struct Config<'a> {
    base_name: &'static str,
    units: &'a [Vec<&'static str>],
    split: &'a Split,
    locs: Vec<Loc>,
    /// the innermost child ends with `.exit` followed by lines that must not be assembled
    exit_in_last: bool,
}

struct Built {
    main: PathBuf,
    paths: BTreeSet<PathBuf>,
    flattened: String,
    /// file names (as written) of includes that exist nowhere
    missing: Vec<String>,
    files: BTreeMap<String, String>,
}

fn write_file(p: &Path, text: &str, files: &mut BTreeMap<String, String>, root: &Path) {
    if let Some(d) = p.parent() {
        let _ = std::fs::create_dir_all(d);
    }
    std::fs::write(p, text).expect("write scratch file");
    files.insert(p.strip_prefix(root).unwrap_or(p).to_string_lossy().to_string(), text.to_string());
}

/// Build the directory tree for a configuration under `root` and compute the flattened text.
fn materialise(cfg: &Config, root: &Path, id: usize) -> Built {
    let nchild = cfg.split.parent.len();
    let ext = root.join("ext");
    let _ = std::fs::create_dir_all(&ext);
    let mut files: BTreeMap<String, String> = BTreeMap::new();
    // directory of each file: main first
    let mut dir_of: Vec<PathBuf> = vec![root.join("src")];
    let mut name_of: Vec<String> = vec![format!("main_{}.asm", id)];
    // the text each file contributes in place of an include line: computed innermost first
    // children cover nested ranges; build per-file unit lists
    let mut missing = vec![];
    // where each child lives and how its includer refers to it
    let mut include_lines: Vec<Vec<String>> = vec![vec![]; nchild + 1]; // lines that replace the child in its parent (directives + .include)
    for k in 1..=nchild {
        let parent = cfg.split.parent[k - 1];
        let pdir = dir_of[parent].clone();
        let fname = format!("child{}_{}.inc", k, id);
        let (dir, written, pre): (PathBuf, String, Vec<String>) = match cfg.locs[k - 1] {
            Loc::SameDir => (pdir.clone(), fname.clone(), vec![]),
            Loc::SubDir => (pdir.join(format!("sub{}", k)), format!("sub{}/{}", k, fname), vec![]),
            Loc::CallerDir => (ext.clone(), fname.clone(), vec![]),
            Loc::IncPathRel => (pdir.join(format!("ipr{}", k)), fname.clone(), vec![format!(".includepath \"ipr{}\"", k)]),
            Loc::IncPathAbs => {
                let d = root.join(format!("ipa{}", k));
                (d.clone(), fname.clone(), vec![format!(".includepath \"{}\"", d.display())])
            }
            Loc::IncPathInEarlierFile => {
                // a helper file included just before carries the .includepath; the directory is
                // relative to the helper's own location (a sub-directory of the includer's)
                let helper_dir = pdir.join(format!("hlp{}", k));
                let helper = helper_dir.join(format!("helper{}_{}.inc", k, id));
                write_file(&helper, &format!(".includepath \"ipe{}\"\n", k), &mut files, root);
                (helper_dir.join(format!("ipe{}", k)), fname.clone(), vec![format!(".include \"hlp{}/helper{}_{}.inc\"", k, k, id)])
            }
            Loc::AbsPath => {
                let d = root.join(format!("abs{}", k));
                (d.clone(), d.join(&fname).display().to_string(), vec![])
            }
            Loc::Nowhere => {
                missing.push(fname.clone());
                (root.join("nowhere-not-created"), fname.clone(), vec![])
            }
        };
        dir_of.push(dir);
        name_of.push(fname);
        let mut l = pre;
        l.push(format!(".include \"{}\"", written));
        include_lines[k] = l;
    }
    // compose file texts, innermost child first; flattened text alongside
    let n = cfg.units.len();
    // owner[u] = deepest file that holds unit u
    let mut owner = vec![0usize; n];
    for k in 1..=nchild {
        let (lo, hi) = cfg.split.range[k - 1];
        for u in lo..hi {
            owner[u] = k;
        }
    }
    let mut text_of: Vec<String> = vec![String::new(); nchild + 1];
    let mut flat_of: Vec<String> = vec![String::new(); nchild + 1];
    for f in (0..=nchild).rev() {
        let (lo, hi) = if f == 0 { (0, n) } else { cfg.split.range[f - 1] };
        let mut text = String::new();
        let mut flat = String::new();
        let mut u = lo;
        while u < hi {
            // is u the start of a direct child of f?
            let child = (1..=nchild).find(|k| cfg.split.parent[k - 1] == f && cfg.split.range[k - 1].0 == u);
            if let Some(k) = child {
                for l in &include_lines[k] {
                    text.push_str(l);
                    text.push('\n');
                }
                if cfg.locs[k - 1] != Loc::Nowhere {
                    flat.push_str(&flat_of[k]);
                }
                u = cfg.split.range[k - 1].1;
            } else {
                for l in &cfg.units[u] {
                    text.push_str(l);
                    text.push('\n');
                    flat.push_str(l);
                    flat.push('\n');
                }
                u += 1;
            }
        }
        if f == nchild && f > 0 && cfg.exit_in_last {
            // .exit ends only the file it is in
            text.push_str(".exit\nldi r29, 0xee\n!! this line is never read\n");
        }
        text_of[f] = text;
        flat_of[f] = flat;
    }
    for f in 0..=nchild {
        if f > 0 && cfg.locs[f - 1] == Loc::Nowhere {
            continue;
        }
        write_file(&dir_of[f].join(&name_of[f]), &text_of[f], &mut files, root);
    }
    let mut paths = BTreeSet::new();
    paths.insert(ext);
    Built { main: dir_of[0].join(&name_of[0]), paths, flattened: flat_of[0].clone(), missing, files }
}

fn markers(msgs: &[String]) -> Vec<String> {
    msgs.iter()
        .map(|m| match m.find("mk") {
            Some(i) => m[i..].chars().take_while(|c| c.is_ascii_alphanumeric()).collect(),
            None => format!("<{}>", m),
        })
        .collect()
}

pub fn run(tier: Tier) -> i32 {
    let rep = Report::new("C11", tier, "exploration");
    let scratch = Scratch::new("c11");
    let bases = bases();
    let max_children = if tier.thorough() { 3 } else { 2 };
    // enumerate configurations
    struct Item {
        base: usize,
        split: usize,
        locs: Vec<Loc>,
        exit: bool,
    }
    let all_splits: Vec<Vec<Split>> = bases.iter().map(|(_, u)| splits(u.len(), max_children)).collect();
    let mut items: Vec<Item> = vec![];
    for (bi, _) in bases.iter().enumerate() {
        for (si, sp) in all_splits[bi].iter().enumerate() {
            let nchild = sp.parent.len();
            let mut combos: Vec<Vec<Loc>> = vec![vec![]];
            for _ in 0..nchild {
                let mut next = vec![];
                for c in &combos {
                    for l in LOCS {
                        let mut t = c.clone();
                        t.push(l);
                        next.push(t);
                    }
                }
                combos = next;
            }
            for locs in combos {
                // quick tier: the full cross product of location kinds only on every 9th split;
                // elsewhere both edges alike, or one of them in the includer's directory
                if !tier.thorough() && nchild == 2 && si % 9 != 0 && !(locs[0] == locs[1] || locs[0] == Loc::SameDir || locs[1] == Loc::SameDir) {
                    continue;
                }
                // depth-3 trees: only combinations where at most two edges are not SameDir (bounds the count)
                if nchild == 3 && locs.iter().filter(|l| **l != Loc::SameDir).count() > 2 {
                    continue;
                }
                for exit in [false, true] {
                    if exit && nchild == 0 {
                        continue;
                    }
                    if exit && !tier.thorough() && nchild == 2 && locs.iter().any(|l| !matches!(l, Loc::SameDir | Loc::SubDir)) {
                        continue;
                    }
                    items.push(Item { base: bi, split: si, locs: locs.clone(), exit });
                }
            }
        }
    }
    let evals = AtomicU64::new(0);
    let n_ok = AtomicU64::new(0);
    let n_err = AtomicU64::new(0);
    let loc_use: Mutex<BTreeMap<String, u64>> = Mutex::new(BTreeMap::new());
    let outcomes: Mutex<BTreeSet<u64>> = Mutex::new(BTreeSet::new());

    let check = |id: usize, it: &Item, cwd_mode: bool| {
        let (bname, units) = (&bases[it.base].0, &bases[it.base].1);
        let sp = &all_splits[it.base][it.split];
        let cfg = Config { base_name: bname, units, split: sp, locs: it.locs.clone(), exit_in_last: it.exit };
        let root = scratch.path.join(format!("c{}", id));
        let b = materialise(&cfg, &root, id);
        let main = if cwd_mode { b.main.strip_prefix(&root).unwrap().to_path_buf() } else { b.main.clone() };
        let o1 = sut::build_file(main, b.paths.clone());
        let o2 = sut::build_str(&b.flattened);
        evals.fetch_add(1, Ordering::Relaxed);
        for l in &it.locs {
            *loc_use.lock().unwrap().entry(format!("{:?}", l)).or_insert(0) += 1;
        }
        let mut bad: Option<(&str, String)> = None;
        if !b.missing.is_empty() {
            match &o1 {
                Outcome::Err(e) => {
                    n_err.fetch_add(1, Ordering::Relaxed);
                    if !b.missing.iter().any(|f| e.contains(f.as_str())) {
                        bad = Some(("error-does-not-name-file", format!("the error for a file that exists nowhere does not name it ({:?}): {}", b.missing, e)));
                    }
                }
                Outcome::Ok(_) => bad = Some(("missing-file-accepted", format!("{:?} exists nowhere but the build succeeds", b.missing))),
                Outcome::Panic { site, msg } => bad = Some(("panic", format!("panic at {}: {}", site, msg))),
            }
        } else {
            match (&o1, &o2) {
                (Outcome::Ok(b1), Outcome::Ok(b2)) => {
                    n_ok.fetch_add(1, Ordering::Relaxed);
                    {
                        use std::hash::{Hash, Hasher};
                        let mut h = std::collections::hash_map::DefaultHasher::new();
                        b1.code.hash(&mut h);
                        b1.eeprom.hash(&mut h);
                        outcomes.lock().unwrap().insert(h.finish());
                    }
                    if b1.code != b2.code || b1.eeprom != b2.eeprom {
                        bad = Some(("differs-from-paste", format!("images differ from the pasted program: code {} vs {}, eeprom {} vs {}", sut::hex_trunc(&b1.code, 40), sut::hex_trunc(&b2.code, 40), sut::hex_trunc(&b1.eeprom, 16), sut::hex_trunc(&b2.eeprom, 16))));
                    } else if (b1.flash_size, b1.eeprom_size, b1.ram_size, b1.ram_filling) != (b2.flash_size, b2.eeprom_size, b2.ram_size, b2.ram_filling) {
                        bad = Some(("differs-from-paste", "reported sizes / ram_filling differ from the pasted program".into()));
                    } else if markers(&b1.messages) != markers(&b2.messages) {
                        bad = Some(("differs-from-paste", format!("messages {:?} vs {:?} for the pasted program", markers(&b1.messages), markers(&b2.messages))));
                    }
                }
                (Outcome::Err(e), Outcome::Ok(_)) => {
                    n_err.fetch_add(1, Ordering::Relaxed);
                    bad = Some((if e.contains("Cannot read file") { "not-found" } else { "rejected" }, format!("the pasted program builds but build_file fails: {}", e)));
                }
                (Outcome::Ok(_), Outcome::Err(e)) => bad = Some(("pasted-program-invalid", format!("build_file succeeds but the pasted program fails: {}", e))),
                (Outcome::Err(_), Outcome::Err(e)) => bad = Some(("pasted-program-invalid", format!("the pasted program does not build (harness base program invalid?): {}", e))),
                (Outcome::Panic { site, msg }, _) | (_, Outcome::Panic { site, msg }) => bad = Some(("panic", format!("panic at {}: {}", site, msg))),
            }
        }
        if let Some((kind, what)) = bad {
            let locs: BTreeSet<String> = it.locs.iter().filter(|l| **l != Loc::SameDir).map(|l| format!("{:?}", l)).collect();
            let key = format!("C11/{}/locations={}", kind, if locs.is_empty() { "SameDir".to_string() } else { locs.into_iter().collect::<Vec<_>>().join("+") });
            let what = format!("{} [shape {}, .exit in innermost file: {}, main given relative to the current directory: {}]", what, sp.shape, it.exit, cwd_mode);
            rep.violation(&key, || format!("base {} split {:?} locations {:?}: {}", cfg.base_name, sp.range, it.locs, what), || {
                json!({"kind": "file_tree", "files": b.files, "main": b.main.strip_prefix(&root).unwrap().to_string_lossy(), "caller_paths": ["ext"], "pasted_program": b.flattened, "observed": o1.to_json(), "pasted_observed": o2.to_json()})
            });
        } else if id % 997 == 0 {
            rep.sample(|| json!({"files": b.files, "main": b.main.strip_prefix(&root).unwrap().to_string_lossy(), "caller_paths": ["ext"], "pasted_program": b.flattened}));
        }
        let _ = std::fs::remove_dir_all(&root);
    };
    items.par_iter().enumerate().for_each(|(id, it)| check(id, it, false));

    // "the path as written", relative to the process's current directory: sequential, because the
    // current directory is process-global
    let mut cwd_cases = 0u64;
    {
        let old = std::env::current_dir().ok();
        for (id, it) in items.iter().enumerate() {
            // a subset: one-include and nested shapes where every edge is SameDir/SubDir/CallerDir
            let sp = &all_splits[it.base][it.split];
            if it.exit || sp.parent.is_empty() || !(id % (if tier.thorough() { 23 } else { 67 }) == 0) || it.locs.iter().any(|l| matches!(l, Loc::Nowhere)) {
                continue;
            }
            let root = scratch.path.join(format!("c{}", 1_000_000 + id));
            let _ = std::fs::create_dir_all(&root);
            if std::env::set_current_dir(&root).is_err() {
                continue;
            }
            check(1_000_000 + id, it, true);
            cwd_cases += 1;
            if let Some(o) = &old {
                let _ = std::env::set_current_dir(o);
            }
        }
        if let Some(o) = &old {
            let _ = std::env::set_current_dir(o);
        }
    }
    // hand-written trees for what the cutter cannot produce: the same file name in several
    // directories, .exit inside a selected arm (include guards), a directory that carries the
    // included name, files included twice
    enum Want {
        Pasted(&'static str),
        ErrNaming(&'static str),
    }
    struct Tree {
        name: &'static str,
        files: Vec<(&'static str, &'static str)>,
        caller_dirs: Vec<&'static str>,
        /// directories to create without any file in them
        dirs: Vec<&'static str>,
        want: Want,
    }
    let trees: Vec<Tree> = vec![
        Tree {
            name: "same-name-beside-two-includers",
            files: vec![
                ("src/main.asm", ".include \"uart/uart.inc\"\n.include \"spi/spi.inc\"\nldi r16, UART_K\nldi r17, SPI_K\n"),
                ("src/uart/uart.inc", ".include \"config.inc\"\n.equ UART_K = UART_CFG + 1\n"),
                ("src/uart/config.inc", ".equ UART_CFG = 1\n"),
                ("src/spi/spi.inc", ".include \"config.inc\"\n.equ SPI_K = SPI_CFG + 1\n"),
                ("src/spi/config.inc", ".equ SPI_CFG = 4\n"),
            ],
            caller_dirs: vec![],
            dirs: vec![],
            want: Want::Pasted(".equ UART_CFG = 1\n.equ UART_K = UART_CFG + 1\n.equ SPI_CFG = 4\n.equ SPI_K = SPI_CFG + 1\nldi r16, UART_K\nldi r17, SPI_K\n"),
        },
        Tree {
            name: "name-that-exists-only-beside-another-includer",
            files: vec![
                ("src/main.asm", ".include \"drv/drv.inc\"\n.include \"only_here.inc\"\nnop\n"),
                ("src/drv/drv.inc", ".include \"only_here.inc\"\n"),
                ("src/drv/only_here.inc", "ldi r16, 1\n"),
            ],
            caller_dirs: vec![],
            dirs: vec![],
            want: Want::ErrNaming("only_here.inc"),
        },
        Tree {
            name: "include-guard-with-exit",
            files: vec![
                ("src/main.asm", ".include \"lib.inc\"\nldi r16, LIB_K\n.include \"lib.inc\"\nldi r17, LIB_K + 1\n"),
                ("src/lib.inc", ".ifdef LIB_INC\n.exit\n.endif\n.define LIB_INC\n.equ LIB_K = 7\nldi r18, 1\n"),
            ],
            caller_dirs: vec![],
            dirs: vec![],
            want: Want::Pasted(".define LIB_INC\n.equ LIB_K = 7\nldi r18, 1\nldi r16, LIB_K\nldi r17, LIB_K + 1\n"),
        },
        Tree {
            name: "exit-in-selected-else-arm-and-nested",
            files: vec![
                ("src/main.asm", ".equ MODE = 2\n.include \"a.inc\"\nldi r16, 1\n.include \"sub/b.inc\"\nldi r16, 2\n"),
                ("src/a.inc", "ldi r17, 1\n.if MODE == 1\nldi r17, 2\n.else\nldi r17, 3\n.exit\n.endif\nldi r17, 4\n"),
                ("src/sub/b.inc", ".if 1\n.if MODE > 1\nldi r18, 1\n.include \"c.inc\"\nldi r18, 2\n.exit\n.endif\n.endif\n!! never read\n"),
                ("src/sub/c.inc", ".if 1\n.exit\n.endif\nldi r19, 9\n"),
            ],
            caller_dirs: vec![],
            dirs: vec![],
            want: Want::Pasted(".equ MODE = 2\nldi r17, 1\nldi r17, 3\nldi r16, 1\nldi r18, 1\nldi r18, 2\nldi r16, 2\n"),
        },
        Tree {
            name: "mutual-inclusion-behind-guards",
            files: vec![
                ("src/main.asm", ".include \"defs.inc\"\nldi r16, DEFS_K + MAC_K\nmac_m\n"),
                ("src/defs.inc", ".ifndef DEFS_G\n.define DEFS_G\n.equ DEFS_K = 1\n.include \"lib/macros.inc\"\n.endif\n"),
                ("src/lib/macros.inc", ".ifndef MAC_G\n.define MAC_G\n.include \"defs.inc\"\n.equ MAC_K = 2\n.macro mac_m\nnop\n.endm\n.endif\n"),
            ],
            caller_dirs: vec![],
            dirs: vec![],
            want: Want::Pasted(".define DEFS_G\n.equ DEFS_K = 1\n.define MAC_G\n.equ MAC_K = 2\n.macro mac_m\nnop\n.endm\nldi r16, DEFS_K + MAC_K\nmac_m\n"),
        },
        Tree {
            name: "file-including-itself-under-a-terminating-condition",
            files: vec![
                ("src/main.asm", ".include \"rec.inc\"\nldi r17, 9\n"),
                ("src/rec.inc", ".ifndef REC_1\n.define REC_1\nldi r16, 1\n.include \"rec.inc\"\n.else\n.ifndef REC_2\n.define REC_2\nldi r16, 2\n.include \"rec.inc\"\n.else\nldi r16, 3\n.endif\n.endif\n"),
            ],
            caller_dirs: vec![],
            dirs: vec![],
            want: Want::Pasted("ldi r16, 1\nldi r16, 2\nldi r16, 3\nldi r17, 9\n"),
        },
        Tree {
            name: "file-in-caller-dir-that-includes-then-file-outside-needs-that-dir",
            files: vec![
                ("proj/main.asm", ".include \"uart.inc\"\n.include \"timer.inc\"\nldi r16, UART_K + TIMER_K + REGS_K\n"),
                ("lib/uart.inc", ".include \"regs.inc\"\n.equ UART_K = 1\n"),
                ("lib/regs.inc", ".equ REGS_K = 4\n"),
                ("lib/timer.inc", ".equ TIMER_K = 2\n"),
                ("src/main.asm", ".include \"../proj/main.asm\"\n"),
            ],
            caller_dirs: vec!["lib"],
            dirs: vec![],
            want: Want::Pasted(".equ REGS_K = 4\n.equ UART_K = 1\n.equ TIMER_K = 2\nldi r16, UART_K + TIMER_K + REGS_K\n"),
        },
        Tree {
            name: "file-in-includepath-dir-that-includes-then-includer-needs-that-dir",
            files: vec![
                ("src/main.asm", ".includepath \"../lib\"\n.include \"uart.inc\"\n.include \"timer.inc\"\nldi r16, UART_K + TIMER_K + REGS_K\n"),
                ("lib/uart.inc", ".include \"regs.inc\"\n.equ UART_K = 1\n"),
                ("lib/regs.inc", ".equ REGS_K = 4\n"),
                ("lib/timer.inc", ".equ TIMER_K = 2\n"),
            ],
            caller_dirs: vec![],
            dirs: vec![],
            want: Want::Pasted(".equ REGS_K = 4\n.equ UART_K = 1\n.equ TIMER_K = 2\nldi r16, UART_K + TIMER_K + REGS_K\n"),
        },
        Tree {
            name: "guarded-file-with-else-arm-included-twice",
            files: vec![
                ("src/main.asm", ".include \"g.inc\"\n.include \"g.inc\"\nldi r18, 7\n"),
                ("src/g.inc", ".ifndef G_INC\n.define G_INC\nldi r16, 1\n.else\nldi r16, 2\n.endif\n"),
            ],
            caller_dirs: vec![],
            dirs: vec![],
            want: Want::Pasted("ldi r16, 1\nldi r16, 2\nldi r18, 7\n"),
        },
        Tree {
            name: "guarded-file-with-text-between-two-conditionals-included-twice",
            files: vec![
                ("src/main.asm", ".include \"h.inc\"\n.include \"h.inc\"\nldi r18, 7\n"),
                ("src/h.inc", "; header\n.ifndef H_INC\n.define H_INC\nldi r16, 1\n.endif\nldi r17, 5\n.ifdef H_INC\nldi r17, 6\n.endif\n; trailer\n"),
            ],
            caller_dirs: vec![],
            dirs: vec![],
            want: Want::Pasted("ldi r16, 1\nldi r17, 5\nldi r17, 6\nldi r17, 5\nldi r17, 6\nldi r18, 7\n"),
        },
        Tree {
            name: "directory-with-the-included-name-comes-first",
            files: vec![
                ("src/main.asm", ".include \"tables.inc\"\nldi r16, TAB_K\n"),
                ("ext/tables.inc", ".equ TAB_K = 5\n"),
            ],
            caller_dirs: vec!["ext"],
            dirs: vec!["src/tables.inc"],
            want: Want::Pasted(".equ TAB_K = 5\nldi r16, TAB_K\n"),
        },
        Tree {
            name: "only-a-directory-with-the-included-name",
            files: vec![("src/main.asm", ".include \"tables.inc\"\nnop\n")],
            caller_dirs: vec![],
            dirs: vec!["src/tables.inc"],
            want: Want::ErrNaming("tables.inc"),
        },
        Tree {
            name: "includepath-in-include-naming-its-own-directory",
            files: vec![
                ("src/main.asm", ".include \"cfg/paths.inc\"\n.include \"g.inc\"\nldi r16, G_K\n"),
                ("src/cfg/paths.inc", ".includepath \".\"\n"),
                ("src/cfg/g.inc", ".equ G_K = 6\n"),
            ],
            caller_dirs: vec![],
            dirs: vec![],
            want: Want::Pasted(".equ G_K = 6\nldi r16, G_K\n"),
        },
        Tree {
            name: "includepath-in-a-nested-include-naming-the-directory-of-its-includer",
            files: vec![
                ("src/main.asm", ".include \"sub/p.inc\"\n.include \"q.inc\"\nldi r16, Q_K\n"),
                ("src/sub/p.inc", ".include \"c.inc\"\n"),
                ("src/sub/c.inc", ".includepath \".\"\n"),
                ("src/sub/q.inc", ".equ Q_K = 8\n"),
            ],
            caller_dirs: vec![],
            dirs: vec![],
            want: Want::Pasted(".equ Q_K = 8\nldi r16, Q_K\n"),
        },
        // names are matched as written: a file whose name differs in letter case is another file
        Tree {
            name: "upper-case-name-with-a-lower-case-twin-beside-the-includer",
            files: vec![
                ("src/main.asm", ".include \"Table.inc\"\nldi r16, TAB_K\n"),
                ("src/table.inc", ".equ TAB_K = 0x11\n"),
                ("lib/Table.inc", ".equ TAB_K = 0x33\n"),
            ],
            caller_dirs: vec!["lib"],
            dirs: vec![],
            want: Want::Pasted(".equ TAB_K = 0x33\nldi r16, TAB_K\n"),
        },
        Tree {
            name: "only-a-lower-case-twin-of-the-included-name",
            files: vec![("src/main.asm", ".include \"Missing.inc\"\nnop\n"), ("src/missing.inc", "ldi r16, 1\n"), ("lib/MISSING.INC", "ldi r16, 2\n")],
            caller_dirs: vec!["lib"],
            dirs: vec![],
            want: Want::ErrNaming("Missing.inc"),
        },
        // messages are part of the result: the same text on the same line of two files (or of one
        // file read twice) is printed once per time it is assembled
        Tree {
            name: "same-message-on-the-same-line-of-consecutive-inclusions",
            files: vec![
                ("src/main.asm", ".include \"a.inc\"\n.include \"a.inc\"\n.include \"b.inc\"\nnop\n"),
                ("src/a.inc", ".message \"banner\"\nldi r16, 1\n"),
                ("src/b.inc", ".message \"banner\"\nldi r16, 2\n.warning \"banner\"\n"),
            ],
            caller_dirs: vec![],
            dirs: vec![],
            want: Want::Pasted(".message \"banner\"\nldi r16, 1\n.message \"banner\"\nldi r16, 1\n.message \"banner\"\nldi r16, 2\n.warning \"banner\"\nnop\n"),
        },
    ];
    // (message texts without their location: line numbers restart in every file)
    let bare = |m: &Vec<String>| -> Vec<String> { m.iter().map(|x| match x.rfind(" in line") { Some(i) => x[..i].to_string(), None => x.clone() }).collect() };
    let n_trees = trees.len();
    for (ti, t) in trees.iter().enumerate() {
        let root = scratch.path.join(format!("tree{}", ti));
        let mut files: BTreeMap<String, String> = BTreeMap::new();
        for d in t.dirs.iter() {
            let _ = std::fs::create_dir_all(root.join(d));
        }
        for (p, text) in t.files.iter() {
            write_file(&root.join(p), text, &mut files, &root);
        }
        let paths: BTreeSet<PathBuf> = t.caller_dirs.iter().map(|d| root.join(d)).collect();
        let o = sut::build_file(root.join("src/main.asm"), paths);
        evals.fetch_add(1, Ordering::Relaxed);
        let bad: Option<(&str, String)> = match (&t.want, &o) {
            (Want::Pasted(flat), Outcome::Ok(b)) => match sut::build_str(flat) {
                Outcome::Ok(r) => {
                    if b.code != r.code || b.eeprom != r.eeprom || b.ram_filling != r.ram_filling {
                        Some(("differs-from-pasted", format!("the tree assembles to {} but the pasted text to {}", sut::hex_trunc(&b.code, 40), sut::hex_trunc(&r.code, 40))))
                    } else if bare(&b.messages) != bare(&r.messages) {
                        Some(("differs-from-pasted", format!("the tree prints {:?} but the pasted text {:?}", b.messages, r.messages)))
                    } else {
                        None
                    }
                }
                other => machinery_fail(&format!("the pasted text of tree '{}' does not build: {}", t.name, other.brief())),
            },
            (Want::Pasted(_), Outcome::Err(e)) => Some(("rejected", format!("the pasted text builds but the tree fails: {}", e))),
            (Want::ErrNaming(_), Outcome::Ok(b)) => Some(("found-where-it-is-not", format!("the included file exists in none of the places searched, but the build succeeds: {}", sut::hex_trunc(&b.code, 40)))),
            (Want::ErrNaming(f), Outcome::Err(e)) => {
                if e.contains(f) {
                    None
                } else {
                    Some(("error-does-not-name-the-file", format!("the error does not name {}: {}", f, e)))
                }
            }
            (_, Outcome::Panic { site, msg }) => Some(("panic", format!("panic at {}: {}", site, msg))),
        };
        if let Some((kind, what)) = bad {
            rep.violation(&format!("C11/{}/tree={}", kind, t.name), || what, || {
                json!({"kind": "file_tree", "files": files, "main": "src/main.asm", "caller_paths": t.caller_dirs, "empty_directories": t.dirs,
                       "pasted_program": if let Want::Pasted(f) = &t.want { json!(f) } else { json!(null) }, "must_fail": matches!(t.want, Want::ErrNaming(_)), "observed": o.to_json()})
            });
        }
        let _ = std::fs::remove_dir_all(&root);
    }
    // a file larger than 1 MiB is included like any other (pasted text = the same lines)
    let mut n_special = 0u64;
    {
        let root = scratch.path.join("bigtree");
        let mut files: BTreeMap<String, String> = BTreeMap::new();
        let mut big = String::with_capacity(1_700_000);
        let mut i = 0u32;
        while big.len() < 1_600_000 {
            big.push_str(&format!(".db {}, {}, {}, {}\n", i % 251, (i / 3) % 251, 7, (i * 5) % 251));
            i += 1;
        }
        big.push_str("big_end_l: .dw big_end_l & 0xffff\n");
        let main = ".include \"big.inc\"\nldi r16, low(big_end_l)\n.dw big_end_l >> 16\n";
        write_file(&root.join("src/main.asm"), main, &mut files, &root);
        write_file(&root.join("src/big.inc"), &big, &mut files, &root);
        let pasted = format!("{}ldi r16, low(big_end_l)\n.dw big_end_l >> 16\n", big);
        let o = sut::build_file(root.join("src/main.asm"), BTreeSet::new());
        let r = sut::build_str(&pasted);
        evals.fetch_add(1, Ordering::Relaxed);
        n_special += 1;
        let bad = match (&o, &r) {
            (Outcome::Ok(a), Outcome::Ok(b)) if a.code == b.code => None,
            (Outcome::Ok(a), Outcome::Ok(b)) => Some(format!("the tree assembles to {} bytes but the pasted text to {} bytes", a.code.len(), b.code.len())),
            (other, Outcome::Ok(_)) => Some(format!("the pasted text builds but the tree: {}", other.brief())),
            (_, other) => machinery_fail(&format!("the pasted text of the large-include tree does not build: {}", other.brief())),
        };
        if let Some(what) = bad {
            rep.violation("C11/differs-from-pasted/tree=include-file-larger-than-1-MiB", || what, || json!({"kind": "file_tree", "files": {"src/main.asm": main, "src/big.inc": format!("{} ... ({} bytes, generated: `.db a, b, 7, c` lines, then `big_end_l: .dw big_end_l & 0xffff`)", &big[..200], big.len())}, "main": "src/main.asm", "caller_paths": [], "observed": o.to_json()}));
        }
        let _ = std::fs::remove_dir_all(&root);
    }
    // relative paths that climb: the main file named by a bare or short relative path (the current
    // directory is process-global, so these run one after the other)
    {
        let old = std::env::current_dir().ok();
        let cases: Vec<(&str, &str, &str, &str)> = vec![
            // (name, current directory, main file as given, .includepath operand)
            ("bare-main-and-includepath-dot-dot", "proj/src", "main.asm", "../inc"),
            ("short-relative-main-and-includepath-dot-dot", "proj", "src/main.asm", "../inc"),
            ("bare-main-and-includepath-two-levels-up", "proj/src", "main.asm", "../../proj/inc"),
            ("dotted-main-and-includepath-dot-dot", "proj/src", "./main.asm", "../inc"),
            ("main-through-dot-dot-and-includepath", "proj/inc", "../src/main.asm", "../inc"),
        ];
        for (ci, (name, cwd, main_given, ip)) in cases.iter().enumerate() {
            let root = scratch.path.join(format!("climb{}", ci));
            let mut files: BTreeMap<String, String> = BTreeMap::new();
            let main_text = format!(".includepath \"{}\"\n.include \"defs.inc\"\nldi r16, CLIMB_K\n", ip);
            write_file(&root.join("proj/src/main.asm"), &main_text, &mut files, &root);
            write_file(&root.join("proj/inc/defs.inc"), ".equ CLIMB_K = 0x2a\n", &mut files, &root);
            if std::env::set_current_dir(root.join(cwd)).is_err() {
                continue;
            }
            let o = sut::build_file(PathBuf::from(main_given), BTreeSet::new());
            if let Some(od) = &old {
                let _ = std::env::set_current_dir(od);
            }
            evals.fetch_add(1, Ordering::Relaxed);
            n_special += 1;
            let want = sut::build_str(".equ CLIMB_K = 0x2a\nldi r16, CLIMB_K\n");
            let same = matches!((&o, &want), (Outcome::Ok(a), Outcome::Ok(b)) if a.code == b.code);
            if !same {
                rep.violation(&format!("C11/rejected/tree={}", name), || format!("current directory {}, main file given as `{}`, `.includepath \"{}\"` (relative to the file with the directive): {}", cwd, main_given, ip, o.brief()), || {
                    json!({"kind": "file_tree", "files": files, "main": main_given, "current_directory": cwd, "caller_paths": [], "pasted_program": ".equ CLIMB_K = 0x2a\nldi r16, CLIMB_K\n", "observed": o.to_json()})
                });
            }
            let _ = std::fs::remove_dir_all(&root);
        }
        if let Some(od) = &old {
            let _ = std::env::set_current_dir(od);
        }
    }
    // "the path as written" is a relative one: it is found from the current directory, wherever
    // the main file lies and however it was given (with a directory part, absolute, through ..),
    // at the top level and from inside an included file
    {
        let old = std::env::current_dir().ok();
        // (name, current directory, main file as given (ABS = absolute), nested)
        let cases: Vec<(&str, &str, &str, bool)> = vec![
            ("as-written-from-cwd/main-with-a-directory-part", "proj", "src/main.asm", false),
            ("as-written-from-cwd/main-with-a-directory-part/nested", "proj", "src/main.asm", true),
            ("as-written-from-cwd/main-two-directories-down", "", "proj/src/main.asm", false),
            ("as-written-from-cwd/main-absolute", "proj", "ABS", false),
            ("as-written-from-cwd/main-absolute/nested", "proj", "ABS", true),
            ("as-written-from-cwd/main-through-dot-dot", "proj/inc", "../src/main.asm", true),
            ("as-written-from-cwd/main-dotted", "proj", "./src/main.asm", true),
        ];
        for (ci, (name, cwd, main_given, nested)) in cases.iter().enumerate() {
            let root = scratch.path.join(format!("aswritten{}", ci));
            let mut files: BTreeMap<String, String> = BTreeMap::new();
            // the include names are relative to the current directory `cwd`
            let rel = |target: &str| -> String {
                match *cwd {
                    "proj" => target.to_string(),
                    "" => format!("proj/{}", target),
                    _ => format!("../{}", target),
                }
            };
            let main_text = format!("ldi r16, 1\n.include \"{}\"\nldi r17, ASW_K\n", rel("lib/defs.inc"));
            let defs_text = if *nested { format!(".equ ASW_K = 0x2a\n.include \"{}\"\n", rel("lib/deep/more.inc")) } else { ".equ ASW_K = 0x2a\n".to_string() };
            write_file(&root.join("proj/src/main.asm"), &main_text, &mut files, &root);
            write_file(&root.join("proj/lib/defs.inc"), &defs_text, &mut files, &root);
            write_file(&root.join("proj/lib/deep/more.inc"), "ldi r18, ASW_K + 1\n", &mut files, &root);
            let _ = std::fs::create_dir_all(root.join("proj/inc"));
            if std::env::set_current_dir(root.join(cwd)).is_err() {
                continue;
            }
            let given = if *main_given == "ABS" { root.join("proj/src/main.asm") } else { PathBuf::from(main_given) };
            let o = sut::build_file(given, BTreeSet::new());
            if let Some(od) = &old {
                let _ = std::env::set_current_dir(od);
            }
            evals.fetch_add(1, Ordering::Relaxed);
            n_special += 1;
            let pasted = format!("ldi r16, 1\n.equ ASW_K = 0x2a\n{}ldi r17, ASW_K\n", if *nested { "ldi r18, ASW_K + 1\n" } else { "" });
            let want = sut::build_str(&pasted);
            let same = matches!((&o, &want), (Outcome::Ok(a), Outcome::Ok(b)) if a.code == b.code);
            if !same {
                rep.violation(&format!("C11/rejected/tree={}", name), || format!("current directory {}, main file given as `{}`, includes named relative to the current directory (`{}`): {}", if cwd.is_empty() { "." } else { cwd }, main_given, rel("lib/defs.inc"), o.brief()), || {
                    json!({"kind": "file_tree", "files": files, "main": if *main_given == "ABS" { "proj/src/main.asm" } else { main_given }, "current_directory": cwd, "caller_paths": [], "pasted_program": pasted, "observed": o.to_json()})
                });
            }
            let _ = std::fs::remove_dir_all(&root);
        }
        if let Some(od) = &old {
            let _ = std::env::set_current_dir(od);
        }
    }
    let distinct = outcomes.lock().unwrap().len();
    rep.guard(items.len() > 2000, "fewer than 2000 configurations");
    rep.guard(loc_use.lock().unwrap().len() == 8, "not every location kind was used");
    rep.guard(n_ok.load(Ordering::Relaxed) > 1000 && n_err.load(Ordering::Relaxed) > 300, "need both found and not-found outcomes");
    rep.assume("in the enumerated trees every file name is unique, so precedence among several hits is not exercised there; the hand-written trees have the same name beside two different includers (each includer has exactly one hit)");
    rep.assume("a file is cut only at unit boundaries: a macro definition or a conditional construct stays within one file");
    rep.assume("messages are compared by marker text, number and order (not format, file or line)");
    let coverage = cov(json!({
        "evaluations": evals.load(Ordering::Relaxed),
        "distinct_nontrivial": items.len(),
        "rule": "5 base programs with cross-boundary dependencies (constants in both directions, a macro defined in one file and called in others, .device inside an include followed by a device-dependent lds, a complete conditional and .define flags, EEPROM data) x every way of cutting contiguous unit blocks into <=2 (thorough 3) include files (one include, nested, siblings) x every location kind per include edge (same directory, sub-directory in the path, caller-supplied directory, relative / absolute .includepath in the includer, .includepath in a previously included file, absolute path as written, nowhere) x .exit at the end of the innermost file; plus a subset run with the main file given relative to the current directory; plus hand-written trees: the same file name in several directories, include guards and other .exit inside selected arms (nested, in an include of an include), a directory that carries the included name, a name that exists only beside another includer (must fail, naming it), .includepath \".\" inside an include. distinct_nontrivial = distinct configurations (each is a real directory tree)",
        "exhaustive": true,
        "cwd_relative_cases": cwd_cases,
        "hand_written_trees": n_trees,
        "large_include_and_climbing_relative_path_trees": n_special,
        "location_kind_use": *loc_use.lock().unwrap(),
        "distinct_observed_outcomes": distinct,
        "outcomes": {"ok": n_ok.load(Ordering::Relaxed), "err": n_err.load(Ordering::Relaxed)},
        "caps_hit": if tier.thorough() { json!(["depth-3 trees: at most two edges use a location other than the includer's directory"]) } else { json!([]) },
        "trusted_base": ["the harness's flattening of the virtual file tree", "build_str on the pasted text as the reference result"],
    }));
    drop(scratch);
    rep.finish(coverage)
}

/// `./run replay <file>` for kind "file_tree": recreate the recorded files and compare again
pub fn replay(v: &serde_json::Value) -> i32 {
    let scratch = Scratch::new("c11replay");
    let root = scratch.path.join("tree");
    if let Some(files) = v["files"].as_object() {
        for (rel, text) in files {
            let p = root.join(rel);
            if let Some(d) = p.parent() {
                let _ = std::fs::create_dir_all(d);
            }
            // absolute paths recorded inside the files refer to the original scratch root
            let _ = std::fs::write(&p, text.as_str().unwrap_or(""));
            println!("--- {} ---\n{}", rel, text.as_str().unwrap_or(""));
        }
    }
    let _ = std::fs::create_dir_all(root.join("ext"));
    let main = root.join(v["main"].as_str().unwrap_or("main.asm"));
    let mut paths = BTreeSet::new();
    paths.insert(root.join("ext"));
    let o1 = sut::build_file(main, paths);
    let o2 = sut::build_str(v["pasted_program"].as_str().unwrap_or(""));
    println!("--- pasted program ---\n{}", v["pasted_program"].as_str().unwrap_or(""));
    println!("recorded build_file : {}", v["observed"]);
    println!("now build_file      : {}", o1.to_json());
    println!("now pasted build_str: {}", o2.to_json());
    println!("(note: absolute .includepath / .include paths inside the recorded files point into the original scratch directory)");
    let same = match (&o1, &o2) {
        (Outcome::Ok(a), Outcome::Ok(b)) => a.code == b.code && a.eeprom == b.eeprom && a.ram_filling == b.ram_filling,
        _ => false,
    };
    if same { 0 } else { 1 }
}
