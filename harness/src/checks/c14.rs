//! C14 — surface syntax that carries no meaning never changes the output (E3, metamorphic).

use std::collections::{BTreeMap, BTreeSet};
use std::sync::atomic::{AtomicU64, Ordering};

use rayon::prelude::*;
use serde_json::json;

use crate::corpus;
use crate::isa;
use crate::lexer::{self, Line, Role, Tok};
use crate::mc;
use crate::report::{cov, Report, Tier};
use crate::sut::{self, Built, Outcome};

#[derive(Clone, Debug, PartialEq, Eq)]
enum Op {
    ReplaceTok(String),
    InsertBeforeTok(String),
    InsertAfterTok(String),
    RemoveTok,
    AppendLine(String),
    InsertLineBefore(String),
    Crlf,
}

#[derive(Clone, Debug)]
struct Edit {
    group: usize,
    kind: &'static str,
    line: usize,
    tok: usize,
    op: Op,
}

const GROUPS: [&str; 14] = [
    "trailing-comment", "remove-comment", "comment-line", "blank-line", "tabs-and-blanks", "comma-spacing", "operator-spacing",
    "paren-spacing", "space-before-comment", "crlf", "case-mnemonic-register-function", "case-symbol-reference", "case-hex-digits", "radix",
];

fn mixed(s: &str) -> String {
    let mut o = String::new();
    for (i, c) in s.chars().enumerate() {
        if i % 2 == 0 {
            o.extend(c.to_uppercase());
        } else {
            o.extend(c.to_lowercase());
        }
    }
    o
}

fn radix_alternatives(v: i64, current: &str) -> Vec<String> {
    let mut alts = vec![format!("{}", v), format!("${:x}", v), format!("0x{:x}", v), format!("0x{:X}", v), format!("0b{:b}", v), format!("0{:o}", v)];
    if (32..=126).contains(&v) && v != 39 && v != 34 {
        alts.push(format!("'{}'", (v as u8) as char));
    }
    alts.retain(|a| a != current);
    alts.dedup();
    alts
}

/// every single-site rewrite of the program
fn sites(lines: &[Line]) -> Vec<Edit> {
    let mut v = vec![];
    // names already assigned by an earlier .set: the left-hand side of a later .set refers to them
    let mut assigned: BTreeSet<String> = BTreeSet::new();
    for (li, l) in lines.iter().enumerate() {
        if l.directive.as_deref() == Some("set") {
            if let Some((ti, t)) = l.toks.iter().enumerate().find(|(_, t)| t.role == Role::SymDef) {
                if assigned.contains(&t.text.to_lowercase()) {
                    v.push(Edit { group: 11, kind: "set-reassignment-upper-case", line: li, tok: ti, op: Op::ReplaceTok(t.text.to_uppercase()) });
                    v.push(Edit { group: 11, kind: "set-reassignment-mixed-case", line: li, tok: ti, op: Op::ReplaceTok(mixed(&t.text)) });
                }
                assigned.insert(t.text.to_lowercase());
            }
        }
        let n = l.toks.len();
        let has_comment = l.toks.iter().any(|t| t.role == Role::Comment);
        let sig: Vec<usize> = (0..n).filter(|i| !matches!(l.toks[*i].role, Role::Ws | Role::Comment)).collect();
        let first_sig = sig.first().copied();
        // comments
        if !has_comment {
            // comment texts that look like other syntax: a comment is a comment whatever it says
            let ruler_dash = "-".repeat(250);
            let ruler_paren = "(".repeat(250);
            let texts: Vec<&str> = vec![
                "note", "fallback: default value", "see inc/*.inc for the tables", "a ; b // c", "ldi r16, 1", "\"quoted\" 'c'", ".endif .endm .exit", "*/ stray closer", "100% (done) @0",
                // a colon with no blank before it, a tab instead of a blank, a backslash at the very end,
                // an unpaired quote, rulers
                "debug:off", "\tdebug:off\t", "see C:\\avr\\include\\", "it's", "say \"", &ruler_dash, &ruler_paren, "~!~!~!-", "\u{e9}t\u{e9}",
            ];
            for t in texts.iter().copied() {
            v.push(Edit { group: 0, kind: "trailing-semicolon-comment", line: li, tok: n, op: Op::AppendLine(format!(" ; {}", t)) });
            v.push(Edit { group: 0, kind: "trailing-slash-comment", line: li, tok: n, op: Op::AppendLine(format!(" // {}", t)) });
            // a block comment ends at the first closer: its text must not contain one
            let tb = if t.contains("*/") { "note /* nested opener" } else { t };
            v.push(Edit { group: 0, kind: "trailing-block-comment", line: li, tok: n, op: Op::AppendLine(format!(" /* {} */", tb)) });
            // ... and glued to the last token, without a blank (not after a number or name for
            // "//" and "/*": `4//x` is still a comment, but keep the site list simple)
            if first_sig.is_some() {
                v.push(Edit { group: 0, kind: "glued-semicolon-comment", line: li, tok: n, op: Op::AppendLine(format!(";{}", t)) });
                v.push(Edit { group: 0, kind: "glued-slash-comment", line: li, tok: n, op: Op::AppendLine(format!("//{}", t)) });
                v.push(Edit { group: 0, kind: "glued-block-comment", line: li, tok: n, op: Op::AppendLine(format!("/*{}*/", tb)) });
                v.push(Edit { group: 0, kind: "tab-separated-comment", line: li, tok: n, op: Op::AppendLine(format!("\t;\t{}", t)) });
            }
            }
        } else {
            let ci = l.toks.iter().position(|t| t.role == Role::Comment).unwrap();
            // a block comment that is not the last token on the line is left alone
            if ci == n - 1 {
                v.push(Edit { group: 1, kind: "remove-trailing-comment", line: li, tok: ci, op: Op::RemoveTok });
                if ci > 0 && l.toks[ci - 1].role != Role::Ws && first_sig.is_some() {
                    v.push(Edit { group: 8, kind: "space-before-comment", line: li, tok: ci, op: Op::InsertBeforeTok("  ".into()) });
                } else if ci > 0 && l.toks[ci - 1].role == Role::Ws && first_sig.is_some() {
                    v.push(Edit { group: 8, kind: "tab-before-comment", line: li, tok: ci - 1, op: Op::ReplaceTok("\t \t".into()) });
                    v.push(Edit { group: 8, kind: "no-blank-before-comment", line: li, tok: ci - 1, op: Op::RemoveTok });
                }
            }
        }
        let style = ["; inserted comment line", "// inserted comment line with /* an opener", "/* inserted comment line */", "   ; indented comment line", "// see src/*.asm", "; .if 0", "// .macro not_a_macro", "/* .endif */"][li % 8];
        v.push(Edit { group: 2, kind: "comment-only-line", line: li, tok: 0, op: Op::InsertLineBefore(style.into()) });
        let style2 = ["; /---------\\", "; see C:\\avr\\include\\", "// ends with a backslash \\", ";\\"][li % 4];
        v.push(Edit { group: 2, kind: "comment-only-line-ending-in-backslash", line: li, tok: 0, op: Op::InsertLineBefore(style2.into()) });
        v.push(Edit { group: 3, kind: "blank-line", line: li, tok: 0, op: Op::InsertLineBefore(if li % 2 == 0 { "".into() } else { " \t ".into() }) });
        // tokens
        for i in 0..n {
            let t = &l.toks[i];
            let after_first = first_sig.map(|f| i > f).unwrap_or(false);
            match t.role {
                Role::Ws if after_first && i + 1 < n && l.toks[i + 1].role != Role::Comment => {
                    // leading indentation and the blank before a trailing comment are handled elsewhere
                    let alt = if t.text.contains('\t') { "  ".to_string() } else { "\t".to_string() };
                    v.push(Edit { group: 4, kind: "spaces-tabs", line: li, tok: i, op: Op::ReplaceTok(alt) });
                    v.push(Edit { group: 4, kind: "extra-blanks", line: li, tok: i, op: Op::ReplaceTok(format!("{} \t", t.text)) });
                }
                Role::Comma => {
                    if i + 1 < n && l.toks[i + 1].role != Role::Ws {
                        v.push(Edit { group: 5, kind: "space-after-comma", line: li, tok: i, op: Op::InsertAfterTok(" ".into()) });
                    }
                    if i > 0 && l.toks[i - 1].role != Role::Ws {
                        v.push(Edit { group: 5, kind: "space-before-comma", line: li, tok: i, op: Op::InsertBeforeTok(" ".into()) });
                    }
                }
                Role::BinOp => {
                    let ws_before = i > 0 && l.toks[i - 1].role == Role::Ws;
                    let ws_after = i + 1 < n && l.toks[i + 1].role == Role::Ws;
                    if !ws_before {
                        v.push(Edit { group: 6, kind: "space-before-operator", line: li, tok: i, op: Op::InsertBeforeTok(" ".into()) });
                    }
                    if !ws_after {
                        v.push(Edit { group: 6, kind: "space-after-operator", line: li, tok: i, op: Op::InsertAfterTok("\t".into()) });
                    }
                    if ws_before {
                        v.push(Edit { group: 6, kind: "no-space-before-operator", line: li, tok: i - 1, op: Op::RemoveTok });
                    }
                    if ws_after {
                        v.push(Edit { group: 6, kind: "no-space-after-operator", line: li, tok: i + 1, op: Op::RemoveTok });
                    }
                }
                Role::LParen => {
                    if i + 1 < n && l.toks[i + 1].role != Role::Ws {
                        v.push(Edit { group: 7, kind: "space-after-lparen", line: li, tok: i, op: Op::InsertAfterTok(" ".into()) });
                    }
                }
                Role::RParen => {
                    if i > 0 && l.toks[i - 1].role != Role::Ws {
                        v.push(Edit { group: 7, kind: "space-before-rparen", line: li, tok: i, op: Op::InsertBeforeTok(" ".into()) });
                    }
                }
                Role::Mnemonic => {
                    v.push(Edit { group: 10, kind: "mnemonic-upper-case", line: li, tok: i, op: Op::ReplaceTok(t.text.to_uppercase()) });
                    v.push(Edit { group: 10, kind: "mnemonic-mixed-case", line: li, tok: i, op: Op::ReplaceTok(mixed(&t.text)) });
                }
                Role::Register | Role::PtrReg => {
                    let alt = if t.text.chars().any(|c| c.is_ascii_lowercase()) { t.text.to_uppercase() } else { t.text.to_lowercase() };
                    v.push(Edit { group: 10, kind: "register-case", line: li, tok: i, op: Op::ReplaceTok(alt) });
                }
                Role::Func => {
                    v.push(Edit { group: 10, kind: "function-upper-case", line: li, tok: i, op: Op::ReplaceTok(t.text.to_uppercase()) });
                    v.push(Edit { group: 10, kind: "function-mixed-case", line: li, tok: i, op: Op::ReplaceTok(mixed(&t.text)) });
                }
                Role::SymRef => {
                    v.push(Edit { group: 11, kind: "symbol-reference-upper-case", line: li, tok: i, op: Op::ReplaceTok(t.text.to_uppercase()) });
                    v.push(Edit { group: 11, kind: "symbol-reference-mixed-case", line: li, tok: i, op: Op::ReplaceTok(mixed(&t.text)) });
                }
                Role::Number => {
                    let (prefix, digits) = if t.text.starts_with('$') { ("$", &t.text[1..]) } else if t.text.starts_with("0x") { ("0x", &t.text[2..]) } else { ("", "") };
                    if !prefix.is_empty() && digits.chars().any(|c| c.is_ascii_alphabetic()) {
                        let flipped: String = digits.chars().map(|c| if c.is_ascii_lowercase() { c.to_ascii_uppercase() } else { c.to_ascii_lowercase() }).collect();
                        v.push(Edit { group: 12, kind: "hex-digit-case", line: li, tok: i, op: Op::ReplaceTok(format!("{}{}", prefix, flipped)) });
                    }
                    if let Some(val) = lexer::number_value(&t.text) {
                        for alt in radix_alternatives(val, &t.text) {
                            v.push(Edit { group: 13, kind: "radix", line: li, tok: i, op: Op::ReplaceTok(alt) });
                        }
                    }
                }
                Role::Char => {
                    let val = t.text.as_bytes()[1] as i64;
                    for alt in radix_alternatives(val, &t.text) {
                        v.push(Edit { group: 13, kind: "radix", line: li, tok: i, op: Op::ReplaceTok(alt) });
                    }
                }
                _ => {}
            }
        }
    }
    v.push(Edit { group: 9, kind: "lf-to-crlf", line: 0, tok: 0, op: Op::Crlf });
    v
}

/// Apply a set of edits (at most one per slot; the first one for a slot wins).
fn apply(lines: &[Line], edits: &[&Edit]) -> (String, bool) {
    let mut crlf = false;
    let mut replace: BTreeMap<(usize, usize), Option<String>> = BTreeMap::new(); // None = removed
    let mut before: BTreeMap<(usize, usize), String> = BTreeMap::new();
    let mut after: BTreeMap<(usize, usize), String> = BTreeMap::new();
    let mut append: BTreeMap<usize, String> = BTreeMap::new();
    let mut line_before: BTreeMap<usize, Vec<String>> = BTreeMap::new();
    let mut inserted_lines = false;
    for e in edits {
        match &e.op {
            Op::Crlf => crlf = true,
            Op::ReplaceTok(s) => {
                replace.entry((e.line, e.tok)).or_insert(Some(s.clone()));
            }
            Op::RemoveTok => {
                replace.entry((e.line, e.tok)).or_insert(None);
            }
            Op::InsertBeforeTok(s) => {
                before.entry((e.line, e.tok)).or_insert(s.clone());
            }
            Op::InsertAfterTok(s) => {
                after.entry((e.line, e.tok)).or_insert(s.clone());
            }
            Op::AppendLine(s) => {
                append.entry(e.line).or_insert(s.clone());
            }
            Op::InsertLineBefore(s) => {
                let v = line_before.entry(e.line).or_default();
                if v.len() < 2 {
                    v.push(s.clone());
                }
                inserted_lines = true;
            }
        }
    }
    let eol = if crlf { "\r\n" } else { "\n" };
    let mut out = String::new();
    for (li, l) in lines.iter().enumerate() {
        if let Some(v) = line_before.get(&li) {
            for s in v {
                out.push_str(s);
                out.push_str(eol);
            }
        }
        // a line whose trailing comment is removed must not get a new one appended after the
        // removed token's leading blank; plain concatenation is fine for that
        for (ti, t) in l.toks.iter().enumerate() {
            if let Some(b) = before.get(&(li, ti)) {
                out.push_str(b);
            }
            match replace.get(&(li, ti)) {
                Some(Some(s)) => out.push_str(s),
                Some(None) => {}
                None => out.push_str(&t.text),
            }
            if let Some(a) = after.get(&(li, ti)) {
                out.push_str(a);
            }
        }
        if let Some(a) = append.get(&li) {
            // only when the line (still) has no comment
            let still_comment = l.toks.iter().enumerate().any(|(ti, t)| t.role == Role::Comment && replace.get(&(li, ti)) != Some(&None));
            if !still_comment {
                out.push_str(a);
            }
        }
        out.push_str(eol);
    }
    (out, inserted_lines)
}

fn strip_line_numbers(msgs: &[String]) -> Vec<String> {
    msgs.iter()
        .map(|m| match m.rfind("line: ") {
            Some(i) => format!("{}line: #", &m[..i]),
            None => m.clone(),
        })
        .collect()
}

fn same(a: &Built, b: &Built, lines_inserted: bool) -> Option<String> {
    if a.code != b.code {
        return Some(format!("flash image changes: {} -> {}", sut::hex_trunc(&a.code, 40), sut::hex_trunc(&b.code, 40)));
    }
    if a.eeprom != b.eeprom {
        return Some(format!("EEPROM image changes: {} -> {}", sut::hex_trunc(&a.eeprom, 40), sut::hex_trunc(&b.eeprom, 40)));
    }
    if (a.flash_size, a.eeprom_size, a.ram_size, a.ram_filling) != (b.flash_size, b.eeprom_size, b.ram_size, b.ram_filling) {
        return Some("reported sizes / ram_filling change".into());
    }
    let (ma, mb) = if lines_inserted { (strip_line_numbers(&a.messages), strip_line_numbers(&b.messages)) } else { (a.messages.clone(), b.messages.clone()) };
    if ma != mb {
        return Some(format!("messages change: {:?} -> {:?}", a.messages, b.messages));
    }
    None
}

/// extra corpus: programs rendered from the reference models' traces (deterministic selection)
fn model_programs() -> Vec<(String, String)> {
    let mut v = vec![];
    {
        let m = crate::checks::c08::CondModel { max_nest: 2 };
        let ex = mc::explore(&m, 4);
        for (i, (tr, _)) in ex.cover.iter().enumerate().take(40) {
            v.push((format!("c08-trace-{}", i), m.render(tr).program));
        }
    }
    {
        for (i, tr) in crate::checks::c10::sample_traces().into_iter().enumerate().take(60) {
            v.push((format!("c10-trace-{}", i), crate::checks::c10::render(&tr)));
        }
    }
    // a definitions block that is read twice (the same constants defined alike twice, by name
    // and by function), and a small device filled to the last word where the last words come
    // from a macro: programs in which layout and spelling can matter where they must not
    v.push((
        "x-definitions-read-twice".to_string(),
        ".equ io_base_q = 0x20\n.equ port_q = io_base_q + 0x18\n.equ lo_q = low(port_q * 4)\n.equ io_base_q = 0x20\n.equ port_q = io_base_q + 0x18\n.equ lo_q = low(port_q * 4)\nldi r16, port_q\nldi r17, lo_q\n".to_string(),
    ));
    // lines that are alike up to a `;` or `//` that is no comment (inside a character literal, a
    // string) and differ behind it
    v.push((
        "x-lines-alike-up-to-a-semicolon-that-is-no-comment".to_string(),
        "ldi r16, ';'\nldi r16, ';' + 1\n.db ';', 0\n.db ';', 1\ncpi r17, '/'\ncpi r17, '/' + 2\n.db \"a;b\", 1\n.db \"a;b\", 2\n.db \"a//b\", 3\n.db \"a//b\", 4\n.dw '\"' ; one\n.dw '\"' + 1 ; two\n".to_string(),
    ));
    {
        let mut s = String::from(".device ATtiny13\n.macro two_q\nldi r16, 1\nldi r17, 2\n.endm\n.macro one_q\ninc r16\n.endm\n");
        for _ in 0..63 {
            s.push_str("nop\nnop\nnop\nnop\nnop\nnop\nnop\nnop\n");
        }
        s.push_str("nop\nnop\nnop\ntwo_q\none_q\ntwo_q\n");
        v.push(("x-device-filled-to-the-last-word-with-macros".to_string(), s));
    }
    v
}

pub fn run(tier: Tier) -> i32 {
    let rep = Report::new("C14", tier, "exploration");
    let known = |m: &str| isa::known_mnemonic(m);
    let mut progs: Vec<(String, String)> = corpus::programs().into_iter().map(|(n, s)| (n.to_string(), s.to_string())).collect();
    progs.extend(model_programs());
    // keep only programs that build (the model programs include deliberately failing ones)
    let mut usable: Vec<(String, String, Built)> = vec![];
    let mut corpus_invalid = vec![];
    for (n, s) in progs {
        match sut::build_str(&s) {
            Outcome::Ok(b) => usable.push((n, s, b)),
            other => {
                // (the extra programs rely on things the statements do not pin - an `.equ` given
                // twice alike is accepted: where a tree refuses them there is nothing to compare)
                if !n.starts_with("c0") && !n.starts_with("c1") && !n.starts_with("x-") {
                    corpus_invalid.push(format!("{}: {}", n, other.to_json()));
                }
            }
        }
    }
    // a corpus program that does not build on the current tree is reported, not silently skipped
    for c in corpus_invalid.iter() {
        rep.violation("C14/corpus-program-does-not-build", || format!("a valid corpus program does not build: {}", c), || json!({"kind": "build_str", "detail": c}));
    }
    let evals = AtomicU64::new(0);
    let n_sites = AtomicU64::new(0);
    let kinds_used: std::sync::Mutex<BTreeMap<&'static str, u64>> = std::sync::Mutex::new(BTreeMap::new());
    let distinct_rewritten: std::sync::Mutex<BTreeSet<u64>> = std::sync::Mutex::new(BTreeSet::new());

    usable.par_iter().for_each(|(name, src, base)| {
        let lines = lexer::lex(src, &known);
        // the lexer must reproduce the program exactly
        if lexer::render(&lines, "\n").trim_end_matches('\n') != src.trim_end_matches('\n') {
            crate::report::machinery_fail(&format!("lexer does not round-trip corpus program {}", name));
        }
        let all = sites(&lines);
        n_sites.fetch_add(all.len() as u64, Ordering::Relaxed);
        let check = |edits: &[&Edit], mode: &str| {
            let (text, ins) = apply(&lines, edits);
            {
                use std::hash::{Hash, Hasher};
                let mut h = std::collections::hash_map::DefaultHasher::new();
                text.hash(&mut h);
                distinct_rewritten.lock().unwrap().insert(h.finish());
            }
            let o = sut::build_str(&text);
            evals.fetch_add(1, Ordering::Relaxed);
            let problem = match &o {
                Outcome::Ok(b) => same(base, b, ins),
                Outcome::Err(e) => Some(format!("the respelled program no longer builds: {}", e)),
                Outcome::Panic { site, msg } => Some(format!("the respelled program panics at {}: {}", site, msg)),
            };
            if let Some(p) = problem {
                let ks: BTreeSet<&str> = edits.iter().map(|e| e.kind).collect();
                let key = format!("C14/{}/rewrites={}", if o.is_ok() { "output-changed" } else { "build-broken" }, ks.iter().cloned().collect::<Vec<_>>().join("+"));
                let first = edits[0];
                rep.violation(&key, || format!("program '{}' ({}), first rewrite at line {}: {}", name, mode, first.line + 1, p), || {
                    json!({"kind": "build_str", "source": text, "original": src, "rewrites": edits.iter().map(|e| format!("{} @ line {} token {}: {:?}", e.kind, e.line + 1, e.tok, e.op)).collect::<Vec<_>>(), "observed": o.to_json()})
                });
            }
        };
        // distance 1: every site singly
        for e in all.iter() {
            *kinds_used.lock().unwrap().entry(e.kind).or_insert(0) += 1;
            check(&[e], "single site");
        }
        // every group applied globally, and all 2^k combinations of groups
        let by_group: Vec<Vec<&Edit>> = (0..GROUPS.len()).map(|g| all.iter().filter(|e| e.group == g).collect()).collect();
        let present: Vec<usize> = (0..GROUPS.len()).filter(|g| !by_group[*g].is_empty()).collect();
        for mask in 1u32..(1u32 << present.len()) {
            let mut es: Vec<&Edit> = vec![];
            for (bi, g) in present.iter().enumerate() {
                if mask & (1 << bi) != 0 {
                    // rotate which alternative of a slot comes first, so that global application
                    // does not always pick the same style
                    let v = &by_group[*g];
                    let rot = (mask as usize) % v.len().max(1);
                    es.extend(v[rot..].iter().cloned());
                    es.extend(v[..rot].iter().cloned());
                }
            }
            check(&es, "kinds applied globally");
        }
        // distance 2 (thorough): all pairs of single sites
        if tier.thorough() && !name.starts_with("c0") && !name.starts_with("c1") && !name.starts_with("x-device") {
            // (pairs run over one alternative per site and kind - the first comment text; every
            // alternative is covered singly above)
            let mut seen: std::collections::BTreeSet<(usize, usize, &str)> = std::collections::BTreeSet::new();
            let all: Vec<&Edit> = all.iter().filter(|e| seen.insert((e.line, e.tok, e.kind))).collect();
            for i in 0..all.len() {
                for j in i + 1..all.len() {
                    let (a, b) = (all[i], all[j]);
                    if a.line == b.line && a.tok == b.tok {
                        continue;
                    }
                    check(&[a, b], "pair of sites");
                }
            }
        }
    });
    let ku = kinds_used.lock().unwrap().clone();
    for k in ["trailing-semicolon-comment", "trailing-slash-comment", "trailing-block-comment", "remove-trailing-comment", "comment-only-line", "blank-line", "spaces-tabs", "extra-blanks", "space-after-comma", "space-before-comma", "space-before-operator", "no-space-before-operator", "space-after-lparen", "space-before-rparen", "lf-to-crlf", "mnemonic-upper-case", "register-case", "function-upper-case", "symbol-reference-upper-case", "hex-digit-case", "radix", "space-before-comment", "set-reassignment-upper-case", "glued-semicolon-comment", "no-blank-before-comment"] {
        rep.guard(ku.get(k).copied().unwrap_or(0) > 0, &format!("rewrite kind {} has no site in the corpus", k));
    }
    rep.guard(usable.len() >= 24, "fewer than 24 usable programs");
    let dr = distinct_rewritten.lock().unwrap().len();
    rep.sample(|| {
        let lines = lexer::lex(&usable[1].1, &known);
        let s = sites(&lines);
        let e = &s[s.len() / 2];
        let result = apply(&lines, &[e]).0;
        json!({"program": usable[1].0, "original": usable[1].1, "one_rewrite_kind": e.kind, "at_line": e.line + 1, "result": result})
    });
    rep.assume("sites the statement does not list are not rewritten: directive names' case, leading indentation, blanks inside a pointer form or after a unary operator, upper-case radix prefixes, leading or stacked block comments, a lone CR, names that collide with register spellings, macro names (C09), .define flags");
    rep.assume("messages are compared exactly, except for their embedded line numbers when a rewrite inserted lines");
    let coverage = cov(json!({
        "evaluations": evals.load(Ordering::Relaxed),
        "distinct_nontrivial": dr,
        "rule": "corpus of valid programs (every construct of the grammar) + programs rendered from the C08/C10 reference models; every applicable rewrite site singly (distance 1), every rewrite group applied globally and all 2^k combinations of the 14 groups, thorough: all pairs of single sites (not for the 520-line program that fills a device); oracle: both images, the four sizes, ram_filling and messages unchanged and the build still succeeds. distinct_nontrivial = distinct respelled program texts built",
        "exhaustive": true,
        "programs": usable.len(),
        "single_sites": n_sites.load(Ordering::Relaxed),
        "rewrite_kind_sites": ku,
        "groups": GROUPS,
        "caps_hit": [],
        "trusted_base": ["harness lexer (round-trip checked on every corpus program)", "the unrewritten program's own build as the reference"],
    }));
    rep.finish(coverage)
}
