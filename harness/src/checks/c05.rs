//! C05 — constant expressions evaluate with the documented operator semantics (E1).
//! Observed through `.dq <expr>` (the 64-bit value, little-endian).

use std::collections::{BTreeMap, BTreeSet};
use std::sync::atomic::{AtomicU64, Ordering};
use std::sync::Mutex;

use rayon::prelude::*;
use serde_json::json;

use crate::batch::{self, BCase, BatchResult};
use crate::exprm::{self, bin, num, un, BinOp, Radix, UnOp, Val, BINOPS, E, FUNCS, UNOPS};
use crate::report::{cov, machinery_fail, Report, Tier};
use crate::sut::Outcome;

const PROLOGUE: &str = ".equ k_five = 5\n.equ k_sum = 1 + 2\n.equ k_chain = k_sum * k_five - 1\n.equ K_Neg = -3\n.equ dbl0 = 1 + 0\n.equ dbl1 = dbl0 + dbl0\n.equ dbl2 = dbl1 + dbl1\n.equ dbl3 = dbl2 + dbl2\n.equ dbl4 = dbl3 + dbl3\n.equ dbl5 = dbl4 + dbl4\n.equ dbl6 = dbl5 + dbl5\n.equ dbl7 = dbl6 + dbl6\n.equ dbl8 = dbl7 + dbl7\n.equ low = 0x20\n.equ exp2 = 3\n.equ fn_mix = low(lbl_a) + low + exp2(exp2)\n.dseg\nlbl_a: .byte 2\nLbl_B: .byte 1\n.cseg\n";
const EPILOGUE: &str = ".equ k_late = 9\n";

struct XCase {
    e: E,
    group: &'static str,
}

fn ops_of(e: &E, out: &mut BTreeSet<String>) {
    match e {
        E::Num(..) | E::Sym(..) => {}
        E::Un(o, a) => {
            out.insert(format!("u{}", o.text()));
            ops_of(a, out);
        }
        E::Func(f, a) => {
            out.insert(f.to_string());
            ops_of(a, out);
        }
        E::Bin(o, l, r) => {
            out.insert(o.text().to_string());
            ops_of(l, out);
            ops_of(r, out);
        }
    }
}

fn key_ops(e: &E) -> String {
    let mut s = BTreeSet::new();
    ops_of(e, &mut s);
    s.into_iter().collect::<Vec<_>>().join(" ")
}

fn grid_values() -> Vec<i64> {
    vec![
        0, 1, -1, 2, -2, 7, 63, 64, 255, 256, 1 << 15, 1 << 16, 1 << 31, 1 << 32, 1 << 62, i64::MAX, i64::MIN + 1,
        i64::MIN, -255, -256, 3, 8, 65535, -(1 << 31), 62,
    ]
}

fn gen(tier: Tier) -> Vec<XCase> {
    let mut v: Vec<XCase> = vec![];
    let leaves: Vec<E> = [0i64, 1, 2, 3, 7].iter().map(|x| num(*x)).collect();
    // (c1) one binary operator, all leaf pairs; every unary and function on every leaf
    for op in BINOPS {
        for a in &leaves {
            for b in &leaves {
                v.push(XCase { e: bin(op, a.clone(), b.clone()), group: "one-op" });
            }
        }
    }
    for u in UNOPS {
        for a in &leaves {
            v.push(XCase { e: un(u, a.clone()), group: "one-op" });
        }
    }
    // (b) unary x unary, unary x binary
    for u1 in UNOPS {
        for u2 in UNOPS {
            for a in &leaves {
                v.push(XCase { e: un(u1, un(u2, a.clone())), group: "unary-unary" });
            }
        }
    }
    // (a)+(c2) all trees with two binary operators over the five leaves, both shapes, with at
    // most one unary operator placed on any of the five nodes
    let nl = leaves.len();
    for o1 in BINOPS {
        for o2 in BINOPS {
            for ai in 0..nl {
                for bi in 0..nl {
                    for ci in 0..nl {
                        let (a, b, c) = (leaves[ai].clone(), leaves[bi].clone(), leaves[ci].clone());
                        v.push(XCase { e: bin(o2, bin(o1, a.clone(), b.clone()), c.clone()), group: "two-op" });
                        v.push(XCase { e: bin(o1, a.clone(), bin(o2, b.clone(), c.clone())), group: "two-op" });
                        // unary placements only on a reduced leaf cube (quick) to bound the count
                        let small = ai < 3 && bi < 3 && ci < 3 && (ai, bi, ci) != (0, 0, 0);
                        if small || tier.thorough() {
                            for u in UNOPS {
                                // left-grouped shape: nodes a, b, c, inner, root
                                v.push(XCase { e: bin(o2, bin(o1, un(u, a.clone()), b.clone()), c.clone()), group: "two-op-unary" });
                                v.push(XCase { e: bin(o2, bin(o1, a.clone(), un(u, b.clone())), c.clone()), group: "two-op-unary" });
                                v.push(XCase { e: bin(o2, bin(o1, a.clone(), b.clone()), un(u, c.clone())), group: "two-op-unary" });
                                v.push(XCase { e: bin(o2, un(u, bin(o1, a.clone(), b.clone())), c.clone()), group: "two-op-unary" });
                                v.push(XCase { e: un(u, bin(o2, bin(o1, a.clone(), b.clone()), c.clone())), group: "two-op-unary" });
                                // right-grouped shape
                                v.push(XCase { e: bin(o1, un(u, a.clone()), bin(o2, b.clone(), c.clone())), group: "two-op-unary" });
                                v.push(XCase { e: bin(o1, a.clone(), bin(o2, un(u, b.clone()), c.clone())), group: "two-op-unary" });
                                v.push(XCase { e: bin(o1, a.clone(), bin(o2, b.clone(), un(u, c.clone()))), group: "two-op-unary" });
                                v.push(XCase { e: bin(o1, a.clone(), un(u, bin(o2, b.clone(), c.clone()))), group: "two-op-unary" });
                            }
                        }
                    }
                }
            }
        }
    }
    // (c2b) two binary operators over boundary leaves: an overflow in the middle of a chain must
    //       fail even when the end result would fit again
    {
        let bl: Vec<E> = [i64::MAX, i64::MIN + 1, i64::MIN, 1, -1, 2].iter().map(|x| num(*x)).collect();
        let ops = [BinOp::Add, BinOp::Sub, BinOp::Mul, BinOp::Div, BinOp::Rem, BinOp::Shl, BinOp::Shr, BinOp::And, BinOp::Or, BinOp::Lt, BinOp::Eq, BinOp::LAnd];
        for o1 in ops {
            for o2 in ops {
                for a in &bl {
                    for b in &bl {
                        for c in &bl {
                            v.push(XCase { e: bin(o2, bin(o1, a.clone(), b.clone()), c.clone()), group: "two-op-boundary" });
                            v.push(XCase { e: bin(o1, a.clone(), bin(o2, b.clone(), c.clone())), group: "two-op-boundary" });
                        }
                    }
                }
            }
        }
        // longer chains at the same level
        let max = num(i64::MAX);
        for n in [3usize, 4, 6] {
            let mut e = max.clone();
            for i in 0..n {
                e = bin(if i % 2 == 0 { BinOp::Add } else { BinOp::Sub }, e, num(1));
            }
            v.push(XCase { e, group: "two-op-boundary" });
            let mut e = num(1);
            for i in 0..n {
                e = bin(if i % 2 == 0 { BinOp::Sub } else { BinOp::Add }, e, if i == 0 { num(i64::MIN) } else { num(1) });
            }
            v.push(XCase { e, group: "two-op-boundary" });
        }
    }
    // (c2c) many uses of symbols in one expression: constants defined by expressions, a chain of
    //       definitions, more uses than any plausible nesting limit
    {
        let ks = E::Sym("k_sum".into(), 3);
        let kc = E::Sym("k_chain".into(), 14);
        for n in [10usize, 63, 64, 65, 66, 100, 200] {
            let mut e = ks.clone();
            for i in 1..n {
                e = bin(if i % 3 == 0 { BinOp::Xor } else { BinOp::Add }, e, if i % 2 == 0 { ks.clone() } else { kc.clone() });
            }
            v.push(XCase { e, group: "many-symbol-uses" });
        }
        for d in 0..=8usize {
            v.push(XCase { e: E::Sym(format!("dbl{}", d), 1 << d), group: "many-symbol-uses" });
            v.push(XCase { e: bin(BinOp::Add, E::Sym(format!("dbl{}", d), 1 << d), E::Sym(format!("DBL{}", d), 1 << d)), group: "many-symbol-uses" });
        }
    }
    // (c3) thorough: all trees with three binary operators over three leaves (five shapes)
    if tier.thorough() {
        let l3: Vec<E> = [1i64, 2, 7].iter().map(|x| num(*x)).collect();
        for o1 in BINOPS {
            for o2 in BINOPS {
                for o3 in BINOPS {
                    for i in 0..81usize {
                        let a = l3[i % 3].clone();
                        let b = l3[(i / 3) % 3].clone();
                        let c = l3[(i / 9) % 3].clone();
                        let d = l3[(i / 27) % 3].clone();
                        let g = "three-op";
                        v.push(XCase { e: bin(o3, bin(o2, bin(o1, a.clone(), b.clone()), c.clone()), d.clone()), group: g });
                        v.push(XCase { e: bin(o3, bin(o1, a.clone(), bin(o2, b.clone(), c.clone())), d.clone()), group: g });
                        v.push(XCase { e: bin(o2, bin(o1, a.clone(), b.clone()), bin(o3, c.clone(), d.clone())), group: g });
                        v.push(XCase { e: bin(o1, a.clone(), bin(o3, bin(o2, b.clone(), c.clone()), d.clone())), group: g });
                        v.push(XCase { e: bin(o1, a.clone(), bin(o2, b.clone(), bin(o3, c.clone(), d.clone()))), group: g });
                    }
                }
            }
        }
    }
    // (d) boundary grid
    let grid = grid_values();
    for op in BINOPS {
        for a in &grid {
            for b in &grid {
                v.push(XCase { e: bin(op, num(*a), num(*b)), group: "grid" });
            }
        }
    }
    for a in &grid {
        for u in UNOPS {
            v.push(XCase { e: un(u, num(*a)), group: "grid" });
        }
        for f in FUNCS {
            v.push(XCase { e: E::Func(f, Box::new(num(*a))), group: "grid" });
            v.push(XCase { e: bin(BinOp::Add, E::Func(f, Box::new(num(*a))), num(1)), group: "grid" });
        }
    }
    for f in FUNCS {
        for a in [0x12345678i64, 0x1122334455667788, 0xabcd, 5, 62, 63, 64, -1, 100] {
            v.push(XCase { e: E::Func(f, Box::new(num(a))), group: "functions" });
            v.push(XCase { e: E::Func(f, Box::new(bin(BinOp::Add, num(a), num(1)))), group: "functions" });
        }
    }
    // (e) literal forms and symbols
    // (values whose hex digits begin like a radix prefix or spell a register, a function or a
    // pointer name are among them: 0xb11, 0xbad, 0xb, 0x0b0b, 0xe, 0xabcdef, 0xface, 0xdead)
    let lit_values: Vec<i64> = vec![
        0, 1, 7, 8, 9, 10, 15, 16, 32, 48, 63, 64, 65, 97, 122, 126, 127, 128, 255, 256, 511, 512, 1000, 4095, 4096, 32767,
        32768, 65535, 65536, 1 << 31, 1 << 32, 1 << 62, i64::MAX, 11, 12, 160, 233, 0xb, 0xb11, 0xbad, 0xb0b, 0xb1, 0xb0, 0xe, 0xabcdef, 0xface, 0xdead, 0xb10, 0xb101,
    ];
    // flat chains of one operator, 250 links: two-character operators are operators like the others
    for (op, leaf, val) in [(BinOp::LOr, 0, 1i64), (BinOp::LAnd, 1, 1), (BinOp::Shl, 0, 1), (BinOp::Shr, 0, 1), (BinOp::Eq, 1, 1), (BinOp::Ne, 0, 1), (BinOp::Le, 1, 1), (BinOp::Ge, 1, 1), (BinOp::Or, 0, 1), (BinOp::Add, 0, 1), (BinOp::Lt, 2, 1)] {
        let mut e = num(1);
        for _ in 0..250 {
            e = bin(op, e, num(leaf));
        }
        let _ = val;
        v.push(XCase { e, group: "long-chains" });
    }
    // a unary operator directly on another one, over the values at the ends of the range (the
    // lowest value can only be computed): nothing is simplified away, every step is checked
    {
        let lowest = bin(BinOp::Sub, un(UnOp::Neg, num(i64::MAX)), num(1));
        let lowest_shift = bin(BinOp::Shl, num(1), num(63));
        let operands = vec![lowest.clone(), lowest_shift, num(i64::MAX), un(UnOp::Neg, num(i64::MAX)), num(0), num(1), un(UnOp::Neg, num(1)), E::Sym("K_Neg".into(), -3)];
        for x in operands.iter() {
            for u1 in UNOPS {
                for u2 in UNOPS {
                    v.push(XCase { e: un(u1, un(u2, x.clone())), group: "unary-unary" });
                    for u3 in UNOPS {
                        v.push(XCase { e: un(u1, un(u2, un(u3, x.clone()))), group: "unary-unary" });
                    }
                }
            }
        }
    }
    for val in &lit_values {
        for r in [Radix::Dec, Radix::HexDollar, Radix::Hex0xLower, Radix::Hex0xUpper, Radix::Bin, Radix::Oct, Radix::Char, Radix::HexDollarLead0, Radix::HexDollarUpper, Radix::Hex0xLead0, Radix::BinLead0, Radix::OctLead0] {
            // character literals: printable ASCII, and a raw tab, vertical tab, form feed, no-break
            // space and accented letter (the value is the character's code)
            if r == Radix::Char && !(((32..=126).contains(val) && *val != 39 && *val != 34) || [9, 11, 12, 160, 233].contains(val)) {
                continue;
            }
            v.push(XCase { e: E::Num(*val, r), group: "literals" });
            v.push(XCase { e: bin(BinOp::Add, E::Num(*val, r), E::Num(1, r)), group: "literals" });
            v.push(XCase { e: un(UnOp::Neg, E::Num(*val, r)), group: "literals" });
        }
    }
    // constants named like built-in functions, alone, as argument of their namesake, and inside a
    // definition that cannot be evaluated where it stands (it mentions a later label)
    {
        let low = E::Sym("low".into(), 0x20);
        let exp2s = E::Sym("exp2".into(), 3);
        let fn_mix = E::Sym("fn_mix".into(), 0x60 + 0x20 + 8);
        v.push(XCase { e: low.clone(), group: "symbols" });
        v.push(XCase { e: E::Func("low", Box::new(low.clone())), group: "symbols" });
        v.push(XCase { e: bin(BinOp::Add, E::Func("low", Box::new(E::Sym("lbl_a".into(), 0x60))), low.clone()), group: "symbols" });
        v.push(XCase { e: E::Func("exp2", Box::new(exp2s.clone())), group: "symbols" });
        v.push(XCase { e: bin(BinOp::Mul, exp2s.clone(), E::Func("high", Box::new(bin(BinOp::Shl, low.clone(), num(8))))), group: "symbols" });
        v.push(XCase { e: fn_mix.clone(), group: "symbols" });
        v.push(XCase { e: bin(BinOp::Sub, fn_mix, low), group: "symbols" });
    }
    let syms = vec![
        E::Sym("k_five".into(), 5),
        E::Sym("K_FIVE".into(), 5),
        E::Sym("k_neg".into(), -3),
        // constants defined by expressions stand for their value, not their text
        E::Sym("k_sum".into(), 3),
        E::Sym("K_Chain".into(), 14),
        E::Sym("k_late".into(), 9),
        E::Sym("lbl_a".into(), 0x60),
        E::Sym("LBL_B".into(), 0x62),
    ];
    for s in &syms {
        v.push(XCase { e: s.clone(), group: "symbols" });
        for op in BINOPS {
            v.push(XCase { e: bin(op, s.clone(), num(2)), group: "symbols" });
            v.push(XCase { e: bin(op, num(100), s.clone()), group: "symbols" });
            v.push(XCase { e: bin(op, s.clone(), syms[0].clone()), group: "symbols" });
        }
        // the same symbol more than once in one expression, in the same and in other spellings
        if let E::Sym(name, val) = s {
            let up = E::Sym(name.to_uppercase(), *val);
            let lo = E::Sym(name.to_lowercase(), *val);
            for op in BINOPS {
                v.push(XCase { e: bin(op, s.clone(), s.clone()), group: "symbols" });
                v.push(XCase { e: bin(op, up.clone(), lo.clone()), group: "symbols" });
                v.push(XCase { e: bin(op, bin(BinOp::Add, s.clone(), up.clone()), s.clone()), group: "symbols" });
            }
            v.push(XCase { e: bin(BinOp::Add, bin(BinOp::Mul, s.clone(), s.clone()), bin(BinOp::Mul, lo.clone(), up.clone())), group: "symbols" });
        }
        for u in UNOPS {
            v.push(XCase { e: un(u, s.clone()), group: "symbols" });
        }
        v.push(XCase { e: E::Func("high", Box::new(bin(BinOp::Mul, s.clone(), num(1000)))), group: "symbols" });
    }
    v
}

fn le8(v: i64) -> Vec<u8> {
    (v as u64).to_le_bytes().to_vec()
}

pub fn run(tier: Tier) -> i32 {
    let rep = Report::new("C05", tier, "exploration");
    let nself = exprm::self_check().unwrap_or_else(|e| machinery_fail(&format!("expression reference self-check failed: {}", e)));
    let cases = gen(tier);
    let evals = AtomicU64::new(0);
    let n_value = AtomicU64::new(0);
    let n_mustfail = AtomicU64::new(0);
    let n_unspec = AtomicU64::new(0);
    let distinct_values: Mutex<BTreeSet<i64>> = Mutex::new(BTreeSet::new());
    let distinct_texts: Mutex<Vec<u64>> = Mutex::new(vec![]);
    let groups: Mutex<BTreeMap<&'static str, u64>> = Mutex::new(BTreeMap::new());

    // precedence/associativity discrimination: for every ordered operator pair, does some leaf
    // triple give different values for the two groupings (both defined)?
    let mut discr: BTreeMap<(BinOp, BinOp), bool> = BTreeMap::new();
    for o1 in BINOPS {
        for o2 in BINOPS {
            let mut d = false;
            for a in [0i64, 1, 2, 3, 7] {
                for b in [0i64, 1, 2, 3, 7] {
                    for c in [0i64, 1, 2, 3, 7] {
                        let l = exprm::eval(&bin(o2, bin(o1, num(a), num(b)), num(c)));
                        let r = exprm::eval(&bin(o1, num(a), bin(o2, num(b), num(c))));
                        if let (Val::Value(x), Val::Value(y)) = (l, r) {
                            if x != y {
                                d = true;
                            }
                        }
                    }
                }
            }
            discr.insert((o1, o2), d);
        }
    }
    let undiscriminated: Vec<String> = discr.iter().filter(|(_, d)| !**d).map(|((a, b), _)| format!("{} {}", a.text(), b.text())).collect();

    let fail = |c: &XCase, kind: &str, text: &str, expected: &Val, o: &Outcome| {
        let key = format!("C05/{}/ops={}", kind, key_ops(&c.e));
        rep.violation(
            &key,
            || format!("`.dq {}` ({}): expected {:?}, observed {}", text, c.group, expected, match o {
                Outcome::Ok(b) if b.code.len() == 8 => format!("value {}", i64::from_le_bytes(b.code[..8].try_into().unwrap())),
                Outcome::Ok(b) => format!("{} bytes of code", b.code.len()),
                Outcome::Err(e) => format!("error: {}", e),
                Outcome::Panic { site, msg } => format!("panic at {}: {}", site, msg),
            }),
            || json!({"kind": "build_str", "source": format!("{}.dq {}\n{}", PROLOGUE, text, EPILOGUE),
                      "expected": format!("{:?}", expected), "observed": o.to_json()}),
        );
    };
    let check_single = |c: &XCase, text: &str, expected: &Val| {
        let o = batch::run_single_ps(PROLOGUE, EPILOGUE, &format!(".dq {}", text));
        evals.fetch_add(1, Ordering::Relaxed);
        match (expected, &o) {
            (_, Outcome::Panic { .. }) => fail(c, "panic", text, expected, &o),
            (Val::Value(v), Outcome::Ok(b)) => {
                if b.code != le8(*v) {
                    fail(c, "wrong-value", text, expected, &o)
                }
            }
            (Val::Value(_), Outcome::Err(_)) => fail(c, "rejected", text, expected, &o),
            (Val::MustFail, Outcome::Ok(_)) => fail(c, "must-fail-accepted", text, expected, &o),
            (Val::MustFail, Outcome::Err(_)) => {}
            (Val::Unspecified(alts), Outcome::Ok(b)) => {
                // any listed alternative (an empty list: any value) or an error
                if !alts.is_empty() && !alts.iter().any(|v| b.code == le8(*v)) {
                    fail(c, "wrong-value-unspecified-corner", text, expected, &o)
                }
            }
            (Val::Unspecified(_), Outcome::Err(_)) => {}
        }
    };

    let n_after_failure = AtomicU64::new(0);
    cases.par_chunks(256).for_each(|chunk| {
        // every chunk is evaluated on a thread that has just evaluated - and failed on - a program
        // whose constants carry the names of the prologue with other values: the value of an
        // expression is a function of the program it stands in
        let _ = crate::sut::build_str(".equ k_five = 2 + 2\n.equ k_sum = k_five * 9\n.equ dbl0 = 3 + 0\n.equ dbl1 = dbl0 + dbl0\n.equ K_Neg = 1 - 8\n.equ k_late = k_sum - 1\n.dseg\nlbl_a: .byte 7\n.cseg\n.dq dbl1 + k_sum + K_Neg + k_late + lbl_a\n.equ k_chain = k_sum / (k_five - 4)\n.dq k_chain\n");
        let mut packed: Vec<(usize, BCase)> = vec![];
        let mut texts = vec![];
        for (i, c) in chunk.iter().enumerate() {
            let text = c.e.render();
            let expected = exprm::eval(&c.e);
            {
                let mut h: u64 = 0xcbf29ce484222325;
                for b in text.bytes() {
                    h ^= b as u64;
                    h = h.wrapping_mul(0x100000001b3);
                }
                texts.push(h);
            }
            *groups.lock().unwrap().entry(c.group).or_insert(0) += 1;
            match &expected {
                Val::Value(v) => {
                    n_value.fetch_add(1, Ordering::Relaxed);
                    distinct_values.lock().unwrap().insert(*v);
                    // an expression over constants that are themselves defined by expressions: also
                    // as the very first evaluation after one that failed over the same names
                    if ["k_sum", "k_chain", "dbl", "fn_mix", "K_SUM", "K_Chain", "k_neg", "K_Neg"].iter().any(|n| text.contains(n)) && n_after_failure.fetch_add(1, Ordering::Relaxed) < 20_000 {
                        let _ = crate::sut::build_str(".equ k_five = 2 + 2\n.equ k_sum = k_five * 9\n.equ K_Neg = 1 - 8\n.equ dbl0 = 3 + 0\n.equ dbl1 = dbl0 + dbl0\n.equ dbl2 = dbl1 + dbl1\n.equ dbl3 = dbl2 + dbl2\n.equ fn_mix = 77 + 0\n.equ k_chain = (k_sum + K_Neg + dbl3 + fn_mix) / (k_five - 4)\n.dq k_chain\n");
                        check_single(c, &text, &expected);
                    }
                    packed.push((i, BCase { text: format!(".dq {}", text), expect: le8(*v) }));
                }
                Val::MustFail => {
                    n_mustfail.fetch_add(1, Ordering::Relaxed);
                    check_single(c, &text, &expected);
                }
                Val::Unspecified(_) => {
                    n_unspec.fetch_add(1, Ordering::Relaxed);
                    check_single(c, &text, &expected);
                }
            }
        }
        distinct_texts.lock().unwrap().extend(texts);
        let bc: Vec<BCase> = packed.iter().map(|(_, b)| BCase { text: b.text.clone(), expect: b.expect.clone() }).collect();
        evals.fetch_add(bc.len() as u64, Ordering::Relaxed);
        match batch::run_batch_ps(PROLOGUE, EPILOGUE, &bc) {
            BatchResult::AllOk => {}
            BatchResult::Failures(f) => {
                for (bi, o) in f {
                    let c = &chunk[packed[bi].0];
                    let text = c.e.render();
                    let expected = exprm::eval(&c.e);
                    match &o {
                        Outcome::Panic { .. } => fail(c, "panic", &text, &expected, &o),
                        Outcome::Err(_) => fail(c, "rejected", &text, &expected, &o),
                        Outcome::Ok(_) => fail(c, "wrong-value", &text, &expected, &o),
                    }
                }
            }
            BatchResult::ContextDependent(pos, out) => {
                let c = &chunk[packed[pos].0];
                rep.violation(
                    "C05/context-dependent",
                    || format!("`.dq {}` evaluates correctly alone but not inside a program", c.e.render()),
                    || json!({"kind": "build_str", "source": batch::program_ps(PROLOGUE, EPILOGUE, &bc), "observed": out.to_json()}),
                );
            }
        }
    });

    let dv = distinct_values.lock().unwrap().len();
    let dt = crate::report::distinct(std::mem::take(&mut *distinct_texts.lock().unwrap()));
    rep.guard(dv > 500, "fewer than 500 distinct expected values");
    rep.guard(n_mustfail.load(Ordering::Relaxed) > 500, "fewer than 500 must-fail cases");
    for i in [10usize, cases.len() / 2, cases.len() - 40] {
        let c = &cases[i];
        rep.sample(|| json!({"source": format!(".dq {}", c.e.render()), "group": c.group, "expected": format!("{:?}", exprm::eval(&c.e))}));
    }
    rep.assume("corners the statement does not pin are accepted either way (never a panic): shift counts outside 0..63, >> of a negative value (arithmetic or logical), exp2 outside 0..62, i64::MIN % -1");
    rep.assume("'<<' is a bit shift (bits shifted out are lost), not an overflowing multiplication");
    rep.assume("both operands of && and || are evaluated: an error in either fails the build");
    rep.assume("page/log2 are not in the statement and are not checked; '--x' and a space after a unary operator are not generated");
    let coverage = cov(json!({
        "evaluations": evals.load(Ordering::Relaxed),
        "symbol_expressions_as_first_evaluation_after_a_failed_one": n_after_failure.load(Ordering::Relaxed).min(20_000),
        "distinct_nontrivial": dt,
        "rule": "all trees with <=2 binary operators (18x18 ordered pairs, both groupings) over leaves {0,1,2,3,7} rendered with minimal parentheses, one unary operator on any node (quick: reduced leaf cube), unary x unary, every operator on a 25x25 boundary grid up to i64 min/max, every function, 33 literal values x 7 radix spellings, .equ symbols (defined before and after use, either case) and labels; thorough adds all 3-operator trees over {1,2,7}. distinct_nontrivial = distinct rendered expression texts (each contains at least one literal or symbol and is evaluated)",
        "exhaustive": true,
        "groups": *groups.lock().unwrap(),
        "expected_value": n_value.load(Ordering::Relaxed),
        "expected_must_fail": n_mustfail.load(Ordering::Relaxed),
        "unspecified_corner": n_unspec.load(Ordering::Relaxed),
        "distinct_expected_values": dv,
        "operator_pairs": 324,
        "operator_pairs_discriminated_by_some_leaf_triple": 324 - undiscriminated.len(),
        "operator_pairs_not_discriminable": undiscriminated,
        "reference_self_check_cases": nself,
        "caps_hit": [],
        "trusted_base": ["harness exprm::eval on checked i64 (checked against Rust's operators)", "exprm::render (render->parse identity checked with an independent precedence-climbing parser)"],
    }));
    rep.finish(coverage)
}
