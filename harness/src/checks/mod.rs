pub mod c01;
pub mod replay;

use crate::report::Tier;

pub fn dispatch(prop: &str, tier: Tier) -> i32 {
    match prop {
        "C01" => c01::run(tier),
        _ => {
            println!("MACHINERY-ERROR: unknown property {}", prop);
            2
        }
    }
}
