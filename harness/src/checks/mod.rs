pub mod c01;
pub mod c02;
pub mod c03;
pub mod c04;
pub mod c05;
pub mod c06;
pub mod c07;
pub mod c08;
pub mod c09;
pub mod c10;
pub mod c11;
pub mod c12;
pub mod c13;
pub mod c14;
pub mod c15;
pub mod c16;
pub mod c17;
pub mod c18;
pub mod replay;

use crate::report::Tier;

pub fn dispatch(prop: &str, tier: Tier) -> i32 {
    match prop {
        "C01" => c01::run(tier),
        "C02" => c02::run(tier),
        "C03" => c03::run(tier),
        "C04" => c04::run(tier),
        "C05" => c05::run(tier),
        "C06" => c06::run(tier),
        "C07" => c07::run(tier),
        "C08" => c08::run(tier),
        "C09" => c09::run(tier),
        "C10" => c10::run(tier),
        "C11" => c11::run(tier),
        "C12" => c12::run(tier),
        "C13" => c13::run(tier),
        "C14" => c14::run(tier),
        "C15" => c15::run(tier),
        "C16" => c16::run(tier),
        "C17" => c17::run(tier),
        "C18" => c18::run(tier),
        _ => {
            println!("MACHINERY-ERROR: unknown property {}", prop);
            2
        }
    }
}
