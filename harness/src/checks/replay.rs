//! `./run replay <file>`: re-execute exactly one recorded case on the current tree, without the
//! explorer, and print expected vs observed.

use serde_json::Value;

use crate::sut;

pub fn run(path: &str) -> i32 {
    let text = match std::fs::read_to_string(path) {
        Ok(t) => t,
        Err(e) => {
            println!("cannot read {}: {}", path, e);
            return 2;
        }
    };
    let v: Value = match serde_json::from_str(&text) {
        Ok(v) => v,
        Err(e) => {
            println!("{} is not JSON: {}", path, e);
            return 2;
        }
    };
    println!("property : {}", v["property"].as_str().unwrap_or("?"));
    println!("key      : {}", v["key"].as_str().unwrap_or("?"));
    println!("what     : {}", v["what"].as_str().unwrap_or("?"));
    match v["kind"].as_str().unwrap_or("") {
        "build_str" => {
            let src = v["source"].as_str().unwrap_or("");
            println!("--- source ---\n{}--- end ---", src);
            let o = sut::build_str(src);
            println!("expected : {}", v["expected"]);
            println!("recorded : {}", v["observed"]);
            println!("now      : {}", o.to_json());
            let same = o.to_json() == v["observed"];
            println!("{}", if same { "REPRODUCED (same observation as recorded)" } else { "DIFFERENT observation from the recorded one" });
            if same { 1 } else { 0 }
        }
        "hex" => crate::checks::c07::replay(&v),
        "file_tree" => crate::checks::c11::replay(&v),
        "build_file" => {
            let src = v["source"].as_str().unwrap_or("");
            let o = sut::build_file(std::path::PathBuf::from(src), Default::default());
            println!("build_file({})", src);
            println!("recorded : {}", v["observed"]);
            println!("now      : {}", o.to_json());
            if o.is_panic() { 1 } else { 0 }
        }
        "history" => crate::checks::c17::replay(&v),
        "cli" => crate::checks::c18::replay(&v),
        other => {
            println!("replay of kind '{}' is handled by re-running the check; case: {}", other, v);
            2
        }
    }
}
