//! C07 — the Intel HEX files reproduce the images byte for byte at the right addresses (E1 over lengths).

use std::collections::BTreeSet;
use std::sync::atomic::{AtomicU64, Ordering};

use rayon::prelude::*;
use serde_json::json;

use crate::ihex;
use crate::report::{cov, machinery_fail, Report, Scratch, Tier};
use crate::sut::{self, Built};

fn pattern(kind: u8, len: usize) -> Vec<u8> {
    match kind {
        0 => (0..len).map(|i| ((i.wrapping_mul(131)) ^ (i >> 8).wrapping_mul(7) ^ (i >> 16).wrapping_mul(29) ^ 0x5a) as u8).collect(),
        1 => vec![0u8; len],
        _ => vec![0xffu8; len],
    }
}

thread_local! {
    /// the device numbers (flash words, EEPROM bytes, RAM bytes) the next results carry; None = no device selected
    static DEVICE: std::cell::Cell<Option<(u32, u32, u32)>> = std::cell::Cell::new(None);
}

fn built(code: Vec<u8>, eeprom: Vec<u8>) -> Built {
    let (flash_size, eeprom_size, ram_size) = DEVICE.with(|d| d.get()).unwrap_or((4_194_304, 65536, 8_388_608));
    Built { code, eeprom, flash_size, eeprom_size, ram_size, ram_filling: 0, messages: vec![] }
}

/// `check_one_pre` for a result that carries the numbers of a device row
pub fn check_one_dev(dir: &std::path::Path, id: usize, writer_code: bool, len: usize, pat: u8, other_len: usize, dev: (u32, u32, u32)) -> Option<(String, String)> {
    DEVICE.with(|d| d.set(Some(dev)));
    let r = check_one_pre(dir, id, writer_code, len, pat, other_len, 0);
    DEVICE.with(|d| d.set(None));
    r
}

/// (kind, detail) of a violation, or None when the written file reproduces the image exactly
pub fn check_one(dir: &std::path::Path, id: usize, writer_code: bool, len: usize, pat: u8, other_len: usize) -> Option<(String, String)> {
    check_one_pre(dir, id, writer_code, len, pat, other_len, 0)
}

/// `pre`: what is at the path before the write. 0 nothing; 1 a longer valid HEX file (the same
/// writer's output for a longer image); 2 longer arbitrary text
pub fn check_one_pre(dir: &std::path::Path, id: usize, writer_code: bool, len: usize, pat: u8, other_len: usize, pre: u8) -> Option<(String, String)> {
    let image = pattern(pat, len);
    let other = pattern(0, other_len);
    let b = if writer_code { built(image.clone(), other) } else { built(other, image.clone()) };
    let path = dir.join(format!("f{}.hex", id));
    match pre {
        1 => {
            let longer = pattern(2, len + 700);
            let lb = if writer_code { built(longer, vec![]) } else { built(vec![], longer) };
            let _ = if writer_code { sut::write_code_hex(path.clone(), &lb) } else { sut::write_eeprom_hex(path.clone(), &lb) };
        }
        2 => {
            let _ = std::fs::write(&path, "previous content of this file\n".repeat(len / 8 + 40));
        }
        _ => {}
    }
    let r = if writer_code { sut::write_code_hex(path.clone(), &b) } else { sut::write_eeprom_hex(path.clone(), &b) };
    if let Err(e) = r {
        let _ = std::fs::remove_file(&path);
        return Some(("write-failed".into(), format!("the writer fails: {}", e)));
    }
    let text = match std::fs::read(&path) {
        Ok(t) => t,
        Err(e) => return Some(("no-file".into(), format!("the writer reported success but the file cannot be read: {}", e))),
    };
    let _ = std::fs::remove_file(&path);
    match ihex::decode(&text) {
        Err(e) => Some(("malformed".into(), e)),
        Ok(d) => ihex::compare(&d, &image).map(|e| ("wrong-content".into(), e)),
    }
}

pub fn run(tier: Tier) -> i32 {
    let rep = Report::new("C07", tier, "exploration");
    ihex::self_check().unwrap_or_else(|e| machinery_fail(&format!("Intel HEX reader self-check failed: {}", e)));
    let scratch = Scratch::new("c07");
    // (length, class)
    let mut lens: Vec<(usize, String)> = (0..=600).map(|l| (l, "small".to_string())).collect();
    let largest_flash_bytes = sut::devices().iter().map(|d| d.flash_words as usize * 2).max().unwrap_or(0);
    rep.guard(largest_flash_bytes >= 2 * 65536, "largest flash in the device table is expected to be at least 128 KiB");
    let kmax = largest_flash_bytes / 65536;
    let ks: Vec<usize> = if tier.thorough() { (1..=kmax).collect() } else { vec![1, 2, kmax] };
    for k in ks.iter() {
        for delta in -17i64..=17 {
            let l = (*k as i64 * 65536 + delta) as usize;
            // (lengths up to 17 bytes beyond the largest flash are kept: they cost nothing and show
            // that the last boundary is handled like the others)
            if l <= largest_flash_bytes + 17 {
                lens.push((l, format!("boundary-{}x64K", k)));
            }
        }
    }
    // images only the default device can hold: the switch from segment to linear addressing at
    // 1 MiB and a few boundaries up to the default flash of 8 MiB
    let default_flash_bytes = sut::DEFAULT_FLASH_WORDS as usize * 2;
    let big_ks: Vec<usize> = if tier.thorough() { vec![16, 17, 18, 32, 64, 127, 128] } else { vec![16, 17] };
    for k in big_ks.iter() {
        for delta in [-1i64, 0, 1, 16, 17] {
            let l = (*k as i64 * 65536 + delta) as usize;
            if l <= default_flash_bytes {
                lens.push((l, format!("default-device-{}x64K", k)));
            }
        }
    }
    // work items
    let mut work: Vec<(bool, usize, u8, usize, String)> = vec![];
    for (l, class) in lens.iter() {
        let pats: Vec<u8> = if *l <= 600 || tier.thorough() { vec![0, 1, 2] } else { vec![0] };
        for writer_code in [true, false] {
            for p in pats.iter() {
                for other in [0usize, 3] {
                    if *l > 600 && other == 3 && *p != 0 {
                        continue;
                    }
                    work.push((writer_code, *l, *p, other, class.clone()));
                }
            }
        }
    }
    // the other image of the same build result is large as well (both images come out of one
    // generator call: nothing of the one may show in the other)
    for l in [0usize, 1, 16, 17, 600, 65535, 65536, 65537] {
        for other in [1usize, 16, 65535, 65536, 65537, 131072, 1048577] {
            for writer_code in [true, false] {
                work.push((writer_code, l, 0, other, "other-image-large".to_string()));
            }
        }
    }
    let evals = AtomicU64::new(0);
    let bytes_checked = AtomicU64::new(0);
    // results that carry the numbers of each row of the device table (the writers are handed the
    // whole result): empty images, small ones, the 64 KiB boundaries the device can hold, a full
    // flash / a full EEPROM
    let n_dev = AtomicU64::new(0);
    {
        let mut dw: Vec<(String, (u32, u32, u32), bool, usize, usize)> = vec![];
        for d in sut::devices() {
            let fb = d.flash_words as usize * 2;
            let es = d.eeprom_size as usize;
            let mut cl: Vec<usize> = vec![0, 2, 600, 65534, 65536, 65538, 65552, 131072, 131074, fb.saturating_sub(2), fb].into_iter().filter(|l| *l <= fb).collect();
            cl.sort();
            cl.dedup();
            let mut el: Vec<usize> = vec![0, 1, 17, es.saturating_sub(1), es].into_iter().filter(|l| *l <= es).collect();
            el.sort();
            el.dedup();
            let dev = (d.flash_words, d.eeprom_size, d.ram_size);
            for l in cl {
                dw.push((d.name.clone(), dev, true, l, el[el.len() - 1].min(3)));
            }
            for l in el {
                dw.push((d.name.clone(), dev, false, l, 2.min(fb)));
            }
        }
        dw.par_iter().enumerate().for_each(|(i, (name, dev, writer_code, len, other))| {
            evals.fetch_add(1, Ordering::Relaxed);
            n_dev.fetch_add(1, Ordering::Relaxed);
            bytes_checked.fetch_add(*len as u64, Ordering::Relaxed);
            if let Some((kind, detail)) = check_one_dev(&scratch.path, 9_000_000 + i, *writer_code, *len, 1, *other, *dev) {
                let w = if *writer_code { "code" } else { "eeprom" };
                let class = if *len == 0 { "empty".to_string() } else if *len > 65536 { "beyond-64K".to_string() } else { "within-64K".to_string() };
                rep.violation(
                    &format!("C07/{}/writer={}/device-numbers={}w-{}b/lengths={}", kind, w, dev.0, dev.1, class),
                    || format!("write_{}_hex of a {}-byte image in a result that carries the numbers of {} (flash {} words, EEPROM {} bytes): {}", w, len, name, dev.0, dev.1, detail),
                    || json!({"kind": "hex", "writer": w, "len": len, "pattern": 1, "other_len": other, "device_numbers": [dev.0, dev.1, dev.2], "observed": detail}),
                );
            }
        });
    }
    work.par_iter().enumerate().for_each(|(id, (writer_code, len, pat, other, class))| {
        evals.fetch_add(1, Ordering::Relaxed);
        bytes_checked.fetch_add(*len as u64, Ordering::Relaxed);
        if let Some((kind, detail)) = check_one(&scratch.path, id, *writer_code, *len, *pat, *other) {
            let w = if *writer_code { "code" } else { "eeprom" };
            rep.violation(
                &format!("C07/{}/writer={}/lengths={}", kind, w, class),
                || format!("write_{}_hex of a {}-byte image (pattern {}, other image {} bytes): {}", w, len, pat, other, detail),
                || json!({"kind": "hex", "writer": w, "len": len, "pattern": pat, "other_len": other, "observed": detail}),
            );
        }
    });
    // a path that already holds a longer file (valid HEX or arbitrary text) is rewritten
    let n_pre = AtomicU64::new(0);
    let pre_lens: Vec<usize> = (0..=40).chain([100, 599, 600, 65535, 65536, 65537]).collect();
    let pre_work: Vec<(bool, usize, u8)> = pre_lens.iter().flat_map(|l| [true, false].into_iter().flat_map(move |w| [1u8, 2].into_iter().map(move |p| (w, *l, p)))).collect();
    pre_work.par_iter().enumerate().for_each(|(i, (writer_code, len, pre))| {
        n_pre.fetch_add(1, Ordering::Relaxed);
        evals.fetch_add(1, Ordering::Relaxed);
        if let Some((kind, detail)) = check_one_pre(&scratch.path, 10_000_000 + i, *writer_code, *len, 0, 0, *pre) {
            let w = if *writer_code { "code" } else { "eeprom" };
            rep.violation(
                &format!("C07/{}/writer={}/path-held={}", kind, w, if *pre == 1 { "longer-hex-file" } else { "longer-text" }),
                || format!("write_{}_hex of a {}-byte image over a path that already holds a longer file: {}", w, len, detail),
                || json!({"kind": "hex", "writer": w, "len": len, "pattern": 0, "other_len": 0, "pre_existing": pre, "observed": detail}),
            );
        }
    });
    // two build results of the same shape (same lengths, different contents) written one after the
    // other on one thread, in every order of the two writers: each file holds its own result
    let n_pairs_same_shape = AtomicU64::new(0);
    {
        let mut id = 30_000_000usize;
        for (l, o) in [(1usize, 1usize), (16, 16), (17, 3), (40, 40), (600, 7), (65536, 16), (65537, 65537)] {
            for first_code in [true, false] {
                for second_code in [true, false] {
                    for same_variable in [true, false] {
                        id += 2;
                        // X: pattern 1 / 2, Y: position hash - same two lengths
                        let x = built(pattern(1, l), pattern(2, o));
                        let y = built(pattern(0, l), pattern(0, o));
                        let px = scratch.path.join(format!("s{}.hex", id));
                        let py = scratch.path.join(format!("s{}.hex", id + 1));
                        let mut slot = x.clone();
                        let r1 = if first_code { sut::write_code_hex(px.clone(), &slot) } else { sut::write_eeprom_hex(px.clone(), &slot) };
                        if same_variable {
                            slot = y.clone();
                        }
                        let second = if same_variable { &slot } else { &y };
                        let r2 = if second_code { sut::write_code_hex(py.clone(), second) } else { sut::write_eeprom_hex(py.clone(), second) };
                        n_pairs_same_shape.fetch_add(1, Ordering::Relaxed);
                        evals.fetch_add(2, Ordering::Relaxed);
                        for (r, path, res, is_code, which) in [(r1, &px, &x, first_code, "first"), (r2, &py, &y, second_code, "second")] {
                            let image = if is_code { &res.code } else { &res.eeprom };
                            let verdict: Option<(String, String)> = match r {
                                Err(e) => Some(("write-failed".into(), format!("the writer fails: {}", e))),
                                Ok(()) => match std::fs::read(path) {
                                    Err(e) => Some(("no-file".into(), format!("no file: {}", e))),
                                    Ok(t) => match ihex::decode(&t) {
                                        Err(e) => Some(("malformed".into(), e)),
                                        Ok(d) => ihex::compare(&d, image).map(|e| ("wrong-content".into(), e)),
                                    },
                                },
                            };
                            let _ = std::fs::remove_file(path);
                            if let Some((kind, detail)) = verdict {
                                let w = if is_code { "code" } else { "eeprom" };
                                rep.violation(
                                    &format!("C07/{}/writer={}/two-results-of-one-shape/{}-write", kind, w, which),
                                    || format!("two build results with images of {} and {} bytes written one after the other ({} then {}): the {} file: {}", l, o, if first_code { "code" } else { "eeprom" }, if second_code { "code" } else { "eeprom" }, which, detail),
                                    || json!({"kind": "hex", "writer": w, "len": image.len(), "pattern": if which == "first" { 1 } else { 0 }, "other_len": 0, "sequence": {"first": if first_code { "code" } else { "eeprom" }, "second": if second_code { "code" } else { "eeprom" }, "lengths": [l, o], "same_variable": same_variable}, "observed": detail}),
                                );
                            }
                        }
                    }
                }
            }
        }
    }
    // a write that fails (missing directory, path is a directory, /dev/full) followed by an
    // ordinary write on the same thread: nothing of the failed one may show in the second file
    let n_after_fail = AtomicU64::new(0);
    {
        let fail_targets: Vec<std::path::PathBuf> = vec![scratch.path.join("no_such_dir/x.hex"), scratch.path.clone(), crate::report::dev_full_link(&scratch.path, "full_device")];
        let mut id = 20_000_000usize;
        let exe = std::env::current_exe().unwrap_or_else(|e| machinery_fail(&format!("current_exe: {}", e)));
        for (fi, ft) in fail_targets.iter().enumerate() {
            for first_code in [true, false] {
                for second_code in [true, false] {
                    for (l1, l2) in [(40usize, 16usize), (16, 40), (700, 0), (0, 33), (70000, 5)] {
                        id += 1;
                        n_after_fail.fetch_add(1, Ordering::Relaxed);
                        evals.fetch_add(1, Ordering::Relaxed);
                        // /dev/full can be opened and read without end: a writer that looks at what the
                        // path holds must not be able to exhaust this process, so that pair runs in a
                        // child with 2 GiB of address space and a 30 s watchdog
                        let outcome: Option<(String, String)> = if fi == 2 {
                            run_in_child(&exe, &scratch.path, id, first_code, second_code, l1, l2)
                        } else {
                            let failing = if first_code { built(pattern(2, l1), vec![]) } else { built(vec![], pattern(2, l1)) };
                            // (the result of the first write is not looked at here)
                            let _ = if first_code { sut::write_code_hex(ft.clone(), &failing) } else { sut::write_eeprom_hex(ft.clone(), &failing) };
                            check_one(&scratch.path, id, second_code, l2, 0, 0)
                        };
                        if let Some((kind, detail)) = outcome {
                            let w = if second_code { "code" } else { "eeprom" };
                            rep.violation(
                                &format!("C07/{}/writer={}/after-failed-write-to={}", kind, w, ["missing-directory", "a-directory", "dev-full"][fi]),
                                || format!("write_{}_hex of a {}-byte image right after a failed write of a {}-byte image on the same thread: {}", w, l2, l1, detail),
                                || json!({"kind": "hex", "writer": w, "len": l2, "pattern": 0, "other_len": 0, "after_failed_write": true, "observed": detail}),
                            );
                        }
                    }
                }
            }
        }
    }
    // a location that accepts the beginning of a file and then no more (quota, full disk, file
    // size limit): whatever the limit, a writer that returns Ok has left a file that decodes to
    // exactly the image (each write in a child process under RLIMIT_FSIZE, SIGXFSZ ignored)
    let n_limited = AtomicU64::new(0);
    let n_limited_refused = AtomicU64::new(0);
    {
        let exe = std::env::current_exe().unwrap_or_else(|e| machinery_fail(&format!("current_exe: {}", e)));
        let limits: Vec<u64> = if tier.thorough() { vec![0, 1, 10, 43, 44, 45, 100, 511, 512, 513, 1024, 4095, 4096, 4097, 8191, 8192, 8193, 16384, 100_000, 1 << 22] } else { vec![0, 1, 44, 512, 4096, 8192, 8193, 1 << 22] };
        let mut lw: Vec<(bool, usize, u64)> = vec![];
        for wc in [true, false] {
            for len in [16usize, 700, 4000, 20000] {
                for l in limits.iter() {
                    lw.push((wc, len, *l));
                }
            }
        }
        let results: Vec<(bool, usize, u64, String)> = lw
            .par_iter()
            .enumerate()
            .map(|(i, (wc, len, l))| {
                let out = std::process::Command::new(&exe)
                    .arg("worker07lim")
                    .arg(&scratch.path)
                    .arg((30_000_000 + i).to_string())
                    .arg(if *wc { "1" } else { "0" })
                    .arg(len.to_string())
                    .arg(l.to_string())
                    .stderr(std::process::Stdio::null())
                    .output()
                    .unwrap_or_else(|e| machinery_fail(&format!("cannot spawn worker07lim: {}", e)));
                let line = String::from_utf8_lossy(&out.stdout).lines().last().unwrap_or("").to_string();
                let line = if line.is_empty() { format!("writer-died\tthe process writing under a file size limit ended with {} and no verdict", out.status) } else { line };
                (*wc, *len, *l, line)
            })
            .collect();
        for (wc, len, l, line) in results {
            n_limited.fetch_add(1, Ordering::Relaxed);
            evals.fetch_add(1, Ordering::Relaxed);
            if line == "refused" {
                n_limited_refused.fetch_add(1, Ordering::Relaxed);
            } else if line != "ok" {
                let (k, d) = line.split_once('\t').unwrap_or(("unreadable-verdict", line.as_str()));
                let w = if wc { "code" } else { "eeprom" };
                rep.violation(&format!("C07/{}/writer={}/under-a-file-size-limit", k, w), || format!("write_{}_hex of a {}-byte image under a file size limit of {} bytes: {}", w, len, l, d), || json!({"kind": "hex", "writer": w, "len": len, "pattern": 0, "other_len": 0, "file_size_limit": l, "how": "RLIMIT_FSIZE soft limit, SIGXFSZ ignored (sh: trap '' XFSZ; ulimit -f)", "observed": d}));
            }
        }
    }
    rep.guard(n_limited_refused.load(Ordering::Relaxed) > 10 && n_limited.load(Ordering::Relaxed) > n_limited_refused.load(Ordering::Relaxed), "writes under a file size limit need both outcomes (limit hit / not hit)");
    let distinct_lengths: BTreeSet<usize> = lens.iter().map(|x| x.0).collect();
    rep.guard(distinct_lengths.len() > 650, "fewer than 650 distinct lengths");
    rep.sample(|| json!({"writer": "code", "len": 44, "pattern": "position hash", "other_image_len": 0}));
    rep.sample(|| json!({"writer": "eeprom", "len": 65537, "pattern": "position hash", "other_image_len": 3}));
    rep.sample(|| json!({"writer": "code", "len": largest_flash_bytes, "pattern": "position hash", "other_image_len": 0}));
    rep.assume("CRLF or LF line ends and whitespace-only lines are not records and are tolerated");
    rep.assume("beyond the largest flash in the device table only selected boundaries are visited (the switch to linear addressing at 1 MiB; thorough: up to the default device's 8 MiB): images 'the assembler can produce' without a device");
    let coverage = cov(json!({
        "evaluations": evals.load(Ordering::Relaxed),
        "results_with_the_numbers_of_a_device_row": n_dev.load(Ordering::Relaxed),
        "distinct_nontrivial": distinct_lengths.len() - 1,
        "rule": "every image length 0..600 and every length within +-17 of k*64KiB (quick k in {1,2,kmax}, thorough k = 1..kmax, kmax = largest flash / 64 KiB) up to the largest flash in the device table; contents = position-hash pattern (a misplaced byte is seen), all-00, all-FF; both writers, the other image empty and non-empty (3 bytes; for 8 lengths also 7 sizes from 1 byte to beyond 1 MiB); each written file is decoded by the harness's strict reader and compared with the image address by address. distinct_nontrivial = distinct non-zero image lengths",
        "exhaustive": true,
        "distinct_lengths": distinct_lengths.len(),
        "image_bytes_compared": bytes_checked.load(Ordering::Relaxed),
        "rewrites_of_a_path_holding_a_longer_file": n_pre.load(Ordering::Relaxed),
        "pairs_of_results_of_one_shape": n_pairs_same_shape.load(Ordering::Relaxed),
        "writes_right_after_a_failed_write": n_after_fail.load(Ordering::Relaxed),
        "writes_under_a_file_size_limit": n_limited.load(Ordering::Relaxed),
        "writes_under_a_file_size_limit_refused": n_limited_refused.load(Ordering::Relaxed),
        "default_device_boundaries_x64K": big_ks,
        "largest_length": largest_flash_bytes,
        "caps_hit": [],
        "trusted_base": ["harness ihex::decode (self-checked on the repository's pinned vectors and on malformed files)"],
    }));
    drop(scratch);
    rep.finish(coverage)
}

/// `vcheck worker07 <dir> <id> <first_code> <second_code> <l1> <l2>`: a write to /dev/full followed
/// by an ordinary write, in a process of its own; prints `ok` or `<kind>\t<detail>`
pub fn worker_main(args: &[String]) -> i32 {
    let lim = libc::rlimit { rlim_cur: 2 << 30, rlim_max: 2 << 30 };
    unsafe {
        libc::setrlimit(libc::RLIMIT_AS, &lim);
    }
    let dir = std::path::PathBuf::from(&args[2]);
    let id: usize = args[3].parse().unwrap_or(0);
    let (first_code, second_code) = (args[4] == "1", args[5] == "1");
    let (l1, l2): (usize, usize) = (args[6].parse().unwrap_or(0), args[7].parse().unwrap_or(0));
    let failing = if first_code { built(pattern(2, l1), vec![]) } else { built(vec![], pattern(2, l1)) };
    let target = crate::report::dev_full_link(&dir, &format!("full_device_{}", id));
    let _ = if first_code { sut::write_code_hex(target, &failing) } else { sut::write_eeprom_hex(target, &failing) };
    match check_one(&dir, id, second_code, l2, 0, 0) {
        None => println!("ok"),
        Some((k, d)) => println!("{}\t{}", k, d.replace('\n', " ")),
    }
    0
}

/// `vcheck worker07lim <dir> <id> <writer_code> <len> <limit>`: one write under a file size limit
/// of `limit` bytes (SIGXFSZ ignored: the write beyond the limit is cut short or refused), in a
/// process of its own; prints `ok`, `refused` or `<kind>\t<detail>`
pub fn worker_lim_main(args: &[String]) -> i32 {
    let dir = std::path::PathBuf::from(&args[2]);
    let id: usize = args[3].parse().unwrap_or(0);
    let writer_code = args[4] == "1";
    let len: usize = args[5].parse().unwrap_or(0);
    let limit: u64 = args[6].parse().unwrap_or(0);
    let image = pattern(0, len);
    let b = if writer_code { built(image.clone(), vec![]) } else { built(vec![], image.clone()) };
    let path = dir.join(format!("lim{}.hex", id));
    let mut old = libc::rlimit { rlim_cur: 0, rlim_max: 0 };
    unsafe {
        let mem = libc::rlimit { rlim_cur: 2 << 30, rlim_max: 2 << 30 };
        libc::setrlimit(libc::RLIMIT_AS, &mem);
        libc::signal(libc::SIGXFSZ, libc::SIG_IGN);
        libc::getrlimit(libc::RLIMIT_FSIZE, &mut old);
        let lim = libc::rlimit { rlim_cur: limit, rlim_max: old.rlim_max };
        libc::setrlimit(libc::RLIMIT_FSIZE, &lim);
    }
    let r = if writer_code { sut::write_code_hex(path.clone(), &b) } else { sut::write_eeprom_hex(path.clone(), &b) };
    unsafe {
        libc::setrlimit(libc::RLIMIT_FSIZE, &old);
    }
    let verdict = match r {
        Err(_) => "refused".to_string(),
        Ok(()) => match std::fs::read(&path) {
            Err(e) => format!("no-file\tthe writer reported success but the file cannot be read: {}", e),
            Ok(text) => match ihex::decode(&text) {
                Err(e) => format!("truncated-file-reported-as-written\tthe writer returned Ok, but the file ({} bytes of text) is not a complete Intel HEX file: {}", text.len(), e.replace('\n', " ")),
                Ok(d) => match ihex::compare(&d, &image) {
                    Some(e) => format!("wrong-content\tthe writer returned Ok, but {}", e.replace('\n', " ")),
                    None => "ok".to_string(),
                },
            },
        },
    };
    let _ = std::fs::remove_file(&path);
    println!("{}", verdict);
    0
}

fn run_in_child(exe: &std::path::Path, dir: &std::path::Path, id: usize, first_code: bool, second_code: bool, l1: usize, l2: usize) -> Option<(String, String)> {
    use std::process::{Command, Stdio};
    let mut child = Command::new(exe)
        .arg("worker07")
        .arg(dir)
        .arg(id.to_string())
        .arg(if first_code { "1" } else { "0" })
        .arg(if second_code { "1" } else { "0" })
        .arg(l1.to_string())
        .arg(l2.to_string())
        .stdout(Stdio::piped())
        .stderr(Stdio::null())
        .spawn()
        .unwrap_or_else(|e| machinery_fail(&format!("cannot spawn worker07: {}", e)));
    let start = std::time::Instant::now();
    loop {
        match child.try_wait() {
            Ok(Some(status)) => {
                let mut out = String::new();
                if let Some(mut so) = child.stdout.take() {
                    use std::io::Read;
                    let _ = so.read_to_string(&mut out);
                }
                let line = out.lines().last().unwrap_or("").to_string();
                if line == "ok" {
                    return None;
                }
                if let Some((k, d)) = line.split_once('\t') {
                    return Some((k.to_string(), d.to_string()));
                }
                return Some(("writer-died".into(), format!("the process writing to /dev/full and then to an ordinary file ended with {} and no verdict (memory limit 2 GiB)", status)));
            }
            Ok(None) => {
                if start.elapsed().as_secs() > 30 {
                    let _ = child.kill();
                    let _ = child.wait();
                    return Some(("writer-hangs".into(), "writing to /dev/full and then to an ordinary file does not finish within 30 s".into()));
                }
                std::thread::sleep(std::time::Duration::from_millis(5));
            }
            Err(e) => machinery_fail(&format!("waiting for worker07: {}", e)),
        }
    }
}

/// `./run replay <file>` for kind "hex"
pub fn replay(v: &serde_json::Value) -> i32 {
    let scratch = Scratch::new("c07replay");
    let writer_code = v["writer"].as_str() == Some("code");
    let len = v["len"].as_u64().unwrap_or(0) as usize;
    let pat = v["pattern"].as_u64().unwrap_or(0) as u8;
    let other = v["other_len"].as_u64().unwrap_or(0) as usize;
    println!("write_{}_hex of a {}-byte image (pattern {}, other image {} bytes)", if writer_code { "code" } else { "eeprom" }, len, pat, other);
    println!("recorded : {}", v["observed"]);
    let pre = v["pre_existing"].as_u64().unwrap_or(0) as u8;
    if let Some(a) = v["device_numbers"].as_array() {
        let n = |i: usize| a.get(i).and_then(|x| x.as_u64()).unwrap_or(0) as u32;
        DEVICE.with(|d| d.set(Some((n(0), n(1), n(2)))));
        println!("(the result carries the device numbers {:?})", a);
    }
    match check_one_pre(&scratch.path, 0, writer_code, len, pat, other, pre) {
        Some((kind, detail)) => {
            println!("now      : {} — {}", kind, detail);
            println!("REPRODUCED (the written file still does not reproduce the image)");
            1
        }
        None => {
            println!("now      : the written file decodes to exactly the image");
            0
        }
    }
}
