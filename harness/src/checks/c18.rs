//! C18 — the command-line tool writes what the library built, or fails visibly
//! (E5c: fault enumeration over output locations).

use std::collections::BTreeMap;
use std::path::{Path, PathBuf};
use std::process::Command;
use std::sync::atomic::{AtomicU64, Ordering};
use std::sync::Mutex;

use rayon::prelude::*;
use serde_json::json;

use crate::ihex;
use crate::report::{cov, machinery_fail, Report, Scratch, Tier};
use crate::sut::{self, Outcome};

const SOURCES: [(&str, &str); 19] = [
    ("code-only", "start_l: ldi r16, 1\n rjmp start_l\n.db \"hi\", 0\n"),
    ("code-and-eeprom", "ldi r16, 2\n.eseg\nee_v: .db 1, 2, 3, 4, 5\n.cseg\nldi r17, ee_v\n"),
    ("eeprom-only", ".eseg\n.dw 0xbeef, 0x1234\n"),
    ("empty", ""),
    ("only-comments", "; nothing here\n// at all\n\n"),
    ("with-messages", ".message \"note one\"\nnop\n.warning \"note two\"\n"),
    ("syntax-error", "ldi r16, 1\n!! not assembly\n"),
    ("semantic-error", "ldi r16, 1\nldi r17, 999\n"),
    ("error-directive", "nop\n.error \"stop here\"\n"),
    ("missing-include", "nop\n.include \"does_not_exist.inc\"\n"),
    ("nonexistent-source", "<no file is written>"),
    // devices with no RAM at all, with no EEPROM, the largest one, and data in all three memories
    // (what -v has to print differs)
    ("device-without-ram", ".device ATtiny11\nldi r16, 1\nrjmp pc\n"),
    ("device-without-eeprom", ".device ATtiny20\nldi r16, 1\n.dseg\nbuf_v: .byte 4\n"),
    ("largest-device-all-memories", ".device ATmega2560\nldi r16, 1\n.dseg\nbuf_w: .byte 100\n.eseg\n.db 1, 2, 3\n"),
    ("data-segment-only", ".dseg\nv_only: .byte 16\n"),
    // images that are not empty but hold nothing except zero bytes (or 0xff): they are images
    ("eeprom-all-zero", "ldi r16, 3\n.eseg\nboots_v: .dw 0\nflags_v: .db 0, 0\n"),
    ("code-all-zero", "nop\nnop\n.dw 0\n.eseg\n.db 7\n"),
    ("both-all-zero", "nop\n.eseg\n.db 0\n"),
    ("images-all-ff", ".dw 0xffff, 0xffff\n.eseg\n.db 0xff, 0xff, 0xff\n"),
];

#[derive(Clone, Copy, PartialEq, Eq, Debug, PartialOrd, Ord)]
enum Loc {
    /// no option: default location next to the source
    Default,
    /// default location, but a directory already sits at that path
    DefaultIsDir,
    Writable,
    NoDir,
    IsDir,
    ParentIsFile,
    DevFull,
}

impl Loc {
    fn writable(self) -> bool {
        matches!(self, Loc::Default | Loc::Writable)
    }
    fn option(self) -> bool {
        !matches!(self, Loc::Default | Loc::DefaultIsDir)
    }
}

const SENTINEL: &[u8] = b"SENTINEL: this file must not change when the build fails\n";

fn list_files(root: &Path) -> BTreeMap<String, Vec<u8>> {
    let mut out = BTreeMap::new();
    let mut stack = vec![root.to_path_buf()];
    while let Some(d) = stack.pop() {
        if let Ok(rd) = std::fs::read_dir(&d) {
            for e in rd.flatten() {
                let p = e.path();
                if std::fs::symlink_metadata(&p).map(|m| m.file_type().is_symlink()).unwrap_or(false) {
                    // links are recorded by their target, never read through
                    out.insert(p.strip_prefix(root).unwrap().display().to_string(), format!("-> {:?}", std::fs::read_link(&p).ok()).into_bytes());
                    continue;
                }
                if p.is_dir() {
                    out.insert(format!("{}/", p.strip_prefix(root).unwrap().display()), vec![]);
                    stack.push(p);
                } else {
                    out.insert(p.strip_prefix(root).unwrap().display().to_string(), std::fs::read(&p).unwrap_or_default());
                }
            }
        }
    }
    out
}

/// source file names: the default output names are derived from the stem (name without its last extension)
/// (in the last name \u{1} stands for the byte 0xFF: a file name that is not valid UTF-8)
const FILE_NAMES: [&str; 6] = ["prog.asm", "prog.v2.asm", "noextension", "my prog.asm", "PROG.ASM", "pr\u{1}g.asm"];

/// the text as an OS string, with the placeholder \u{1} turned into the byte 0xFF
fn os(s: &str) -> std::ffi::OsString {
    use std::os::unix::ffi::OsStringExt;
    std::ffi::OsString::from_vec(s.bytes().map(|b| if b == 1 { 0xff } else { b }).collect())
}

struct Spec {
    /// index into FILE_NAMES
    name: usize,
    src: usize,
    code: Loc,
    eep: Loc,
    verbose: bool,
    /// 0 relative, 1 absolute, 2 nested relative
    path_kind: u8,
    sentinels: bool,
}

fn place(dir: &Path, which: &str, loc: Loc, src_dir_rel: &str, stem: &str, sentinels: bool) -> (Option<String>, PathBuf) {
    // returns (option argument, path where the output is expected)
    let default_name = if which == "code" { format!("{}.hex", stem) } else { format!("{}.eep.hex", stem) };
    match loc {
        Loc::Default | Loc::DefaultIsDir => {
            let p = dir.join(src_dir_rel).join(os(&default_name));
            if loc == Loc::DefaultIsDir {
                let _ = std::fs::create_dir_all(&p);
            } else if sentinels {
                let _ = std::fs::write(&p, SENTINEL);
            }
            (None, p)
        }
        Loc::Writable => {
            let rel = format!("out_{}/{}_out.hex", which, which);
            let p = dir.join(&rel);
            let _ = std::fs::create_dir_all(p.parent().unwrap());
            if sentinels {
                let _ = std::fs::write(&p, SENTINEL);
            }
            (Some(rel), p)
        }
        Loc::NoDir => {
            let rel = format!("missing_dir_{}/x.hex", which);
            (Some(rel.clone()), dir.join(rel))
        }
        Loc::IsDir => {
            let rel = format!("a_directory_{}", which);
            let _ = std::fs::create_dir_all(dir.join(&rel));
            (Some(rel.clone()), dir.join(rel))
        }
        Loc::ParentIsFile => {
            let f = format!("plain_file_{}", which);
            let _ = std::fs::write(dir.join(&f), b"i am a file\n");
            let rel = format!("{}/x.hex", f);
            (Some(rel.clone()), dir.join(rel))
        }
        Loc::DevFull => {
            // (a link to /dev/full inside the run's directory, see report::dev_full_link)
            let name = format!("full_device_{}", which);
            let p = crate::report::dev_full_link(dir, &name);
            (Some(name), p)
        }
    }
}

/// Run the binary once for one specification in a fresh directory under `scratch_root`.
/// Returns (expected to fail?, problems found, details of the run).
fn exec_spec(scratch_root: &Path, bin: &Path, id: usize, sp: &Spec) -> (bool, Vec<(&'static str, String)>, serde_json::Value) {
        let mut expected_fail = false;
        let dir = scratch_root.join(format!("case{}", id));
        let (sname, stext) = SOURCES[sp.src];
        // 3: the given path is a symbolic link in work/ to a differently named file in store/ (the
        // outputs belong next to the path that was given)
        let src_dir_rel = match sp.path_kind {
            2 => "nested/deeper",
            3 => "work",
            _ => "",
        };
        let _ = std::fs::create_dir_all(dir.join(src_dir_rel));
        let fname = FILE_NAMES[sp.name];
        // the stem: the file name without its last extension
        let stem = match fname.rfind('.') {
            Some(i) if i > 0 => &fname[..i],
            _ => fname,
        };
        let src_rel = match sp.path_kind {
            2 => format!("nested/deeper/{}", fname),
            3 => format!("work/{}", fname),
            _ => fname.to_string(),
        };
        let src_abs = dir.join(os(&src_rel));
        if sname != "nonexistent-source" {
            if sp.path_kind == 3 {
                let _ = std::fs::create_dir_all(dir.join("store"));
                let real = dir.join("store/blob_0001.src");
                std::fs::write(&real, stext).unwrap_or_else(|e| machinery_fail(&format!("cannot write {:?}: {}", real, e)));
                std::os::unix::fs::symlink("../store/blob_0001.src", &src_abs).unwrap_or_else(|e| machinery_fail(&format!("cannot link {:?}: {}", src_abs, e)));
            } else {
                std::fs::write(&src_abs, stext).unwrap_or_else(|e| machinery_fail(&format!("cannot write {:?}: {}", src_abs, e)));
            }
        }
        let (code_arg, code_path) = place(&dir, "code", sp.code, src_dir_rel, stem, sp.sentinels);
        let (eep_arg, eep_path) = place(&dir, "eeprom", sp.eep, src_dir_rel, stem, sp.sentinels);
        let before = list_files(&dir);
        let mut cmd = Command::new(&bin);
        cmd.current_dir(&dir).env("RUST_BACKTRACE", "0");
        cmd.arg("-s").arg(if sp.path_kind == 1 { src_abs.clone().into_os_string() } else { os(&src_rel) });
        if let Some(a) = &code_arg {
            cmd.arg("-o").arg(a);
        }
        if let Some(a) = &eep_arg {
            cmd.arg("-e").arg(a);
        }
        if sp.verbose {
            cmd.arg("-v");
        }
        // the tool runs with 2 GiB of address space, 20 s of CPU time and no terminal input: a
        // change that makes it read an endless device or wait for input ends as "died from a signal"
        cmd.stdin(std::process::Stdio::null());
        unsafe {
            use std::os::unix::process::CommandExt;
            cmd.pre_exec(|| {
                let mem = libc::rlimit { rlim_cur: 2 << 30, rlim_max: 2 << 30 };
                libc::setrlimit(libc::RLIMIT_AS, &mem);
                let cpu = libc::rlimit { rlim_cur: 20, rlim_max: 21 };
                libc::setrlimit(libc::RLIMIT_CPU, &cpu);
                Ok(())
            });
        }
        let out = match cmd.output() {
            Ok(o) => o,
            Err(e) => machinery_fail(&format!("cannot run {:?}: {}", bin, e)),
        };
        let after = list_files(&dir);
        let status = out.status.code();
        let diag = !out.stdout.is_empty() || !out.stderr.is_empty();
        // reference: the library on the same source
        let reference = sut::build_file(src_abs.clone(), {
            let mut s = std::collections::BTreeSet::new();
            s.insert(avra_standard_includes());
            s
        });
        let mut problems: Vec<(&'static str, String)> = vec![];
        match &reference {
            Outcome::Ok(b) => {
                let need_code = !b.code.is_empty();
                let need_eep = !b.eeprom.is_empty();
                let code_fail = need_code && !sp.code.writable();
                let eep_fail = need_eep && !sp.eep.writable();
                if code_fail || eep_fail {
                    expected_fail = true;
                    if status == Some(0) {
                        problems.push(("exit-status-zero-on-write-failure", format!("an output file cannot be written ({}{}) but the exit status is 0", if code_fail { format!("code -> {:?} ", sp.code) } else { String::new() }, if eep_fail { format!("eeprom -> {:?}", sp.eep) } else { String::new() })));
                    }
                    if !diag {
                        problems.push(("no-diagnostic", "an output file cannot be written and nothing is reported".into()));
                    }
                } else {
                    let unwritable_unused = (!need_code && !sp.code.writable()) || (!need_eep && !sp.eep.writable());
                    expected_fail = false;
                    if status != Some(0) && !unwritable_unused {
                        problems.push(("exit-status-nonzero-on-success", format!("the build and all writes succeed but the exit status is {:?}; output: {}", status, String::from_utf8_lossy(&out.stdout).trim())));
                    }
                }
                for (which, need, loc, path, image) in [("code", need_code, sp.code, &code_path, &b.code), ("eeprom", need_eep, sp.eep, &eep_path, &b.eeprom)] {
                    if !loc.writable() {
                        continue;
                    }
                    let content = std::fs::read(path).ok();
                    if need {
                        match content {
                            None => problems.push(("missing-output-file", format!("no {} file at {}", which, path.strip_prefix(&dir).unwrap_or(path).display()))),
                            Some(c) => match ihex::decode(&c) {
                                Err(e) => problems.push(("malformed-output-file", format!("{} file: {}", which, e))),
                                Ok(d) => {
                                    if let Some(e) = ihex::compare(&d, image) {
                                        problems.push(("wrong-output-file", format!("{} file does not decode to the library's image: {}", which, e)));
                                    }
                                }
                            },
                        }
                    } else if let Some(c) = content {
                        // empty image: an absent file, an untouched sentinel or a file that decodes to nothing
                        let fine = c == SENTINEL || ihex::decode(&c).map(|d| d.bytes.is_empty()).unwrap_or(false);
                        if !fine {
                            problems.push(("file-for-empty-image", format!("the {} image is empty but {} holds something else", which, path.strip_prefix(&dir).unwrap_or(path).display())));
                        }
                    }
                }
            }
            Outcome::Err(_) => {
                expected_fail = true;
                if status == Some(0) {
                    problems.push(("exit-status-zero-on-build-failure", format!("the build fails but the exit status is 0; output: {}", String::from_utf8_lossy(&out.stdout).trim().chars().take(120).collect::<String>())));
                }
                if !diag {
                    problems.push(("no-diagnostic", "the build fails and nothing is reported".into()));
                }
                if before != after {
                    let created: Vec<&String> = after.keys().filter(|k| !before.contains_key(*k)).collect();
                    let changed: Vec<&String> = before.iter().filter(|(k, v)| after.get(*k) != Some(v)).map(|(k, _)| k).collect();
                    problems.push(("files-touched-on-build-failure", format!("the build fails but files were created {:?} or altered/removed {:?}", created, changed)));
                }
            }
            Outcome::Panic { site, msg } => problems.push(("reference-panic", format!("build_file panics at {}: {}", site, msg))),
        }
        if status.is_none() {
            problems.push(("killed-by-signal", format!("the tool died from a signal; stderr: {}", String::from_utf8_lossy(&out.stderr).trim())));
        }
        let argv = format!("avra-rs -s {} {} {} {}", if sp.path_kind == 1 { src_abs.display().to_string() } else { src_rel.clone() }, code_arg.clone().map(|a| format!("-o {}", a)).unwrap_or_default(), eep_arg.clone().map(|a| format!("-e {}", a)).unwrap_or_default(), if sp.verbose { "-v" } else { "" });
        let detail = json!({"kind": "cli", "source_kind": sname, "source": stext, "argv": argv,
            "spec": {"name": sp.name, "src": sp.src, "code": format!("{:?}", sp.code), "eep": format!("{:?}", sp.eep), "verbose": sp.verbose, "path_kind": sp.path_kind, "sentinels": sp.sentinels},
            "code_location": format!("{:?}", sp.code), "eeprom_location": format!("{:?}", sp.eep), "exit_status": status,
            "stdout": String::from_utf8_lossy(&out.stdout), "stderr": String::from_utf8_lossy(&out.stderr), "library_result": reference.to_json()});
        let _ = std::fs::remove_dir_all(&dir);
        (expected_fail, problems, detail)
}

pub fn run(tier: Tier) -> i32 {
    let rep = Report::new("C18", tier, "fault_enumeration");
    ihex::self_check().unwrap_or_else(|e| machinery_fail(&format!("Intel HEX reader self-check failed: {}", e)));
    let bin = PathBuf::from(std::env::var("AVRA_BIN").unwrap_or_else(|_| "/verif/.build/cli/debug/avra-rs".to_string()));
    if !bin.exists() {
        machinery_fail(&format!("the avra-rs binary was not built: {:?}", bin));
    }
    let scratch = Scratch::new("c18");
    let opt_locs = [Loc::Writable, Loc::NoDir, Loc::IsDir, Loc::ParentIsFile, Loc::DevFull];
    let mut specs: Vec<Spec> = vec![];
    for src in 0..SOURCES.len() {
        let mut code_locs = vec![Loc::Default, Loc::DefaultIsDir];
        code_locs.extend(opt_locs);
        let mut eep_locs = vec![Loc::Default, Loc::DefaultIsDir];
        eep_locs.extend(opt_locs);
        for code in code_locs.iter() {
            for eep in eep_locs.iter() {
                for verbose in [false, true] {
                    for path_kind in 0..4u8 {
                        for sentinels in [false, true] {
                            // the linked source: where a default output name is in use, without -v
                            if path_kind == 3 && (verbose || !(*code == Loc::Default || *eep == Loc::Default) || (*code != Loc::Default && *eep != Loc::Default)) {
                                continue;
                            }
                            // quick tier: the full product only where both locations deviate little
                            if !tier.thorough() {
                                let dev = (*code != Loc::Default) as u8 + (*eep != Loc::Default) as u8;
                                if dev == 2 && (verbose || path_kind != 0 || !sentinels) {
                                    continue;
                                }
                                if dev == 1 && verbose && path_kind != 0 {
                                    continue;
                                }
                            }
                            specs.push(Spec { name: 0, src, code: *code, eep: *eep, verbose, path_kind, sentinels });
                            // other source file names where a default output name is in use
                            if (*code == Loc::Default || *eep == Loc::Default) && !verbose && (tier.thorough() || (path_kind != 1 && sentinels)) {
                                for name in 1..FILE_NAMES.len() {
                                    specs.push(Spec { name, src, code: *code, eep: *eep, verbose, path_kind, sentinels });
                                }
                            }
                        }
                    }
                }
            }
        }
    }
    let evals = AtomicU64::new(0);
    let n_ok = AtomicU64::new(0);
    let n_fail = AtomicU64::new(0);
    let kinds: Mutex<BTreeMap<String, u64>> = Mutex::new(BTreeMap::new());
    specs.par_iter().enumerate().for_each(|(id, sp)| {
        let (expected_fail, problems, detail) = exec_spec(&scratch.path, &bin, id, sp);
        evals.fetch_add(1, Ordering::Relaxed);
        if expected_fail {
            n_fail.fetch_add(1, Ordering::Relaxed);
        } else {
            n_ok.fetch_add(1, Ordering::Relaxed);
        }
        let sname = SOURCES[sp.src].0;
        let fname = FILE_NAMES[sp.name];
        for (kind, what) in problems {
            *kinds.lock().unwrap().entry(kind.to_string()).or_insert(0) += 1;
            let key = format!("C18/{}/source={}/code-location={:?}/eeprom-location={:?}", kind, sname, sp.code, sp.eep);
            let key = if sp.name == 0 { key } else { format!("{}/file-name={}", key, fname.replace(' ', "_")) };
            rep.violation(&key, || format!("{} [source file {}, verbose={}, source path kind {}, sentinels={}]", what, fname, sp.verbose, sp.path_kind, sp.sentinels), || detail.clone());
        }
    });
    // an output location that accepts the beginning of a file and then no more (a quota, a full
    // disk, a file size limit): the tool runs under RLIMIT_FSIZE = L bytes with SIGXFSZ ignored, so
    // a write beyond L is cut short or refused with EFBIG. Whatever L is: exit status 0 means
    // every needed file decodes to exactly the library's image; otherwise the failure is reported.
    let n_limited = AtomicU64::new(0);
    let n_limited_fail = AtomicU64::new(0);
    {
        let big_sources: [(&str, String); 3] = [
            ("large-code", "ldi r16, 0x5a\n".repeat(1500)),
            ("large-code-and-eeprom", format!("{}.eseg\n{}", "ldi r17, 0x3c\n".repeat(700), ".db 1, 2, 3, 4, 5, 6, 7, 8\n".repeat(60))),
            ("small-code-large-eeprom", format!("nop\n.eseg\n{}", ".dw 0x1234, 0x5678\n".repeat(120))),
        ];
        let limits: Vec<u64> = if tier.thorough() { vec![0, 1, 11, 43, 44, 45, 100, 511, 512, 513, 1000, 1024, 2000, 4095, 4096, 4097, 8192, 8193, 12000, 1 << 20] } else { vec![0, 1, 44, 512, 1000, 4096, 8192, 1 << 20] };
        let mut lw: Vec<(usize, u64, bool)> = vec![];
        for si in 0..big_sources.len() {
            for l in limits.iter() {
                for opts in [false, true] {
                    lw.push((si, *l, opts));
                }
            }
        }
        lw.par_iter().enumerate().for_each(|(id, (si, limit, opts))| {
            let (sname, stext) = &big_sources[*si];
            let dir = scratch.path.join(format!("limited{}", id));
            let _ = std::fs::create_dir_all(dir.join("out"));
            let src_abs = dir.join("prog.asm");
            std::fs::write(&src_abs, stext).unwrap_or_else(|e| machinery_fail(&format!("cannot write {:?}: {}", src_abs, e)));
            let reference = sut::build_file(src_abs.clone(), {
                let mut s = std::collections::BTreeSet::new();
                s.insert(avra_standard_includes());
                s
            });
            let b = match &reference {
                Outcome::Ok(b) => b.clone(),
                other => machinery_fail(&format!("C18: the library does not build the {} source: {}", sname, other.brief())),
            };
            let (code_path, eep_path) = if *opts { (dir.join("out/c.hex"), dir.join("out/e.hex")) } else { (dir.join("prog.hex"), dir.join("prog.eep.hex")) };
            let mut cmd = Command::new(&bin);
            cmd.current_dir(&dir).env("RUST_BACKTRACE", "0").arg("-s").arg("prog.asm");
            if *opts {
                cmd.arg("-o").arg("out/c.hex").arg("-e").arg("out/e.hex");
            }
            cmd.stdin(std::process::Stdio::null());
            let l = *limit;
            unsafe {
                use std::os::unix::process::CommandExt;
                cmd.pre_exec(move || {
                    let mem = libc::rlimit { rlim_cur: 2 << 30, rlim_max: 2 << 30 };
                    libc::setrlimit(libc::RLIMIT_AS, &mem);
                    let cpu = libc::rlimit { rlim_cur: 20, rlim_max: 21 };
                    libc::setrlimit(libc::RLIMIT_CPU, &cpu);
                    // (an ignored signal stays ignored across exec)
                    libc::signal(libc::SIGXFSZ, libc::SIG_IGN);
                    let fs = libc::rlimit { rlim_cur: l, rlim_max: l };
                    libc::setrlimit(libc::RLIMIT_FSIZE, &fs);
                    Ok(())
                });
            }
            let out = match cmd.output() {
                Ok(o) => o,
                Err(e) => machinery_fail(&format!("cannot run {:?}: {}", bin, e)),
            };
            evals.fetch_add(1, Ordering::Relaxed);
            n_limited.fetch_add(1, Ordering::Relaxed);
            let status = out.status.code();
            let diag = !out.stdout.is_empty() || !out.stderr.is_empty();
            let mut problems: Vec<(&'static str, String)> = vec![];
            if status == Some(0) {
                for (which, path, image) in [("code", &code_path, &b.code), ("eeprom", &eep_path, &b.eeprom)] {
                    if image.is_empty() {
                        continue;
                    }
                    match std::fs::read(path) {
                        Err(_) => problems.push(("missing-output-file-under-a-size-limit", format!("exit status 0 but no {} file", which))),
                        Ok(c) => match ihex::decode(&c) {
                            Err(e) => problems.push(("truncated-output-file-with-exit-status-zero", format!("exit status 0, but the {} file ({} bytes of text) is not a complete Intel HEX file: {}", which, c.len(), e))),
                            Ok(d) => {
                                if let Some(e) = ihex::compare(&d, image) {
                                    problems.push(("wrong-output-file-under-a-size-limit", format!("exit status 0, but the {} file does not decode to the library's image: {}", which, e)));
                                }
                            }
                        },
                    }
                }
            } else {
                n_limited_fail.fetch_add(1, Ordering::Relaxed);
                if status.is_none() {
                    problems.push(("killed-by-signal", format!("the tool died from a signal under a file size limit of {} bytes", limit)));
                } else if !diag {
                    problems.push(("no-diagnostic", "an output file cannot be written completely and nothing is reported".into()));
                }
            }
            for (kind, what) in problems {
                *kinds.lock().unwrap().entry(kind.to_string()).or_insert(0) += 1;
                let detail = json!({"kind": "cli", "source_kind": sname, "argv": if *opts { "avra-rs -s prog.asm -o out/c.hex -e out/e.hex" } else { "avra-rs -s prog.asm" }, "environment": format!("RLIMIT_FSIZE = {} bytes, SIGXFSZ ignored (sh: trap '' XFSZ; ulimit -f ...)", limit), "source_head": stext.chars().take(120).collect::<String>(), "source_lines": stext.lines().count(), "exit_status": status, "stdout": String::from_utf8_lossy(&out.stdout), "stderr": String::from_utf8_lossy(&out.stderr)});
                rep.violation(&format!("C18/{}/source={}/options={}", kind, sname, opts), || format!("{} [file size limit {} bytes]", what, limit), || detail.clone());
            }
            let _ = std::fs::remove_dir_all(&dir);
        });
    }
    rep.guard(n_limited_fail.load(Ordering::Relaxed) > 10 && n_limited.load(Ordering::Relaxed) > n_limited_fail.load(Ordering::Relaxed), "the size-limited runs need both outcomes (limit hit / limit not hit)");
    rep.guard(n_ok.load(Ordering::Relaxed) > 100 && n_fail.load(Ordering::Relaxed) > 100, "need both succeeding and failing runs");
    rep.sample(|| json!({"argv": "avra-rs -s prog.asm -o missing_dir_code/x.hex", "source": SOURCES[0].1, "expected": "exit status != 0 and a diagnostic (the output cannot be written)"}));
    rep.sample(|| json!({"argv": "avra-rs -s nested/deeper/prog.asm -v", "source": SOURCES[1].1, "expected": "exit 0; nested/deeper/prog.hex and nested/deeper/prog.eep.hex decode to the library's images"}));
    rep.sample(|| json!({"argv": "avra-rs -s prog.asm -o out_code/code_out.hex", "source": SOURCES[7].1, "expected": "exit status != 0, a diagnostic, the sentinel at out_code/code_out.hex byte-identical, no new file"}));
    rep.assume("for an empty image the statement does not say whether a file is written: an absent file, an untouched pre-existing file or a file decoding to the empty image are accepted");
    rep.assume("when an image is empty and its location is unwritable no write is needed: either exit status is accepted");
    rep.assume("permission bits are useless as fault injection (checks run as root): unwritable = missing directory, path is a directory, parent is a regular file, /dev/full");
    let coverage = cov(json!({
        "evaluations": evals.load(Ordering::Relaxed),
        "distinct_nontrivial": specs.len(),
        "rule": "5 source file names (plain, two dots, no extension, blank in the name, upper case; names other than the plain one wherever a default output name is in use) x 11 sources (code only, code+EEPROM, EEPROM only, empty, comments only, with messages, syntax error, range error, .error, missing include, nonexistent source) x code output location in {default, default path occupied by a directory, -o writable, -o missing directory, -o existing directory, -o parent is a file, -o /dev/full} x the same seven for the EEPROM output x -v x source path relative/absolute/nested x pre-existing sentinel files (quick: the full product only where at most one location deviates); each run of the real binary in a fresh directory, compared with build_file in-process; plus 3 large sources x file size limits (RLIMIT_FSIZE with SIGXFSZ ignored: the location accepts the beginning of a file only) x default names / -o -e. distinct_nontrivial = distinct run specifications",
        "exhaustive": tier.thorough(),
        "runs_under_a_file_size_limit": n_limited.load(Ordering::Relaxed),
        "runs_under_a_file_size_limit_that_failed_visibly": n_limited_fail.load(Ordering::Relaxed),
        "runs_expected_to_succeed": n_ok.load(Ordering::Relaxed),
        "runs_expected_to_fail": n_fail.load(Ordering::Relaxed),
        "violation_kinds": *kinds.lock().unwrap(),
        "caps_hit": if tier.thorough() { json!([]) } else { json!(["quick: combinations where both output locations deviate are run only with -v off, a relative source path and sentinels present"]) },
        "trusted_base": ["harness ihex reader", "build_file in-process as the reference for what the library builds"],
    }));
    drop(scratch);
    rep.finish(coverage)
}

fn avra_standard_includes() -> PathBuf {
    // the directory the CLI passes as include path; irrelevant for these sources (none includes a shipped file)
    PathBuf::from("/nonexistent-standard-includes")
}

fn loc_from(t: &str) -> Loc {
    match t {
        "Default" => Loc::Default,
        "DefaultIsDir" => Loc::DefaultIsDir,
        "Writable" => Loc::Writable,
        "NoDir" => Loc::NoDir,
        "IsDir" => Loc::IsDir,
        "ParentIsFile" => Loc::ParentIsFile,
        _ => Loc::DevFull,
    }
}

/// `./run replay <file>` for kind "cli": run the (rebuilt) binary once more for the recorded specification
pub fn replay(v: &serde_json::Value) -> i32 {
    let bin = PathBuf::from(std::env::var("AVRA_BIN").unwrap_or_else(|_| "/verif/.build/cli/debug/avra-rs".to_string()));
    if !bin.exists() {
        println!("the avra-rs binary is not built: {:?}", bin);
        return 2;
    }
    let sp = &v["spec"];
    let spec = Spec {
        name: sp["name"].as_u64().unwrap_or(0) as usize,
        src: sp["src"].as_u64().unwrap_or(0) as usize,
        code: loc_from(sp["code"].as_str().unwrap_or("Default")),
        eep: loc_from(sp["eep"].as_str().unwrap_or("Default")),
        verbose: sp["verbose"].as_bool().unwrap_or(false),
        path_kind: sp["path_kind"].as_u64().unwrap_or(0) as u8,
        sentinels: sp["sentinels"].as_bool().unwrap_or(false),
    };
    let scratch = Scratch::new("c18replay");
    let (_, problems, detail) = exec_spec(&scratch.path, &bin, 0, &spec);
    println!("argv        : {}", detail["argv"]);
    println!("source      :\n{}", detail["source"].as_str().unwrap_or(""));
    println!("recorded    : exit {} stdout {:?}", v["exit_status"], v["stdout"].as_str().unwrap_or(""));
    println!("now         : exit {} stdout {:?} stderr {:?}", detail["exit_status"], detail["stdout"].as_str().unwrap_or(""), detail["stderr"].as_str().unwrap_or(""));
    println!("library     : {}", detail["library_result"]);
    if problems.is_empty() {
        println!("no problem with this run on the current tree");
        0
    } else {
        for (k, w) in problems {
            println!("PROBLEM {}: {}", k, w);
        }
        println!("REPRODUCED");
        1
    }
}
