//! C02 — label values and .org positions equal where the bytes really land (E2).
//!
//! Reference model `layout`: three location counters, segment switching, .org, item sizes, zero
//! fill of gaps, label values, ram_filling. Explored with stateright; every trace of P·Σ^≤k is
//! rendered to source, built by the real assembler and compared with the model's prediction.

use std::collections::{BTreeMap, BTreeSet};
use std::sync::atomic::{AtomicU64, Ordering};
use std::sync::Mutex;

use serde_json::json;

use crate::isa::{self, Core, Opnd};
use crate::mc::{self, RefModel};
use crate::report::{cov, machinery_fail, Report, Tier};
use crate::sut::{self, Outcome};

#[derive(Clone, Copy, PartialEq, Eq, Hash, Debug, PartialOrd, Ord)]
pub enum Seg {
    C = 0,
    D = 1,
    E = 2,
}

#[derive(Clone, PartialEq, Eq, Hash, Debug)]
pub struct St {
    seg: Seg,
    /// nothing placed yet since the last segment / .org directive (hidden-state relevant only)
    fresh: bool,
    /// location counters: code in words, data absolute (RAM start + offset), EEPROM in bytes
    pc: [u32; 3],
    /// an item ends exactly at the counter (so counter-1 is occupied, not a gap)
    occupied: [bool; 3],
    failed: bool,
}

#[derive(Clone, Copy, PartialEq, Eq, Debug, Hash, PartialOrd, Ord)]
pub enum Act {
    I1,
    I2,
    Ls,
    /// sts: two words, one on the reduced core (sized separately from lds in both passes)
    Ss,
    Db(u8),
    Dw(u8),
    Dd,
    Dq,
    Byte(u8),
    /// .org counter + n, literal operand
    Org(u8),
    /// .org with a constant expression operand (`k_base + n`)
    OrgExpr(u8),
    /// .byte with a constant expression operand
    ByteExpr,
    /// two .org lines in a row, the second one lower than the first (still not behind the
    /// counter): nothing was placed at the first position, the second one counts
    OrgTwice,
    /// .org 0 as the very first line
    Org0Start,
    /// .org back into the item that ends at the counter: nothing may be overwritten => Err
    OrgBack,
    SegC,
    SegD,
    SegE,
}

#[derive(Clone, Debug)]
pub struct Layout {
    pub devname: Option<String>,
    pub ram_start: u32,
    pub has_eeprom: bool,
    pub has_jmp: bool,
    pub lds_words: u32,
    pub core: Core,
    pub expr_actions: bool,
}

impl RefModel for Layout {
    type State = St;
    type Action = Act;
    fn init(&self) -> St {
        St { seg: Seg::C, fresh: true, pc: [0, self.ram_start, 0], occupied: [false; 3], failed: false }
    }
    fn actions(&self, s: &St) -> Vec<Act> {
        if s.failed {
            return vec![];
        }
        let mut v = vec![];
        match s.seg {
            Seg::C => {
                v.push(Act::I1);
                if self.has_jmp {
                    v.push(Act::I2);
                }
                v.push(Act::Ls);
                v.push(Act::Ss);
                v.extend([Act::Db(1), Act::Db(2), Act::Db(3), Act::Db(5), Act::Db(4), Act::Dw(1), Act::Dw(2), Act::Dd, Act::Dq]);
            }
            Seg::E => {
                v.extend([Act::Db(1), Act::Db(2), Act::Db(3), Act::Db(5), Act::Db(4), Act::Dw(1), Act::Dd, Act::Dq, Act::Byte(1), Act::Byte(2)]);
            }
            Seg::D => {
                v.extend([Act::Byte(1), Act::Byte(2), Act::Byte(3)]);
            }
        }
        v.extend([Act::Org(0), Act::Org(1), Act::Org(3), Act::OrgTwice]);
        // gaps of a page and more (no device selected: every memory is large enough)
        if self.devname.is_none() {
            v.extend([Act::Org(200), Act::Org(201)]);
        }
        if self.expr_actions {
            v.push(Act::OrgExpr(2));
            if s.seg != Seg::C {
                v.push(Act::ByteExpr);
            }
        }
        if s.seg == Seg::C && s.pc[0] == 0 && s.fresh && !s.occupied[0] {
            v.push(Act::Org0Start);
        }
        if s.occupied[s.seg as usize] {
            v.push(Act::OrgBack);
        }
        v.push(Act::SegC);
        v.push(Act::SegD);
        if self.has_eeprom {
            v.push(Act::SegE);
        }
        v
    }
    fn step(&self, s: &St, a: &Act) -> Option<St> {
        let mut n = s.clone();
        let i = s.seg as usize;
        let place = |n: &mut St, units: u32| {
            n.pc[i] += units;
            n.occupied[i] = true;
            n.fresh = false;
        };
        match a {
            Act::I1 => place(&mut n, 1),
            Act::I2 => place(&mut n, 2),
            Act::Ls | Act::Ss => place(&mut n, self.lds_words),
            Act::Db(k) => place(&mut n, if s.seg == Seg::C { (*k as u32 + 1) / 2 } else { *k as u32 }),
            Act::Dw(k) => place(&mut n, if s.seg == Seg::C { *k as u32 } else { 2 * *k as u32 }),
            Act::Dd => place(&mut n, if s.seg == Seg::C { 2 } else { 4 }),
            Act::Dq => place(&mut n, if s.seg == Seg::C { 4 } else { 8 }),
            Act::Byte(k) => place(&mut n, *k as u32),
            Act::ByteExpr => place(&mut n, 2),
            Act::Org(d) | Act::OrgExpr(d) => {
                n.pc[i] += gap(*d);
                if *d > 0 {
                    n.occupied[i] = false;
                }
                n.fresh = true;
            }
            Act::OrgTwice => {
                n.pc[i] += 1;
                n.occupied[i] = false;
                n.fresh = true;
            }
            Act::Org0Start => {
                n.fresh = true;
            }
            Act::OrgBack => {
                n.failed = true;
            }
            Act::SegC => {
                n.seg = Seg::C;
                n.fresh = true;
            }
            Act::SegD => {
                n.seg = Seg::D;
                n.fresh = true;
            }
            Act::SegE => {
                n.seg = Seg::E;
                n.fresh = true;
            }
        }
        Some(n)
    }
    fn invariant(&self, s: &St) -> bool {
        // counters never fall below their start; the data counter never below RAM start
        s.pc[1] >= self.ram_start
    }
}

pub struct Expected {
    pub fail: bool,
    pub code: Vec<u8>,
    pub eeprom: Vec<u8>,
    /// extent of the data segment up to the end of the last reservation
    pub ram_filling: u32,
    /// ... and up to the location counter (differs only when a .org in the data segment is not
    /// followed by a reservation; the statement does not pin which of the two is "the extent")
    pub ram_filling_counter: u32,
    pub labels: Vec<(String, u32)>,
}

fn put(img: &mut Vec<u8>, at: usize, bytes: &[u8]) -> bool {
    if img.len() < at {
        img.resize(at, 0);
    }
    // nothing is overwritten: the model only ever appends at or beyond the end
    if img.len() > at {
        return false;
    }
    img.extend_from_slice(bytes);
    true
}

const K_BASE: u32 = 0; // .equ k_base = 0 (so that k_base + n is a non-literal spelling of n)

impl Layout {
    /// Render a trace to source text and compute the model's prediction.
    pub fn render(&self, trace: &[Act]) -> (String, Expected) {
        let mut src = String::new();
        // (for every third trace the device is named at the very end instead: a program is
        // assembled for the device it selects, wherever the line stands)
        let device_last = trace.len() % 3 == 2;
        if let Some(d) = &self.devname {
            if !device_last {
                src.push_str(&format!(".device {}\n", d));
            }
        }
        src.push_str(&format!(".equ k_base = {}\n", K_BASE));
        // feature flags whose names differ from the labels below (and from every reference to them)
        // in letter case only: flags are told apart by case, they are other names
        for idx in 0..trace.len().min(6) {
            src.push_str(&if idx % 2 == 0 { format!(".define l{}X\n", idx) } else { format!("#define L{}x\n", idx) });
        }
        src.push_str(".define End_Of_Trace_Lbl\n");
        let mut s = self.init();
        let mut code: Vec<u8> = vec![];
        let mut eeprom: Vec<u8> = vec![];
        let mut labels: Vec<(String, u32)> = vec![];
        let mut fail = false;
        let mut data_end = self.ram_start;
        let name_salt = trace.iter().fold(5usize, |h, a| h.wrapping_mul(31).wrapping_add(format!("{:?}", a).len()).wrapping_add(match a { Act::I1 => 1, Act::I2 => 2, Act::SegC => 3, Act::SegD => 4, Act::SegE => 5, _ => 6 }));
        for (idx, a) in trace.iter().enumerate() {
            let id = idx as i64 + 1;
            let i = s.seg as usize;
            let at = s.pc[i];
            // every item carries a fresh label, mixed-case
            // (every third one, rotating with the trace, is a name that looks like something else:
            // a part-definition constant, a register, a pointer, a function, a directive)
            let lname = if (name_salt + idx) % 3 == 0 {
                const LOOKALIKES: [&str; 28] = [
                    "ramend", "FlashEnd", "sram_start", "SRAM_SIZE", "e2end", "eepromend", "ioend", "xramend", "r2_done", "zero_l", "low_l", "page_l", "exp2_l", "main", "reset", "loop",
                    "end", "start", "data", "byte_l", "org_l", "macro_l", "x_", "y2", "z3", "r32", "r100", "pc_",
                ];
                LOOKALIKES[(name_salt / 3 + idx) % LOOKALIKES.len()].to_string()
            } else if idx % 2 == 0 {
                format!("L{}x", idx)
            } else {
                format!("l{}X", idx)
            };
            let mut item: Option<(String, Vec<u8>)> = None; // (text, bytes)
            let w2b = |w: Vec<u16>| isa::words_to_bytes(&w);
            match a {
                Act::I1 => item = Some((format!("ldi r16, {}", id), w2b(isa::encode(self.core, "ldi", &[Opnd::Reg(16), Opnd::Imm(id)]).unwrap()))),
                Act::I2 => item = Some((format!("jmp {}", 0x1000 + id), w2b(isa::encode(self.core, "jmp", &[Opnd::Imm(0x1000 + id)]).unwrap()))),
                Act::Ls => item = Some((format!("lds r16, {}", 0x60 + id), w2b(isa::encode(self.core, "lds", &[Opnd::Reg(16), Opnd::Imm(0x60 + id)]).unwrap()))),
                Act::Ss => item = Some((format!("sts {}, r17", 0x60 + id), w2b(isa::encode(self.core, "sts", &[Opnd::Imm(0x60 + id), Opnd::Reg(17)]).unwrap()))),
                Act::Db(k) => {
                    let (t, mut b) = match k {
                        1 => (format!(".db {}", id), vec![id as u8]),
                        2 => (format!(".db {}, 0xEE", id), vec![id as u8, 0xee]),
                        // a non-ASCII string is its UTF-8 bytes (three here), in both passes
                        4 => (format!(".db {}, \"é!\"", id), vec![id as u8, 0xc3, 0xa9, b'!']),
                        // strings have no escapes: four bytes, the backslashes included
                        5 => (format!(".db {}, \"\\n\\0\"", id), vec![id as u8, b'\\', b'n', b'\\', b'0']),
                        _ => (format!(".db {}, \"ab\"", id), vec![id as u8, b'a', b'b']),
                    };
                    if s.seg == Seg::C && b.len() % 2 == 1 {
                        b.push(0);
                    }
                    item = Some((t, b));
                }
                Act::Dw(k) => {
                    let v = 0xA000 + id as u16;
                    item = Some(if *k == 1 {
                        (format!(".dw {}", v), v.to_le_bytes().to_vec())
                    } else {
                        (format!(".dw {}, 0x1234", v), [v.to_le_bytes(), 0x1234u16.to_le_bytes()].concat())
                    });
                }
                Act::Dd => {
                    let v = 0xD0D00000u32 + id as u32;
                    item = Some((format!(".dd {}", v), v.to_le_bytes().to_vec()));
                }
                Act::Dq => {
                    let v = 0x0102030405060700u64 + id as u64;
                    item = Some((format!(".dq {}", v), v.to_le_bytes().to_vec()));
                }
                Act::Byte(k) => item = Some((format!(".byte {}", k), vec![0u8; *k as usize])),
                Act::ByteExpr => item = Some((".byte k_base + 2".to_string(), vec![0u8; 2])),
                Act::Org(d) => src.push_str(&format!(".org {}\n", at + gap(*d))),
                Act::OrgExpr(d) => src.push_str(&format!(".org k_base + {}\n", at + gap(*d))),
                Act::OrgTwice => src.push_str(&format!(".org {}\n.org {}\n", at + 5, at + 1)),
                Act::Org0Start => src.push_str(".org 0\n"),
                Act::OrgBack => {
                    src.push_str(&format!(".org {}\n", at - 1));
                    // make the overlap observable: something is placed there
                    src.push_str(match s.seg {
                        Seg::C => "nop\n",
                        Seg::D => ".byte 1\n",
                        Seg::E => ".db 0x77\n",
                    });
                    fail = true;
                }
                Act::SegC => src.push_str(".cseg\n"),
                Act::SegD => src.push_str(".dseg\n"),
                Act::SegE => src.push_str(".eseg\n"),
            }
            if let Some((text, bytes)) = item {
                // the label sits on the item's line, on its own line, or is followed by a second
                // label on its own line (both name the same position)
                match idx % 3 {
                    0 => src.push_str(&format!("{}: {}\n", lname, text)),
                    1 => src.push_str(&format!("{}:\n    {}\n", lname, text)),
                    _ => {
                        src.push_str(&format!("{}:\n{}_twin: {}\n", lname, lname, text));
                        labels.push((format!("{}_twin", lname), at));
                    }
                }
                labels.push((lname, at));
                match s.seg {
                    Seg::C => {
                        if !put(&mut code, at as usize * 2, &bytes) {
                            machinery_fail("layout model placed an item over another one");
                        }
                    }
                    Seg::E => {
                        if !put(&mut eeprom, at as usize, &bytes) {
                            machinery_fail("layout model placed an item over another one");
                        }
                    }
                    Seg::D => data_end = at + bytes.len() as u32,
                }
            }
            s = self.step(&s, a).unwrap();
        }
        // a label with no item after it in its segment names the segment's location counter
        let end_seg = s.seg;
        let end_at = s.pc[end_seg as usize];
        src.push_str("end_of_trace_lbl:\n");
        labels.push(("end_of_trace_lbl".to_string(), end_at));
        // epilogue: the observation table (pass-2 position counter, pass-1 label values)
        src.push_str(".cseg\n.dw pc\n");
        let at = s.pc[0];
        let mut tail: Vec<u8> = (at as u16).to_le_bytes().to_vec();
        if !labels.is_empty() {
            let refs: Vec<String> = labels
                .iter()
                .enumerate()
                .map(|(i, (n, _))| if i % 2 == 0 { n.to_lowercase() } else { n.to_uppercase() })
                .collect();
            src.push_str(&format!(".dw {}\n", refs.join(", ")));
            for (_, v) in &labels {
                tail.extend_from_slice(&(*v as u16).to_le_bytes());
            }
        }
        put(&mut code, at as usize * 2, &tail);
        if let Some(d) = &self.devname {
            if device_last {
                src.push_str(&format!(".device {}\n", d));
            }
        }
        (src, Expected { fail, code, eeprom, ram_filling: data_end - self.ram_start, ram_filling_counter: s.pc[1] - self.ram_start, labels })
    }
}

/// the distance an Org action moves: small ones literally, 200 / 201 = a page and a bit more than two
fn gap(d: u8) -> u32 {
    match d {
        200 => 2048,
        201 => 4099,
        d => d as u32,
    }
}

fn model_for(devname: Option<&str>, expr_actions: bool) -> Layout {
    match devname {
        None => Layout { devname: None, ram_start: sut::DEFAULT_RAM_START, has_eeprom: true, has_jmp: true, lds_words: 2, core: Core::Full, expr_actions },
        Some(n) => {
            let d = sut::devices().into_iter().find(|d| d.name == n).unwrap_or_else(|| machinery_fail(&format!("device {} not in the table", n)));
            let avr8l = d.flags.contains("Avr8l");
            Layout {
                devname: Some(n.to_string()),
                ram_start: d.ram_start,
                has_eeprom: d.eeprom_size >= 64,
                has_jmp: !d.flags.contains("NoJmp"),
                lds_words: if avr8l { 1 } else { 2 },
                core: if avr8l { Core::Reduced } else { Core::Full },
                expr_actions,
            }
        }
    }
}

fn act_class(a: &Act) -> &'static str {
    match a {
        Act::I1 | Act::I2 | Act::Ls | Act::Ss => "instruction",
        Act::Db(_) => "db",
        Act::Dw(_) | Act::Dd | Act::Dq => "dw-dd-dq",
        Act::Byte(_) => "byte",
        Act::ByteExpr => "byte-expr",
        Act::Org(_) => "org",
        Act::OrgExpr(_) => "org-expr",
        Act::OrgTwice => "org-twice",
        Act::Org0Start => "org0-start",
        Act::OrgBack => "org-back",
        Act::SegC | Act::SegD | Act::SegE => "segment",
    }
}

/// A structured key naming the shortest suffix of directives that distinguishes the failure:
/// the kinds of the last directive before the first divergence.
fn diverge_key(trace: &[Act], kind: &str, m: &Layout) -> String {
    // root-cause dimensions: the non-item directives present in the trace (order-insensitive set)
    let mut dirs: BTreeSet<&'static str> = BTreeSet::new();
    for a in trace {
        match a {
            Act::Org(_) | Act::OrgExpr(_) | Act::OrgTwice | Act::Org0Start | Act::OrgBack | Act::ByteExpr => {
                dirs.insert(act_class(a));
            }
            _ => {}
        }
    }
    let segs: BTreeSet<Seg> = {
        let mut s = BTreeSet::new();
        let mut cur = Seg::C;
        for a in trace {
            match a {
                Act::SegC => cur = Seg::C,
                Act::SegD => cur = Seg::D,
                Act::SegE => cur = Seg::E,
                _ => {
                    s.insert(cur);
                }
            }
        }
        s
    };
    let _ = (&segs, m);
    // a trace that uses `.byte <expression>` is attributed to that root cause: every other
    // defect also shows up in the (completely enumerated) traces without it
    if trace.iter().any(|a| *a == Act::ByteExpr) {
        return format!("C02/root=byte-expression-operand/kind={}", kind);
    }
    format!(
        "C02/root=layout/kind={}/directives={}",
        kind,
        if dirs.is_empty() { "none".to_string() } else { dirs.into_iter().collect::<Vec<_>>().join("+") },
    )
}

pub fn run(tier: Tier) -> i32 {
    let rep = Report::new("C02", tier, "model_checking");
    isa::self_check().unwrap_or_else(|e| machinery_fail(&format!("ISA reference self-check failed: {}", e)));
    let (n1, k) = if tier.thorough() { (5usize, 3usize) } else { (4usize, 2usize) };
    let devs: Vec<Option<&str>> = if tier.thorough() {
        vec![None, Some("ATmega48"), Some("ATtiny20"), Some("ATtiny13"), Some("ATmega2560")]
    } else {
        vec![None, Some("ATmega48"), Some("ATtiny20")]
    };
    let mut total_states = 0usize;
    let mut total_transitions = 0usize;
    let mut total_traces = 0usize;
    let mut per_dev = BTreeMap::new();
    let n_ok = AtomicU64::new(0);
    let n_err = AtomicU64::new(0);
    let outcomes: Mutex<BTreeSet<u64>> = Mutex::new(BTreeSet::new());
    let act_use: Mutex<BTreeMap<&'static str, u64>> = Mutex::new(BTreeMap::new());
    let samples: Mutex<Vec<serde_json::Value>> = Mutex::new(vec![]);
    for dev in devs.iter() {
        let m = model_for(*dev, true);
        let ex = mc::explore(&m, n1);
        let traces = mc::conform(&m, &ex, k, |trace| {
            let (src, exp) = m.render(trace);
            let o = sut::build_str(&src);
            {
                let mut u = act_use.lock().unwrap();
                if let Some(a) = trace.last() {
                    *u.entry(act_class(a)).or_insert(0) += 1;
                }
            }
            let mut bad: Option<(String, String)> = None;
            match (&o, exp.fail) {
                (Outcome::Ok(b), false) => {
                    n_ok.fetch_add(1, Ordering::Relaxed);
                    {
                        use std::hash::{Hash, Hasher};
                        let mut h = std::collections::hash_map::DefaultHasher::new();
                        b.code.hash(&mut h);
                        b.eeprom.hash(&mut h);
                        b.ram_filling.hash(&mut h);
                        outcomes.lock().unwrap().insert(h.finish());
                    }
                    if b.code != exp.code {
                        // where do they first differ?
                        let p = b.code.iter().zip(exp.code.iter()).position(|(x, y)| x != y).unwrap_or(b.code.len().min(exp.code.len()));
                        bad = Some(("flash-image".into(), format!("flash image differs from the model at byte {} (model {} bytes, tool {} bytes): model {} tool {}", p, exp.code.len(), b.code.len(), sut::hex_trunc(&exp.code, 48), sut::hex_trunc(&b.code, 48))));
                    } else if b.eeprom != exp.eeprom {
                        bad = Some(("eeprom-image".into(), format!("EEPROM image differs: model {} tool {}", sut::hex_trunc(&exp.eeprom, 48), sut::hex_trunc(&b.eeprom, 48))));
                    } else if b.ram_filling != exp.ram_filling && b.ram_filling != exp.ram_filling_counter {
                        bad = Some(("ram-filling".into(), format!("ram_filling {} but the data segment extends {} bytes", b.ram_filling, exp.ram_filling)));
                    }
                }
                (Outcome::Ok(_), true) => {
                    n_ok.fetch_add(1, Ordering::Relaxed);
                    let target0 = src.contains("\n.org 0\n");
                    bad = Some((if target0 { "org-back-to-0-accepted".into() } else { "org-back-accepted".into() }, ".org back into an occupied position must fail (nothing is overwritten, shifted or dropped) but the build succeeds".into()));
                }
                (Outcome::Err(e), false) => {
                    n_err.fetch_add(1, Ordering::Relaxed);
                    bad = Some(("rejected".into(), format!("a valid layout is rejected: {}", e)));
                }
                (Outcome::Err(_), true) => {
                    n_err.fetch_add(1, Ordering::Relaxed);
                }
                (Outcome::Panic { site, msg }, _) => {
                    bad = Some(("panic".into(), format!("panic at {}: {}", site, msg)));
                }
            }
            if let Some((kind, what)) = bad {
                let key = diverge_key(trace, &kind, &m);
                rep.violation(&key, || format!("device {}, trace {:?}: {}", m.devname.clone().unwrap_or("none".into()), trace, what), || {
                    json!({"kind": "build_str", "source": src, "trace": format!("{:?}", trace),
                       "expected": if exp.fail { json!({"result":"err (any text)"}) } else { json!({"result":"ok","code": sut::hex(&exp.code), "eeprom": sut::hex(&exp.eeprom), "ram_filling": exp.ram_filling, "labels": exp.labels}) },
                       "observed": o.to_json()})
                });
            } else if trace.len() == n1 + k {
                let mut s = samples.lock().unwrap();
                if s.len() < 2 {
                    s.push(json!({"device": m.devname, "trace": format!("{:?}", trace), "source": src, "model_labels": exp.labels}));
                }
            }
        });
        per_dev.insert(dev.unwrap_or("none").to_string(), json!({"states": ex.states, "transitions": ex.transitions, "traces": traces}));
        total_states += ex.states;
        total_transitions += ex.transitions;
        total_traces += traces;
    }
    let distinct = outcomes.lock().unwrap().len();
    // every row of the device table: labels of the data segment start at that row's RAM start
    // (the name on the .device line selects exactly that row)
    let mut n_rows = 0u64;
    for d in sut::devices().iter() {
        // (parts without RAM: the labels alone)
        let (r1, r2, fill) = if d.ram_size >= 4 { (".byte 3", ".byte 1", 4u32) } else { ("", "", 0) };
        let src = format!(".device {}\n.dseg\nv_one: {}\nv_two: {}\n.cseg\nc_one: nop\n.dw v_one, v_two, c_one\n", d.name, r1, r2);
        let o = sut::build_str(&src);
        n_rows += 1;
        let want: Vec<u8> = [0u16, d.ram_start as u16, d.ram_start as u16 + if fill > 0 { 3 } else { 0 }, 0].iter().flat_map(|w| w.to_le_bytes()).collect();
        let bad = match &o {
            Outcome::Ok(b) if b.code == want && b.ram_filling == fill => None,
            Outcome::Ok(b) => Some(format!("label table {} (ram_filling {}), expected {} (RAM starts at {:#x}, ram_filling {})", sut::hex(&b.code), b.ram_filling, sut::hex(&want), d.ram_start, fill)),
            other => Some(format!("the build fails: {}", other.brief())),
        };
        if let Some(what) = bad {
            rep.violation(&format!("C02/root=ram-start-of-the-selected-row/device={}", d.name), || what, || json!({"kind": "build_str", "source": src, "expected": {"result": "ok", "code": sut::hex(&want)}, "observed": o.to_json()}));
        }
    }
    // blocks that reach the program through `.include`: a file that places items, read once,
    // twice and three times (into the flash and the EEPROM, at the current position and behind
    // an .org) - every copy lands where the position counter stands, and `pc` / a label behind
    // it shows the position after it
    let mut n_included_blocks = 0u64;
    {
        let scratch = crate::report::Scratch::new("c02");
        let blocks: [(&str, &str); 3] = [("table", ".db 1, 2, 3, 4, 5\n"), ("code", "ldi r16, 1\nnop\nldi r17, 2\n"), ("words", ".dw 0x1111, 0x2222\n.dw pc\n")];
        for (bname, btext) in blocks.iter() {
            let inc = ".include \"blk.inc\"\n";
            let mains: Vec<(&str, String)> = vec![
                ("once", format!("nop\n{inc}end_l:\n.dw end_l, pc\n")),
                ("twice-in-a-row", format!("nop\n{inc}{inc}end_l:\n.dw end_l, pc\n")),
                ("three-times", format!("{inc}nop\n{inc}nop\n{inc}end_l:\n.dw end_l\n")),
                ("again-behind-an-org", format!("{inc}.org 0x20\n{inc}end_l:\n.dw end_l, pc\n")),
                ("again-behind-an-org-three-times", format!("{inc}.org 0x20\n{inc}.org 0x40\n{inc}end_l:\n.dw end_l, pc\n")),
                ("flash-then-eeprom", format!("{inc}.eseg\n{inc}e_end_l:\n.cseg\n.dw e_end_l, pc\n")),
                ("eeprom-twice-then-flash", format!(".eseg\n{inc}{inc}e_end_l:\n.cseg\n{inc}.dw e_end_l, pc\n")),
            ];
            for (mname, main) in mains.iter() {
                if *bname == "code" && mname.contains("eeprom") {
                    continue;
                }
                let d = scratch.path.join(format!("{}-{}", bname, mname));
                std::fs::create_dir_all(&d).unwrap_or_else(|e| machinery_fail(&format!("C02 scratch: {}", e)));
                std::fs::write(d.join("blk.inc"), btext).unwrap_or_else(|e| machinery_fail(&format!("C02 scratch: {}", e)));
                std::fs::write(d.join("main.asm"), main).unwrap_or_else(|e| machinery_fail(&format!("C02 scratch: {}", e)));
                let o = sut::build_file(d.join("main.asm"), BTreeSet::new());
                let pasted = main.replace(inc, btext);
                let want = sut::build_str(&pasted);
                n_included_blocks += 1;
                let same = match (&o, &want) {
                    (Outcome::Ok(a), Outcome::Ok(b)) => a.code == b.code && a.eeprom == b.eeprom && a.ram_filling == b.ram_filling,
                    (_, Outcome::Ok(_)) => false,
                    (_, other) => machinery_fail(&format!("C02: the pasted text of an include program does not build: {}", other.brief())),
                };
                if !same {
                    rep.violation(&format!("C02/root=included-block/kind={}/block={}", mname, bname), || format!("a file that places items, included {}: {} but the pasted text gives {}", mname, match &o { Outcome::Ok(b) => format!("code {} eeprom {}", sut::hex_trunc(&b.code, 40), sut::hex_trunc(&b.eeprom, 16)), other => other.brief() }, match &want { Outcome::Ok(b) => format!("code {} eeprom {}", sut::hex_trunc(&b.code, 40), sut::hex_trunc(&b.eeprom, 16)), other => other.brief() }), || json!({"kind": "file_tree", "files": {"main.asm": main, "blk.inc": btext}, "main": "main.asm", "caller_paths": [], "pasted_program": pasted, "observed": o.to_json(), "expected": want.to_json()}));
                }
                let _ = std::fs::remove_dir_all(&d);
            }
        }
    }
    rep.guard(n_ok.load(Ordering::Relaxed) > 1000 && n_err.load(Ordering::Relaxed) > 100, "need both Ok and Err outcomes");
    rep.guard(distinct > 1000, "fewer than 1000 distinct observed images");
    for c in ["instruction", "db", "dw-dd-dq", "byte", "org", "org-expr", "byte-expr", "org0-start", "org-back", "segment"] {
        rep.guard(act_use.lock().unwrap().get(c).copied().unwrap_or(0) > 0, &format!("action class {} never used", c));
    }
    for s in samples.into_inner().unwrap() {
        rep.sample(|| s);
    }
    rep.assume(".org into a gap left earlier and .dseg .org below RAM start are not pinned by the statement and are not generated");
    rep.assume("each segment keeps its own location counter across segment switches (AVRASM semantics of .cseg/.dseg/.eseg)");
    rep.assume("traces are far below every device capacity (capacity is C12's business); EEPROM actions only on devices with >= 64 bytes of EEPROM");
    let coverage = cov(json!({
        "states": total_states,
        "transitions": total_transitions,
        "traces_validated_against_impl": total_traces,
        "state_cover_size": total_states,
        "bound": {"N1_model_depth": n1, "k_extension": k, "devices": devs.iter().map(|d| d.unwrap_or("none")).collect::<Vec<_>>()},
        "per_device": per_dev,
        "exhaustive": true,
        "caps_hit": [],
        "distinct_observed_outcomes": distinct,
        "programs_with_blocks_placed_through_include": n_included_blocks,
        "ok_outcomes": n_ok.load(Ordering::Relaxed),
        "err_outcomes": n_err.load(Ordering::Relaxed),
        "alphabet_use_as_last_action": *act_use.lock().unwrap(),
        "trusted_base": ["layout reference model (three counters, item sizes, padding, zero fill)", "isa reference for instruction bytes", "stateright 0.31 BFS (single-threaded, deterministic)"],
    }));
    rep.finish(coverage)
}
