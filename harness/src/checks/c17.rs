//! C17 — builds are deterministic and independent of each other
//! (histories of whole builds + E4 schedules at hook points + free-running concurrency).

use std::collections::{BTreeMap, BTreeSet};
use std::path::{Path, PathBuf};
use std::process::Command;
use std::sync::atomic::{AtomicU64, Ordering};
use std::sync::Arc;

use serde_json::{json, Value};

use crate::report::{cov, machinery_fail, Report, Scratch, Tier};
use crate::sched;
use crate::sut::{self, Outcome};

#[derive(Clone)]
pub enum Build {
    Str(&'static str, &'static str),
    /// name, main file relative to the scratch directory
    File(&'static str, &'static str),
    /// name, main file, caller-supplied include directory (both relative to the scratch directory)
    FileWith(&'static str, &'static str, &'static str),
}

impl Build {
    fn name(&self) -> &'static str {
        match self {
            Build::Str(n, _) | Build::File(n, _) | Build::FileWith(n, _, _) => n,
        }
    }
}

pub fn alphabet() -> Vec<Build> {
    vec![
        Build::Str("equ-val-1", ".equ val = 1\nldi r16, val\n"),
        Build::Str("equ-val-2", ".equ val = 2\nldi r16, val\n.dw val\n"),
        Build::Str("use-val-undefined", "ldi r16, val\n"),
        Build::Str("macro-m-A", ".macro m\nldi r17, 1\n.endm\nm\n"),
        Build::Str("macro-m-B", ".macro m\nldi r17, 2\nnop\n.endm\nm\nm\n"),
        Build::Str("call-m-undefined", "m\n"),
        Build::Str("device-tiny20-lds", ".device ATtiny20\nlds r16, 0x60\n"),
        Build::Str("no-device-lds", "lds r16, 0x60\n"),
        Build::Str("define-F-ifdef", ".define F\n.ifdef F\nldi r18, 1\n.else\nldi r18, 2\n.endif\n"),
        Build::Str("ifdef-F-alone", ".ifdef F\nldi r18, 1\n.else\nldi r18, 2\n.endif\n"),
        Build::Str("def-t-use", ".def t = r16\nmov t, r0\n"),
        Build::Str("use-t-undefined", "mov t, r0\n"),
        Build::Str("message-set-segments", ".message \"hello\"\nlbl: .set s = 3\nldi r19, s\n.dseg\nv: .byte 3\n.eseg\n.db 9\n.cseg\n.dw v, lbl\n"),
        Build::Str("error-directive", "nop\n.error \"stop\"\n"),
        Build::File("file-with-includes", "c17main.asm"),
        // the same include name, found through different directories, with different contents
        Build::File("file-inc-dir-A", "dirA/c17mainA.asm"),
        Build::File("file-inc-dir-B", "dirB/c17mainB.asm"),
        Build::Str("label-and-pc", "lbl: nop\nrjmp lbl\n.dw pc\n.set s = 5\n.dw s\n"),
        // symbols defined through each other: a cycle (fails deep inside the evaluation), a
        // failure one level down, and a chain that only builds if nothing of those is left over
        Build::Str("equ-cyclic", ".equ ca = cb + 1\n.equ cb = ca + 1\nldi r16, ca\n"),
        Build::Str("equ-nested-undefined", ".equ na = nb + 1\nldi r16, na\n"),
        Build::Str("equ-chain-expr", ".equ base = 2\n.equ top = base + 1\n.equ top2 = top * 2 + base\nldi r16, top2\n.dw top\n"),
        // each of these takes more than half of the ATtiny13's flash
        Build::Str("tiny13-fill-A", fill_a()),
        Build::Str("tiny13-fill-B", fill_b()),
        // a macro called recursively (fails at the nesting limit) and nested macros that build
        Build::Str("macro-recursive", ".macro rec\nnop\nrec\n.endm\nrec\n"),
        Build::Str("macro-nested-3", ".macro n1\nldi r24, @0\n.endm\n.macro n2\nn1 @0\nn1 @0+1\n.endm\n.macro n3\nn2 @0\nn2 @0+2\n.endm\nn3 1\n"),
        // nested conditions left open (fails) and a well-formed nest
        Build::Str("if-unclosed", ".if 1\n.if 1\nnop\n"),
        Build::Str("if-nested-ok", ".if 1\n.if 0\nnop\n.else\nldi r25, 1\n.endif\n.endif\n"),
        // the same macro, letter for letter and line for line, whose body reads a symbol that
        // differs between the builds
        Build::Str("macro-reads-equ-1", ".equ SEL_K = 1\n.macro pick\n.if SEL_K\nldi r16, 1\n.else\nldi r16, 2\n.endif\n.endm\npick\npick\n"),
        Build::Str("macro-reads-equ-0", ".equ SEL_K = 0\n.macro pick\n.if SEL_K\nldi r16, 1\n.else\nldi r16, 2\n.endif\n.endm\npick\npick\n"),
        Build::Str("macro-reads-flag-set", ".define PICK_F\n.macro pick\n.ifdef PICK_F\nldi r17, 1\n.else\nldi r17, 2\n.endif\n.endm\npick\n"),
        Build::Str("macro-reads-flag-unset", "; no flag here\n.macro pick\n.ifdef PICK_F\nldi r17, 1\n.else\nldi r17, 2\n.endif\n.endm\npick\n"),
        // failing builds with several equally good candidates for whatever the error text says
        Build::Str("undefined-macro-between-two-similar", ".macro wait_us\nnop\n.endm\n.macro wait_ms\nnop\nnop\n.endm\n.macro wait_xs\nnop\n.endm\nwait_ns\n"),
        Build::Str("undefined-symbol-between-similar", ".equ val_a = 1\n.equ val_b = 2\n.set val_d = 4\nval_e: nop\n.def val_f = r16\nldi r16, val_c + val_g\n"),
        Build::Str("many-names-then-failure", many_names()),
        // a build with a caller-supplied include directory, and text builds whose macro bodies
        // name files that only that build's search directories hold
        Build::FileWith("file-with-caller-dir", "c17ext_main.asm", "ext17"),
        Build::Str("macro-body-includes-file-of-caller-dir", ".macro inc_m\n.include \"c17only.inc\"\n.endm\ninc_m\nnop\n"),
        Build::Str("macro-body-includes-file-of-includepath-dir", ".macro inc_n\n.include \"c17defs.inc\"\n.endm\ninc_n\nnop\n"),
        Build::Str("include-of-file-of-caller-dir", ".include \"c17only.inc\"\nnop\n"),
        // the same message several times among others (a macro that prints, called more than once)
        Build::Str("messages-repeated-from-macro", ".macro note_m\n.message \"tick\"\nnop\n.endm\n.message \"a\"\nnote_m\n.message \"b\"\nnote_m\n.message \"c\"\n.warning \"d\"\nnote_m\n.message \"e\"\n"),
        // device names near, but not in, the table; directives that are rarely used or not supported
        Build::Str("device-name-with-suffix-A", ".device ATmega328PB\n.dseg\nv_a: .byte 1\n.cseg\nlds r16, v_a\n"),
        Build::Str("device-name-with-suffix-B", ".device ATmega168PA\n.dseg\nv_b: .byte 1\n.cseg\nlds r16, v_b\n.dw v_b\n"),
        Build::Str("device-name-with-suffix-C", ".device ATmega88PA\n.dseg\nv_c: .byte 2\n.cseg\nsts v_c, r1\n"),
        Build::Str("listing-directives", ".nolist\nnop\n.list\nnop\n"),
        Build::Str("listmac-directive", ".listmac\n.macro lm\nnop\n.endm\nlm\n"),
        Build::Str("rare-directives", ".pragma AVRPART ADMIN PART_NAME none\n.overlap\n.csegsize 12\nnop\n.nooverlap\n.dd 1\n.dq 2\n.exit\nnop\n"),
        // builds that are refused late, after code and EEPROM bytes have been produced
        Build::Str("emits-then-fails-in-pass-2", "ldi r16, 1\nldi r17, 2\n.db 3, 4\nldi r18, 999\nnop\n"),
        Build::Str("emits-eeprom-then-fails-in-pass-2", "nop\n.eseg\n.db 1, 2, 3\n.dw 70000\n.cseg\nnop\n"),
        Build::Str("emits-then-lacking-instruction", ".device ATtiny13\nnop\nnop\njmp 0\n"),
        Build::Str("code-and-eeprom-ok", "ldi r16, 0x11\n.eseg\n.db 0x21, 0x22\n.cseg\nldi r17, 0x12\n"),
        Build::Str("messages-repeated-top-level", ".message \"x\"\n.message \"y\"\n.message \"x\"\n.warning \"z\"\n.message \"w\"\n.message \"v\"\n.message \"y\"\nnop\n"),
        // symbols that only exist while a build is in its later phases (`pc`) read where no build
        // of its own has set them; several entries of one table that collide (aliases of one register,
        // constants of one value, labels of one address) - whatever is picked among them must not
        // depend on a table's iteration order or on an earlier build
        // evaluations of tens of thousands of symbol resolutions (each definition uses the previous
        // one twice): what an evaluation counts is its own
        Build::Str("expensive-symbol-A", expensive(15, "ea")),
        Build::Str("expensive-symbol-B", expensive(14, "eb")),
        Build::Str("pc-in-if", "nop\n.if pc > 0\n.message \"not at the start\"\n.endif\nnop\n"),
        Build::Str("pc-in-org", "nop\nnop\n.org pc + 4\nnop\n"),
        Build::Str("pc-in-macro-if", "; a macro that looks at the position\n; (two comment lines)\n; (three)\n.macro at_m\n.if pc\nnop\n.endif\n.endm\nnop\nat_m\n"),
        Build::Str("three-aliases-of-one-register", ".def tmp = r16\n.def count = r16\n.def third = r16\nldi third, 1\nmov tmp, count\n"),
        Build::Str("aliases-of-pointer-registers", ".def xl_a = r26\n.def xl_b = r26\n.def xl_c = r26\n.def zh_a = r31\n.def zh_b = r31\nldi xl_c, 1\nldi zh_b, 2\n"),
        Build::Str("colliding-constants-labels-variables", ".equ one_a = 1\n.equ one_b = 1\n.equ one_c = 1\n.set one_v = 1\n.set one_w = 1\nl_a:\nl_b:\nl_c: nop\n.dw l_a, l_b, l_c, one_a + one_b + one_c + one_v + one_w\n"),
        Build::Str("redefinitions", ".equ red = 1\n.equ red = 2\n.def ra = r16\n.def ra = r17\n.set rv = 1\n.set rv = 2\nldi ra, red + rv\n"),
        // one name, another kind of thing in every build (a variable, a label that is a branch
        // target, constants defined by expressions with different values, evaluations that fail
        // half way, an alias, a macro): whatever a build remembers about a name is its own
        Build::Str("one-name-as-variable", ".set shared_q = 3\nldi r16, shared_q\n"),
        Build::Str("one-name-as-branch-target", "nop\nnop\nshared_q: dec r16\nbrne shared_q\nrjmp shared_q\n.dw shared_q\n"),
        Build::Str("one-name-as-constant-2", ".equ shared_q = 1 + 1\n.dq shared_q * 2\n"),
        Build::Str("one-name-as-constant-3", ".equ shared_q = 2 + 1\n.dq shared_q * 2\n"),
        Build::Str("one-name-overflowing", ".equ shared_q = 1 << 62\n.dq shared_q * 4\n"),
        Build::Str("one-name-divided-by-zero", ".equ shared_q = 1 + 1\n.dq 7, shared_q / 0\n"),
        Build::Str("one-name-as-alias", ".def shared_q = r17\nmov shared_q, r0\n"),
        Build::Str("one-name-as-macro", ".macro shared_q\nldi r18, 1\n.endm\nshared_q\n"),
    ]
}

fn many_names() -> &'static str {
    static S: std::sync::OnceLock<String> = std::sync::OnceLock::new();
    S.get_or_init(|| {
        let mut s = String::new();
        for i in 0..12 {
            s.push_str(&format!(".equ mn_k{} = {}\n.set mn_s{} = {}\n.def mn_r{} = r{}\nmn_l{}: nop\n.macro mn_m{}\nnop\n.endm\n.define MN_F{}\n", i, i, i, i, i, 16 + i, i, i, i));
        }
        s.push_str("mn_l5: nop\nmn_m99\nldi r16, mn_k99\n");
        s
    })
    .as_str()
}

/// `.equ p0 = 1 + 0`, `.equ p<i> = p<i-1> + p<i-1>` up to n, `.dq p<n>`: 2^(n+1) - 1 resolutions
fn expensive(n: usize, p: &'static str) -> &'static str {
    static A: std::sync::OnceLock<String> = std::sync::OnceLock::new();
    static B: std::sync::OnceLock<String> = std::sync::OnceLock::new();
    let cell = if p == "ea" { &A } else { &B };
    cell.get_or_init(|| {
        let mut s = format!(".equ {}0 = 1 + 0\n", p);
        for i in 1..=n {
            s.push_str(&format!(".equ {}{} = {}{} + {}{}\n", p, i, p, i - 1, p, i - 1));
        }
        s.push_str(&format!(".dq {}{}\n", p, n));
        s
    })
    .as_str()
}

fn fill_a() -> &'static str {
    static S: std::sync::OnceLock<String> = std::sync::OnceLock::new();
    S.get_or_init(|| format!(".device ATtiny13\n{}", "inc r1\n".repeat(280))).as_str()
}

fn fill_b() -> &'static str {
    static S: std::sync::OnceLock<String> = std::sync::OnceLock::new();
    S.get_or_init(|| format!(".device ATtiny13\n.macro blk\n{}.endm\n{}", "dec r2\n".repeat(40), "blk\n".repeat(7))).as_str()
}

fn write_files(dir: &Path) {
    let _ = std::fs::create_dir_all(dir.join("inc"));
    for (d, v) in [("dirA", 0x11), ("dirB", 0x22)] {
        let _ = std::fs::create_dir_all(dir.join(d).join("sub"));
        std::fs::write(dir.join(d).join(format!("c17main{}.asm", &d[3..])), ".includepath \"sub\"\n.include \"c17shared.inc\"\nldi r22, shared_k\n.include \"c17local.inc\"\n").unwrap();
        std::fs::write(dir.join(d).join("sub/c17shared.inc"), format!(".equ shared_k = {}\n.message \"shared {}\"\n", v, d)).unwrap();
        std::fs::write(dir.join(d).join("c17local.inc"), format!("ldi r23, {}\n", v + 1)).unwrap();
    }
    let _ = std::fs::create_dir_all(dir.join("ext17"));
    std::fs::write(dir.join("ext17/c17only.inc"), "ldi r24, 0x5e\n").unwrap();
    std::fs::write(dir.join("c17ext_main.asm"), ".include \"c17only.inc\"\nldi r25, 1\n").unwrap();
    std::fs::write(dir.join("c17main.asm"), ".includepath \"inc\"\n.include \"c17defs.inc\"\nldi r20, from_inc\nldi r21, val\n.message \"from main\"\n").unwrap();
    std::fs::write(dir.join("inc/c17defs.inc"), ".equ from_inc = 7\n.equ val = 9\n.macro m\nldi r17, 3\n.endm\nm\n").unwrap();
}

fn run_build(b: &Build, dir: &Path) -> Outcome {
    match b {
        Build::Str(_, s) => sut::build_str(s),
        Build::File(_, f) => sut::build_file(dir.join(f), BTreeSet::new()),
        Build::FileWith(_, f, d) => {
            let mut s = BTreeSet::new();
            s.insert(dir.join(d));
            sut::build_file(dir.join(f), s)
        }
    }
}

fn outcome_json(o: &Outcome) -> Value {
    match o {
        Outcome::Ok(b) => json!({"r": "ok", "code": sut::hex(&b.code), "eeprom": sut::hex(&b.eeprom), "sizes": [b.flash_size, b.eeprom_size, b.ram_size, b.ram_filling], "messages": b.messages}),
        Outcome::Err(e) => json!({"r": "err", "text": e}),
        Outcome::Panic { site, msg } => json!({"r": "panic", "site": site, "msg": msg}),
    }
}

/// `vcheck worker17 <index> <dir>`: one build in a process that has done nothing else
pub fn worker_main(args: &[String]) -> i32 {
    let idx: usize = args.get(2).and_then(|x| x.parse().ok()).unwrap_or(0);
    let dir = PathBuf::from(args.get(3).cloned().unwrap_or_default());
    let a = alphabet();
    let o = run_build(&a[idx], &dir);
    println!("{}", outcome_json(&o));
    0
}

pub fn run(tier: Tier) -> i32 {
    let rep = Report::new("C17", tier, "model_checking");
    let scratch = Scratch::new("c17");
    write_files(&scratch.path);
    let dir: Arc<PathBuf> = Arc::new(scratch.path.clone());
    let alpha = alphabet();
    let n = alpha.len();

    // reference: each build alone in a fresh process, cross-checked with the first in-process run
    let exe = std::env::current_exe().unwrap_or_else(|e| machinery_fail(&format!("current_exe: {}", e)));
    let mut reference: Vec<Value> = vec![];
    let fresh_runs = if tier.thorough() { 16 } else { 8 };
    for i in 0..n {
        let mut first: Option<Value> = None;
        for run in 0..fresh_runs {
            let out = Command::new(&exe).arg("worker17").arg(i.to_string()).arg(dir.display().to_string()).env("RUST_BACKTRACE", "0").output().unwrap_or_else(|e| machinery_fail(&format!("cannot spawn fresh-process baseline: {}", e)));
            let text = String::from_utf8_lossy(&out.stdout);
            let v: Value = serde_json::from_str(text.trim()).unwrap_or_else(|e| machinery_fail(&format!("fresh-process baseline for {} is not JSON ({}): {}", alpha[i].name(), e, text)));
            match &first {
                None => first = Some(v),
                Some(f) => {
                    // the same build alone in another fresh process: what a process decides once for
                    // itself (the order of a process-wide table, say) must not show in the result
                    if f != &v {
                        rep.violation(
                            &format!("C17/differs-between-fresh-processes/build={}", alpha[i].name()),
                            || format!("build '{}' alone in a fresh process gives {} in one process and {} in another", alpha[i].name(), f, v),
                            || json!({"kind": "history", "build": alpha[i].name(), "how": "fresh-process", "context": {"fresh_process_run": run}, "expected": f, "observed": v}),
                        );
                    }
                }
            }
        }
        reference.push(first.unwrap());
    }
    let kinds: BTreeSet<String> = reference.iter().map(|v| v["r"].as_str().unwrap_or("").to_string()).collect();
    rep.guard(kinds.contains("ok") && kinds.contains("err"), "the alphabet must contain building and failing programs");
    let distinct_refs: BTreeSet<String> = reference.iter().map(|v| v.to_string()).collect();
    rep.guard(distinct_refs.len() + 3 >= n, "builds of the alphabet must have (nearly) pairwise different outcomes");

    let evals = AtomicU64::new(0);
    let compare = |which: usize, o: &Outcome, how: &str, context: &dyn Fn() -> Value| {
        evals.fetch_add(1, Ordering::Relaxed);
        let got = outcome_json(o);
        if got != reference[which] {
            rep.violation(
                &format!("C17/{}/build={}", how, alpha[which].name()),
                || format!("build '{}' gives {} but alone in a fresh process it gives {}", alpha[which].name(), got, reference[which]),
                || json!({"kind": "history", "build": alpha[which].name(), "how": how, "context": context(), "expected": reference[which], "observed": got}),
            );
        }
    };

    // 1. histories on one thread: every sequence of length <= k
    let k = if tier.thorough() { 4 } else { 3 };
    // the longest histories run over the first 27 builds (thorough: length 4 over those, 3 over all)
    let core = 27usize.min(n);
    let mut seqs: Vec<Vec<usize>> = vec![];
    {
        let mut frontier: Vec<Vec<usize>> = vec![vec![]];
        for len in 1..=k {
            let mut next = vec![];
            for s in &frontier {
                for b in 0..n {
                    if len == k && (b >= core || s.iter().any(|x| *x >= core)) {
                        continue;
                    }
                    let mut t = s.clone();
                    t.push(b);
                    next.push(t);
                }
            }
            seqs.extend(next.iter().cloned());
            frontier = next;
        }
    }
    let n_hist = seqs.len();
    // sequential on purpose: nothing else runs in the process, so a deviation here is caused by
    // what was assembled before, not by what is assembled at the same time
    seqs.iter().for_each(|s| {
        for (pos, b) in s.iter().enumerate() {
            let o = run_build(&alpha[*b], &dir);
            compare(*b, &o, "history-same-thread", &|| json!({"sequence": s.iter().map(|x| alpha[*x].name()).collect::<Vec<_>>(), "position": pos}));
        }
    });
    // 1b. accumulation: one build repeated 70 times, then each other build once (what a build
    //     leaves behind may only show after many of them)
    let reps_acc = 70usize;
    let mut n_acc = 0usize;
    for f in 0..n {
        for g in 0..n {
            if matches!(alpha[f], Build::File(..)) && matches!(alpha[g], Build::File(..)) && tier == Tier::Quick && f != g {
                continue;
            }
            // (the one-name group accumulates within itself)
            if alpha[f].name().starts_with("one-name-") != alpha[g].name().starts_with("one-name-") {
                continue;
            }
            n_acc += 1;
            for r in 0..reps_acc {
                let o = run_build(&alpha[f], &dir);
                if r == 0 || r == reps_acc - 1 {
                    compare(f, &o, "history-accumulation", &|| json!({"repeated": alpha[f].name(), "times": r + 1, "then": alpha[g].name()}));
                }
            }
            let o = run_build(&alpha[g], &dir);
            compare(g, &o, "history-accumulation", &|| json!({"repeated": alpha[f].name(), "times": reps_acc, "then": alpha[g].name()}));
        }
    }
    // 2. the same sequences (length <= 2, thorough 3) with each build on its own thread, sequentially joined
    let n_thread_hist = AtomicU64::new(0);
    let k_threads = if tier.thorough() { 3 } else { 2 };
    seqs.iter().filter(|s| s.len() <= k_threads).for_each(|s| {
        n_thread_hist.fetch_add(1, Ordering::Relaxed);
        for (pos, b) in s.iter().enumerate() {
            let bb = alpha[*b].clone();
            let d = dir.clone();
            let o = std::thread::Builder::new().stack_size(32 << 20).spawn(move || run_build(&bb, &d)).unwrap().join().unwrap();
            compare(*b, &o, "history-thread-per-build", &|| json!({"sequence": s.iter().map(|x| alpha[*x].name()).collect::<Vec<_>>(), "position": pos}));
        }
    });
    // 3. hash-map iteration order: not a choice point the harness can own (std seeds every map
    //    differently); repetition on fresh threads, labelled as such
    let reps = if tier.thorough() { 256 } else { 64 };
    (0..n * reps).for_each(|i| {
        let b = i % n;
        let bb = alpha[b].clone();
        let d = dir.clone();
        let o = std::thread::spawn(move || run_build(&bb, &d)).join().unwrap();
        compare(b, &o, "repetition-fresh-hash-seeds", &|| json!({"repetition": i / n}));
    });

    // 4. schedules: controlled interleavings of concurrent builds at the hook points
    let idx = |name: &str| alpha.iter().position(|b| b.name() == name).unwrap_or_else(|| machinery_fail(&format!("no build {}", name)));
    let mut configs: Vec<Vec<Vec<usize>>> = vec![];
    // configurations explored at a coarser set of points (index → granularity, bound)
    let mut special: BTreeMap<usize, (sched::Gran, usize)> = BTreeMap::new();
    let pairs = [
        ("equ-val-1", "equ-val-2"), ("equ-val-1", "use-val-undefined"), ("equ-val-2", "use-val-undefined"), ("macro-m-A", "macro-m-B"),
        ("macro-m-A", "call-m-undefined"), ("macro-m-B", "call-m-undefined"), ("device-tiny20-lds", "no-device-lds"), ("define-F-ifdef", "ifdef-F-alone"),
        ("def-t-use", "use-t-undefined"), ("message-set-segments", "error-directive"), ("message-set-segments", "label-and-pc"), ("file-with-includes", "use-val-undefined"),
        ("file-with-includes", "equ-val-1"), ("file-with-includes", "call-m-undefined"), ("label-and-pc", "no-device-lds"), ("equ-val-1", "equ-val-1"),
        ("message-set-segments", "message-set-segments"), ("device-tiny20-lds", "device-tiny20-lds"),
        ("file-with-includes", "file-with-includes"), ("file-inc-dir-A", "file-inc-dir-B"), ("file-inc-dir-A", "file-inc-dir-A"), ("file-inc-dir-B", "file-with-includes"),
    ];
    for (a, b) in pairs {
        configs.push(vec![vec![idx(a)], vec![idx(b)]]);
    }
    // two builds on one thread against one on the other
    for (a1, a2, b) in [("equ-val-1", "use-val-undefined", "equ-val-2"), ("device-tiny20-lds", "no-device-lds", "no-device-lds"), ("macro-m-A", "call-m-undefined", "macro-m-B"), ("define-F-ifdef", "ifdef-F-alone", "ifdef-F-alone")] {
        configs.push(vec![vec![idx(a1), idx(a2)], vec![idx(b)]]);
    }
    // 64 levels of expansion are some 300 points: preemption bound 1 (2 in the thorough tier)
    special.insert(configs.len(), (sched::Gran::Fine, 1));
    configs.push(vec![vec![idx("macro-recursive")], vec![idx("macro-nested-3")]]);
    for (a, b) in [("equ-cyclic", "equ-chain-expr"), ("equ-nested-undefined", "equ-chain-expr"), ("if-unclosed", "if-nested-ok"), ("equ-chain-expr", "equ-chain-expr")] {
        configs.push(vec![vec![idx(a)], vec![idx(b)]]);
    }
    // two builds that each need more than half of the device: points at every item of pass 0
    for (a, b) in [("tiny13-fill-A", "tiny13-fill-B"), ("tiny13-fill-A", "tiny13-fill-A"), ("tiny13-fill-B", "macro-recursive")] {
        special.insert(configs.len(), (sched::Gran::Tags(&["pass0.item"]), 1));
        configs.push(vec![vec![idx(a)], vec![idx(b)]]);
    }
    // two evaluations of 65535 and 32767 symbol resolutions side by side, with
    // a point at every 8192nd resolution of a thread: what one evaluation counts must not be seen
    // by the other
    for (a, b) in [("expensive-symbol-A", "expensive-symbol-A"), ("expensive-symbol-A", "expensive-symbol-B")] {
        special.insert(configs.len(), (sched::Gran::Tags(&["expr.resolve"]), 1));
        configs.push(vec![vec![idx(a)], vec![idx(b)]]);
    }
    if tier.thorough() {
        for (a, b, c) in [("equ-val-1", "equ-val-2", "use-val-undefined"), ("macro-m-A", "macro-m-B", "call-m-undefined"), ("device-tiny20-lds", "no-device-lds", "message-set-segments")] {
            configs.push(vec![vec![idx(a)], vec![idx(b)], vec![idx(c)]]);
        }
    }
    sut::set_hook(Some(sched::hook));
    let mut total_schedules = 0usize;
    let mut total_interleavings = 0usize;
    let mut max_points = 0usize;
    let mut by_pre_total: Vec<usize> = vec![];
    let mut per_config: Vec<Value> = vec![];
    let mut replay_checked = 0usize;
    for (cfg_i, cfg) in configs.iter().enumerate() {
        let nthreads = cfg.len();
        let (gran, bound) = match special.get(&cfg_i) {
            Some((g, b)) => (*g, if tier.thorough() { *b + 1 } else { *b }),
            None => (sched::Gran::Fine, if tier.thorough() { if nthreads == 3 { 2 } else { 3 } } else { 2 }),
        };
        let make = || -> Vec<Box<dyn FnOnce() -> Vec<Outcome> + Send>> {
            cfg.iter()
                .map(|builds| {
                    let builds: Vec<Build> = builds.iter().map(|b| alpha[*b].clone()).collect();
                    let d = dir.clone();
                    Box::new(move || builds.iter().map(|b| run_build(b, &d)).collect::<Vec<Outcome>>()) as Box<dyn FnOnce() -> Vec<Outcome> + Send>
                })
                .collect()
        };
        // determinism of the harness itself: replay one recorded schedule twice, identical points
        {
            let (_, r0) = sched::run_schedule(make(), &[], gran);
            let mid: Vec<usize> = {
                let mut c = r0.choices();
                let cut = c.len() / 2;
                c.truncate(cut);
                if let Some(p) = r0.points.get(cut) {
                    if p.n_enabled > 1 {
                        c.push(1);
                    }
                }
                c
            };
            let (_, r1) = sched::run_schedule(make(), &mid, gran);
            let (_, r2) = sched::run_schedule(make(), &mid, gran);
            if r1.points != r2.points || r1.diverged || r2.diverged {
                machinery_fail("replaying one schedule twice gave different point sequences: the scheduler does not own every choice");
            }
            replay_checked += 1;
        }
        let cfg_names: Vec<Vec<&str>> = cfg.iter().map(|t| t.iter().map(|b| alpha[*b].name()).collect()).collect();
        let mut check = |res: &[Vec<Outcome>], rec: &sched::RunRec| {
            for (ti, outs) in res.iter().enumerate() {
                for (pos, o) in outs.iter().enumerate() {
                    let which = cfg[ti][pos];
                    compare(which, o, "schedule", &|| json!({"threads": cfg_names, "tags": gran.name(), "choices": rec.choices(), "points": rec.points.iter().map(|p| json!([p.thread, p.tag])).collect::<Vec<_>>(), "preemptions": rec.preemptions()}));
                }
            }
        };
        let ex = sched::explore(&make, bound, gran, &mut check).unwrap_or_else(|e| machinery_fail(&e));
        total_schedules += ex.schedules;
        total_interleavings += ex.distinct_interleavings;
        max_points = max_points.max(ex.max_points);
        if by_pre_total.len() < ex.by_preemptions.len() {
            by_pre_total.resize(ex.by_preemptions.len(), 0);
        }
        for (i, c) in ex.by_preemptions.iter().enumerate() {
            by_pre_total[i] += c;
        }
        per_config.push(json!({"threads": cfg_names, "scheduling_points": gran.name(), "preemption_bound_completed": bound, "schedules": ex.schedules, "distinct_interleavings": ex.distinct_interleavings, "points_per_execution_max": ex.max_points}));
    }
    sut::set_hook(None);
    // 5. free-running (uncontrolled) pass of the same thread bodies: a cooperative scheduler's
    //    hand-offs are happens-before edges; this pass has none. Labelled as uncontrolled.
    let free_runs = if tier.thorough() { 400 } else { 100 };
    let mut free_total = 0u64;
    for cfg in configs.iter() {
        for _ in 0..free_runs / 10 {
            let hs: Vec<_> = cfg
                .iter()
                .map(|builds| {
                    let builds: Vec<Build> = builds.iter().map(|b| alpha[*b].clone()).collect();
                    let d = dir.clone();
                    std::thread::spawn(move || {
                        let mut v = vec![];
                        for _ in 0..10 {
                            v.extend(builds.iter().map(|b| run_build(b, &d)));
                        }
                        v
                    })
                })
                .collect();
            for (ti, h) in hs.into_iter().enumerate() {
                let outs = h.join().unwrap();
                for (pos, o) in outs.iter().enumerate() {
                    let which = cfg[ti][pos % cfg[ti].len()];
                    free_total += 1;
                    compare(which, o, "free-running-threads", &|| json!({"threads": cfg.iter().map(|t| t.iter().map(|b| alpha[*b].name()).collect::<Vec<_>>()).collect::<Vec<_>>()}));
                }
            }
        }
    }
    rep.guard(total_schedules > 1000, "fewer than 1000 schedules explored");
    rep.guard(total_interleavings * 10 > total_schedules * 9, "schedules are not distinct interleavings");
    rep.sample(|| json!({"history": ["equ-val-1", "use-val-undefined", "equ-val-2"], "each_build_must_equal": "its outcome alone in a fresh process"}));
    rep.sample(|| per_config[0].clone());
    rep.sample(|| json!({"build": alpha[0].name(), "source": match &alpha[0] { Build::Str(_, s) => s, _ => "" }, "fresh_process_outcome": reference[0]}));
    rep.assume("the specification is the one-state machine 'builds do not interact': the state cover is {empty history} and the conformance step replays every history in Sigma^<=k, each build compared with its fresh-process outcome");
    rep.assume("scheduling points are the verif-hooks points (build start/phases, every parsed line, every item of pass 0/1/2, .device, .include) plus thread start/finish; memory-model effects below that granularity are not modelled (avra-rs shares no mutable memory between builds)");
    rep.assume("hash-map iteration order is not a choice point the harness can own; it is covered by repetition on fresh threads (fresh seeds) and says so");
    let coverage = cov(json!({
        "states": 1,
        "transitions": n,
        "traces_validated_against_impl": n_hist as u64 + n_thread_hist.load(Ordering::Relaxed),
        "histories_same_thread": n_hist,
        "histories_thread_per_build": n_thread_hist.load(Ordering::Relaxed),
        "histories_accumulation": n_acc,
        "accumulation_repetitions": reps_acc,
        "history_bound": k,
        "alphabet": alpha.iter().map(|b| b.name()).collect::<Vec<_>>(),
        "schedules_explored": total_schedules,
        "distinct_observed_interleavings": total_interleavings,
        "schedules_by_preemptions": by_pre_total,
        "thread_configurations": per_config,
        "points_per_execution_max": max_points,
        "schedule_replayed_twice_identical": replay_checked,
        "free_running_uncontrolled_builds": free_total,
        "repetitions_fresh_hash_seeds": n * reps,
        "fresh_process_runs_per_build": fresh_runs,
        "build_outcomes_compared": evals.load(Ordering::Relaxed),
        "exhaustive": true,
        "caps_hit": [],
        "trusted_base": ["fresh-process outcome of each build as reference", "E4 scheduler (replay-checked)", "verif-hooks points compiled into avra-rs"],
    }));
    drop(scratch);
    rep.finish(coverage)
}

/// `./run replay <file>` for kind "history": re-execute the recorded history or schedule without
/// the explorer and compare every build with its fresh-process outcome again.
pub fn replay(v: &Value) -> i32 {
    let scratch = Scratch::new("c17replay");
    write_files(&scratch.path);
    let dir: Arc<PathBuf> = Arc::new(scratch.path.clone());
    let alpha = alphabet();
    let exe = std::env::current_exe().expect("current_exe");
    let fresh = |i: usize| -> Value {
        let out = Command::new(&exe).arg("worker17").arg(i.to_string()).arg(dir.display().to_string()).env("RUST_BACKTRACE", "0").output().expect("spawn");
        serde_json::from_str(String::from_utf8_lossy(&out.stdout).trim()).unwrap_or(Value::Null)
    };
    let idx = |name: &str| alpha.iter().position(|b| b.name() == name);
    let ctx = &v["context"];
    let mut bad = 0;
    let mut cmp = |which: usize, o: &Outcome| {
        let got = outcome_json(o);
        let want = fresh(which);
        let ok = got == want;
        println!("build {:24} {}", alpha[which].name(), if ok { "= fresh-process outcome".to_string() } else { format!("DIFFERS: {} vs fresh {}", got, want) });
        if !ok {
            bad += 1;
        }
    };
    if let Some(threads) = ctx["threads"].as_array() {
        let cfg: Vec<Vec<usize>> = threads.iter().map(|t| t.as_array().map(|a| a.iter().filter_map(|n| n.as_str().and_then(|n| idx(n))).collect()).unwrap_or_default()).collect();
        let choices: Vec<usize> = ctx["choices"].as_array().map(|a| a.iter().filter_map(|x| x.as_u64().map(|x| x as usize)).collect()).unwrap_or_default();
        println!("replaying schedule: threads {:?}, {} recorded choices", threads, choices.len());
        sut::set_hook(Some(sched::hook));
        let bodies: Vec<Box<dyn FnOnce() -> Vec<Outcome> + Send>> = cfg
            .iter()
            .map(|builds| {
                let builds: Vec<Build> = builds.iter().map(|b| alpha[*b].clone()).collect();
                let d = dir.clone();
                Box::new(move || builds.iter().map(|b| run_build(b, &d)).collect::<Vec<Outcome>>()) as Box<dyn FnOnce() -> Vec<Outcome> + Send>
            })
            .collect();
        let gran = sched::Gran::from_name(ctx["tags"].as_str().unwrap_or("fine"));
        let (res, rec) = sched::run_schedule(bodies, &choices, gran);
        sut::set_hook(None);
        if rec.diverged {
            println!("DIVERGENCE while replaying the recorded choices (the tree changed the sequence of scheduling points)");
        }
        println!("points: {}", rec.points.iter().map(|p| format!("{}:{}", p.thread.map(|t| t.to_string()).unwrap_or("-".into()), p.tag)).collect::<Vec<_>>().join(" "));
        for (ti, outs) in res.iter().enumerate() {
            for (pos, o) in outs.iter().enumerate() {
                cmp(cfg[ti][pos], o);
            }
        }
    } else if let Some(seq) = ctx["sequence"].as_array() {
        println!("replaying history {:?}", seq);
        for n in seq.iter().filter_map(|x| x.as_str()) {
            if let Some(i) = idx(n) {
                let o = run_build(&alpha[i], &dir);
                cmp(i, &o);
            }
        }
    } else if let (Some(f), Some(g)) = (ctx["repeated"].as_str().and_then(|n| idx(n)), ctx["then"].as_str().and_then(|n| idx(n))) {
        let times = ctx["times"].as_u64().unwrap_or(70);
        println!("replaying {} x {}, then {}", times, alpha[f].name(), alpha[g].name());
        for r in 0..times {
            let o = run_build(&alpha[f], &dir);
            if r == 0 || r + 1 == times {
                cmp(f, &o);
            }
        }
        let o = run_build(&alpha[g], &dir);
        cmp(g, &o);
    } else if let Some(b) = v["build"].as_str().and_then(|n| idx(n)) {
        let o = run_build(&alpha[b], &dir);
        cmp(b, &o);
    }
    if bad > 0 {
        println!("REPRODUCED ({} build outcome(s) differ from the fresh-process outcome)", bad);
        1
    } else {
        0
    }
}
