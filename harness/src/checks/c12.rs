//! C12 — memory capacity limits of the selected device are enforced exactly (E1 over configurations).

use std::collections::BTreeMap;
use std::sync::atomic::{AtomicU64, Ordering};

use rayon::prelude::*;
use serde_json::json;

use crate::report::{cov, Report, Scratch, Tier};
use crate::sut::{self, DeviceRow, Outcome};

fn repo_root() -> std::path::PathBuf {
    std::path::PathBuf::from(std::env::var("REPO_ROOT").unwrap_or_else(|_| "/repo".to_string()))
}

#[derive(Clone, Debug)]
struct PartFile {
    file: String,
    device: String,
    flash_bytes: Option<u64>,
    eeprom: Option<u64>,
    sram_size: Option<u64>,
    sram_start: Option<u64>,
}

fn parse_num(t: &str) -> Option<u64> {
    let t = t.trim();
    if let Some(h) = t.strip_prefix("0x").or_else(|| t.strip_prefix("0X")) {
        u64::from_str_radix(h, 16).ok()
    } else if let Some(h) = t.strip_prefix('$') {
        u64::from_str_radix(h, 16).ok()
    } else {
        t.parse().ok()
    }
}

/// The harness's own reader of a shipped part-definition file (not the tool's parser).
fn read_part_files() -> Vec<PartFile> {
    let dir = repo_root().join("includes");
    let mut out = vec![];
    let mut names: Vec<_> = match std::fs::read_dir(&dir) {
        Ok(rd) => rd.filter_map(|e| e.ok()).map(|e| e.path()).filter(|p| p.extension().map(|x| x == "inc").unwrap_or(false)).collect(),
        Err(_) => vec![],
    };
    names.sort();
    for p in names {
        let text = match std::fs::read(&p) {
            Ok(b) => String::from_utf8_lossy(&b).to_string(),
            Err(_) => continue,
        };
        let mut pf = PartFile { file: p.file_name().unwrap().to_string_lossy().to_string(), device: String::new(), flash_bytes: None, eeprom: None, sram_size: None, sram_start: None };
        for line in text.lines() {
            let l = line.trim();
            let toks: Vec<&str> = l.split_whitespace().collect();
            if toks.len() >= 2 && toks[0].eq_ignore_ascii_case(".device") && pf.device.is_empty() {
                pf.device = toks[1].to_string();
            }
            if toks.len() >= 5 && toks[0] == "#pragma" && toks[1] == "AVRPART" && toks[2] == "MEMORY" {
                match (toks[3], toks.get(4).copied(), toks.get(5).copied()) {
                    ("PROG_FLASH", Some(v), _) => pf.flash_bytes = parse_num(v),
                    ("EEPROM", Some(v), _) => pf.eeprom = parse_num(v),
                    ("INT_SRAM", Some("SIZE"), Some(v)) => pf.sram_size = parse_num(v),
                    ("INT_SRAM", Some("START_ADDR"), Some(v)) => pf.sram_start = parse_num(v),
                    _ => {}
                }
            }
        }
        if !pf.device.is_empty() {
            out.push(pf);
        }
    }
    out
}

struct Caps {
    /// words one lds/sts takes on this device (None: the device has no lds/sts)
    lds_words: Option<u64>,
    name: Option<String>,
    flash: u64,
    eeprom: u64,
    ram: u64,
    ram_start: u64,
    two_word: Option<&'static str>,
}

fn caps_of(d: Option<&DeviceRow>) -> Caps {
    match d {
        None => Caps { lds_words: Some(2), name: None, flash: sut::DEFAULT_FLASH_WORDS as u64, eeprom: sut::DEFAULT_EEPROM as u64, ram: sut::DEFAULT_RAM as u64, ram_start: sut::DEFAULT_RAM_START as u64, two_word: Some("jmp 0") },
        Some(d) => Caps {
            lds_words: if d.flags.contains("Tiny1x") { None } else if d.flags.contains("Avr8l") { Some(1) } else { Some(2) },
            name: Some(d.name.clone()),
            flash: d.flash_words as u64,
            eeprom: d.eeprom_size as u64,
            ram: d.ram_size as u64,
            ram_start: d.ram_start as u64,
            two_word: if !d.flags.contains("NoJmp") {
                Some("jmp 0")
            } else if !d.flags.contains("Tiny1x") && !d.flags.contains("Avr8l") {
                Some("lds r16, 0x60")
            } else {
                None
            },
        },
    }
}

fn dw_block(words: u64) -> String {
    let mut s = String::new();
    let line64 = format!(".dw {}\n", vec!["0"; 64].join(","));
    for _ in 0..words / 64 {
        s.push_str(&line64);
    }
    let rest = words % 64;
    if rest > 0 {
        s.push_str(&format!(".dw {}\n", vec!["0"; rest as usize].join(",")));
    }
    s
}

/// (memory, way, source, expected ram_filling on Ok) for using exactly n units
fn programs(c: &Caps, mem: &str, n: u64) -> Vec<(&'static str, String, Option<u64>)> {
    let dev = match &c.name {
        Some(n) => format!(".device {}\n", n),
        None => String::new(),
    };
    let mut v: Vec<(&'static str, String, Option<u64>)> = vec![];
    match mem {
        "flash" => {
            if n >= 1 {
                v.push(("org+nop", format!("{}.org {}\nnop\n", dev, n - 1), None));
            }
            v.push(("dw-blocks", format!("{}{}", dev, dw_block(n)), None));
            if n >= 1 && c.ram >= 1 {
                v.push(("org-then-left-at-once+nop", format!("{}.org {}\n.dseg\n.cseg\nnop\n", dev, n - 1), None));
            }
            // the counter is only moved there, nothing is placed: capacity is a legal position
            v.push(("position-only:org+label", format!("{}.org {}\nend_of_flash_l:\n", dev, n), None));
            if let Some(i2) = c.two_word {
                if n >= 2 {
                    v.push(("two-word-instruction-at-end", format!("{}.org {}\n{}\n", dev, n - 2, i2), None));
                }
            }
            // filled with instructions (devices up to 64 K words: the source grows with n)
            if n <= 65537 {
                v.push(("nop-lines", format!("{}{}", dev, "nop\n".repeat(n as usize)), None));
                if let Some(lw) = c.lds_words {
                    // lds/sts lines (one word each on the reduced core, two elsewhere) + nops for the rest
                    let k = n / lw;
                    let mut s = dev.clone();
                    for i in 0..k {
                        s.push_str(if i % 2 == 0 { "lds r16, 0x60\n" } else { "sts 0x61, r17\n" });
                    }
                    s.push_str(&"nop\n".repeat((n - k * lw) as usize));
                    v.push(("lds-sts-lines", s, None));
                }
                // flash filled by instructions while a macro places data in the other memories
                if c.eeprom >= 2 {
                    v.push(("nop-lines+eeprom-data-from-macro", format!("{}.macro ee_const\n.eseg\n.db @0, @0 + 1\n.cseg\n.endm\nee_const 1\n{}ee_const 3\n", dev, "nop\n".repeat(n as usize)), None));
                }
                if c.ram >= 2 {
                    v.push(("nop-lines+ram-from-macro", format!("{}.macro ram_var\n.dseg\n.byte 1\n.cseg\n.endm\nram_var\n{}ram_var\n", dev, "nop\n".repeat(n as usize)), Some(2)));
                }
                // the same through macro expansion
                let mut s = format!("{}.macro sixteen\n{}.endm\n", dev, "nop\n".repeat(16));
                s.push_str(&"sixteen\n".repeat((n / 16) as usize));
                s.push_str(&"nop\n".repeat((n % 16) as usize));
                v.push(("macro-expanded-nops", s, None));
            }
        }
        "eeprom" => {
            if n >= 1 {
                v.push(("org+db", format!("{}.eseg\n.org {}\n.db 1\n", dev, n - 1), None));
                v.push(("position-only:org+label", format!("{}.eseg\n.org {}\nend_of_eeprom_l:\n", dev, n), None));
                v.push(("byte", format!("{}.eseg\n.byte {}\n", dev, n), None));
                // the position is set and the segment left at once: it still counts when the
                // segment is entered again
                v.push(("org-then-left-at-once+db", format!("{}.eseg\n.org {}\n.cseg\nnop\n.eseg\n.db 1\n", dev, n - 1), None));
                let mut s = format!("{}.eseg\n{}", dev, dw_block(n / 2));
                if n % 2 == 1 {
                    s.push_str(".db 7\n");
                }
                v.push(("dw-blocks", s, None));
            } else {
                v.push(("empty", format!("{}.eseg\n", dev), None));
            }
        }
        _ => {
            if n >= 1 {
                v.push(("byte", format!("{}.dseg\n.byte {}\n", dev, n), Some(n)));
                v.push(("position-only:org+label", format!("{}.dseg\n.org {}\nstack_top_l:\n.cseg\nnop\n", dev, c.ram_start + n), None));
                // beyond the capacity first, then back to the start: whatever a backwards .org means,
                // the reservation that does not fit fails the build
                if n > c.ram {
                    v.push(("byte-then-org-back-to-the-start", format!("{}.dseg\nbig_v: .byte {}\n.org {}\nsmall_v: .byte 1\n", dev, n, c.ram_start), None));
                    v.push(("byte-then-org-back-in-a-new-dseg", format!("{}.dseg\nbig_v: .byte {}\n.cseg\nnop\n.dseg\n.org {}\nsmall_v: .byte 2\n", dev, n, c.ram_start + 1), None));
                }
                v.push(("org+byte", format!("{}.dseg\n.org {}\n.byte 1\n", dev, c.ram_start + n - 1), Some(n)));
                if n <= 70_000 {
                    // the usual "variable" macro, once per byte of the memory
                    v.push(("one-byte-variables-from-a-macro", format!("{}.macro var_q\n.dseg\n.byte 1\n.cseg\n.endm\n{}", dev, "var_q\n".repeat(n as usize)), Some(n)));
                }
                v.push(("org-then-left-at-once+byte", format!("{}.dseg\n.org {}\n.cseg\nnop\n.dseg\n.byte 1\n", dev, c.ram_start + n - 1), Some(n)));
            } else {
                v.push(("empty", format!("{}.dseg\nv:\n", dev), Some(0)));
            }
            if n >= 2 {
                v.push(("several-segments", format!("{}.dseg\n.byte {}\n.cseg\nnop\n.dseg\n.byte {}\n.eseg\n.dseg\n.byte 1\n", dev, n / 2, n - n / 2 - 1), Some(n)));
            }
        }
    }
    v
}

pub fn run(tier: Tier) -> i32 {
    let rep = Report::new("C12", tier, "exploration");
    let devs = sut::devices();
    rep.guard(devs.len() >= 40, "device table has fewer than 40 rows");
    let evals = AtomicU64::new(0);
    let n_ok = AtomicU64::new(0);
    let n_err = AtomicU64::new(0);
    let configs = AtomicU64::new(0);

    let mut rows: Vec<Option<&DeviceRow>> = vec![None];
    rows.extend(devs.iter().map(Some));

    // 1. reported sizes and RAM start
    for d in rows.iter() {
        let c = caps_of(*d);
        let dn = c.name.clone().unwrap_or("none".into());
        let src = format!("{}.dseg\nram_probe:\n.cseg\n.dw ram_probe\n", c.name.as_ref().map(|n| format!(".device {}\n", n)).unwrap_or_default());
        let o = sut::build_str(&src);
        evals.fetch_add(1, Ordering::Relaxed);
        let bad = match &o {
            Outcome::Ok(b) => {
                let start = if b.code.len() == 2 { (b.code[0] as u64) | (b.code[1] as u64) << 8 } else { u64::MAX };
                if b.flash_size as u64 != c.flash || b.eeprom_size as u64 != c.eeprom || b.ram_size as u64 != c.ram {
                    Some(("reported-sizes", format!("reported flash/eeprom/ram = {}/{}/{}, the table says {}/{}/{}", b.flash_size, b.eeprom_size, b.ram_size, c.flash, c.eeprom, c.ram)))
                } else if start != c.ram_start {
                    Some(("ram-start", format!("a label at the start of the data segment has value {:#x}, RAM starts at {:#x}", start, c.ram_start)))
                } else if b.ram_filling != 0 {
                    Some(("reported-sizes", format!("ram_filling {} for an empty data segment", b.ram_filling)))
                } else {
                    None
                }
            }
            other => Some(("report-build-failed", format!("selecting the device fails: {:?}", other.to_json()))),
        };
        if let Some((kind, what)) = bad {
            rep.violation(&format!("C12/{}/device={}", kind, dn), || what, || json!({"kind": "build_str", "source": src, "observed": o.to_json()}));
        }
    }

    // 2. limits: one below, at, one above capacity, every way of getting there
    let mut work: Vec<(usize, &'static str, i64)> = vec![];
    for (ri, _) in rows.iter().enumerate() {
        for mem in ["flash", "eeprom", "ram"] {
            for delta in [-1i64, 0, 1] {
                work.push((ri, mem, delta));
            }
        }
    }
    work.par_iter().for_each(|(ri, mem, delta)| {
        let c = caps_of(rows[*ri]);
        let dn = c.name.clone().unwrap_or("none".into());
        let cap = match *mem {
            "flash" => c.flash,
            "eeprom" => c.eeprom,
            _ => c.ram,
        };
        if cap as i64 + delta < 0 {
            return;
        }
        let n = (cap as i64 + delta) as u64;
        let must_ok = *delta <= 0;
        let at = match delta {
            -1 => "cap-1",
            0 => "cap",
            _ => "cap+1",
        };
        // the device may be selected by a plain line, inside the body of a macro that is called, or
        // inside a selected conditional arm: the limits and the reported sizes are the same
        let mut progs: Vec<(String, String, Option<u64>)> = vec![];
        for (way, src, ramf) in programs(&c, mem, n) {
            if let Some(name) = &c.name {
                let plain = format!(".device {}\n", name);
                if src.starts_with(&plain) && src.len() < 300_000 {
                    let rest = &src[plain.len()..];
                    progs.push((format!("{}+device-in-macro", way), format!(".macro board_setup\n.device {}\n.endm\nboard_setup\n{}", name, rest), ramf));
                    // the device named at the very end: a program is assembled for the device it
                    // selects, wherever the line stands
                    progs.push((format!("{}+device-last", way), format!("{}{}", rest, plain), ramf));
                    progs.push((format!("{}+device-in-conditional", way), format!(".if 1\n.device {}\n.else\n.device ATmega2560\n.endif\n{}", name, rest), ramf));
                    // .csegsize repartitions the AT94K only: before or after the .device line of any
                    // other part it changes nothing
                    if name != "AT94K" && rest.len() < 100_000 {
                        progs.push((format!("{}+csegsize-before-device", way), format!(".csegsize {}\n{}{}", [10, 12, 14, 16][n as usize % 4], plain, rest), ramf));
                        progs.push((format!("{}+csegsize-after-device", way), format!("{}.csegsize {}\n{}", plain, [16, 10, 12, 14][n as usize % 4], rest), ramf));
                    }
                }
            }
            progs.push((way.to_string(), src, ramf));
        }
        for (way, src, ramf) in progs {
            let way = way.as_str();
            configs.fetch_add(1, Ordering::Relaxed);
            let o = sut::build_str(&src);
            evals.fetch_add(1, Ordering::Relaxed);
            let mut bad: Option<(&str, String)> = None;
            match (&o, must_ok) {
                (Outcome::Ok(b), true) => {
                    n_ok.fetch_add(1, Ordering::Relaxed);
                    let used = match *mem {
                        "flash" => b.code.len() as u64 / 2,
                        "eeprom" => b.eeprom.len() as u64,
                        _ => b.ram_filling as u64,
                    };
                    if way.starts_with("position-only:") {
                        // nothing is placed: what the images / ram_filling show for an empty tail is not pinned
                    } else if used != n {
                        bad = Some(("wrong-usage", format!("the program uses {} units of {} but the result shows {}", n, mem, used)));
                    } else if let Some(r) = ramf {
                        if b.ram_filling as u64 != r {
                            bad = Some(("ram-filling", format!("ram_filling {} but the data segment extends {}", b.ram_filling, r)));
                        }
                    }
                    if bad.is_none() && (b.flash_size as u64 != c.flash || b.eeprom_size as u64 != c.eeprom || b.ram_size as u64 != c.ram) {
                        bad = Some(("reported-sizes", "a successful build does not report the selected device's sizes".into()));
                    }
                }
                (Outcome::Ok(_), false) => {
                    n_ok.fetch_add(1, Ordering::Relaxed);
                    bad = Some(("over-capacity-accepted", format!("{} units of {} on a device with {} must fail but the build succeeds", n, mem, cap)));
                }
                (Outcome::Err(e), true) => {
                    n_err.fetch_add(1, Ordering::Relaxed);
                    bad = Some(("within-capacity-rejected", format!("{} units of {} on a device with {} must build but: {}", n, mem, cap, e)));
                }
                (Outcome::Err(_), false) => {
                    n_err.fetch_add(1, Ordering::Relaxed);
                }
                (Outcome::Panic { site, msg }, _) => bad = Some(("panic", format!("panic at {}: {}", site, msg))),
            }
            if let Some((kind, what)) = bad {
                let short = if src.len() > 400 { format!("{}…({} bytes)", &src[..400], src.len()) } else { src.clone() };
                rep.violation(&format!("C12/{}/memory={}/way={}/at={}/device={}", kind, mem, way, at, dn), || what, || json!({"kind": "build_str", "source": src, "source_head": short, "expected": if must_ok { "ok" } else { "err" }, "observed": o.to_json()}));
            }
        }
    });

    // 3. unknown device, second device
    let mut extra: Vec<(String, String)> = vec![
        ("unknown-device".into(), ".device ATmega9999\nnop\n".into()),
        ("unknown-device".into(), ".device NoSuchPart\n".into()),
        // something that is not a device name at all names no device in the table
        ("unknown-device".into(), ".device 8515\nnop\n".into()),
        ("unknown-device".into(), ".device \"ATmega8\"\nnop\n".into()),
        ("unknown-device".into(), ".device ATmega8 + 1\nnop\n".into()),
        ("unknown-device".into(), ".device r16\nnop\n".into()),
        ("unknown-device".into(), ".device low(ATmega8)\nnop\n".into()),
        // two names on one line select two devices
        ("second-device".into(), ".device ATmega48, ATmega88\nnop\n".into()),
        ("second-device".into(), ".device ATmega48, ATmega48\nnop\n".into()),
    ];
    for (a, b) in [("ATmega48", "ATmega48"), ("ATmega48", "ATmega8"), ("ATtiny11", "ATmega2560"), ("ATmega2560", "ATtiny11")] {
        extra.push(("second-device".into(), format!(".device {}\n.device {}\nnop\n", a, b)));
        extra.push(("second-device".into(), format!(".device {}\nnop\n.device {}\n", a, b)));
    }
    for d in devs.iter() {
        extra.push(("second-device".into(), format!(".device {}\n.device {}\n", d.name, d.name)));
    }
    // two different parts whose table rows are identical are still two devices
    for a in devs.iter() {
        for b in devs.iter() {
            if a.name != b.name && (a.flash_words, a.eeprom_size, a.ram_size, a.ram_start, &a.flags) == (b.flash_words, b.eeprom_size, b.ram_size, b.ram_start, &b.flags) {
                extra.push(("second-device".into(), format!(".device {}\nnop\n.device {}\n", a.name, b.name)));
            }
        }
    }
    for (kind, src) in extra.iter() {
        let o = sut::build_str(src);
        evals.fetch_add(1, Ordering::Relaxed);
        if !o.is_err() {
            rep.violation(&format!("C12/{}-accepted", kind), || format!("must fail but: {}", o.to_json()), || json!({"kind": "build_str", "source": src, "expected": "err", "observed": o.to_json()}));
        } else {
            n_err.fetch_add(1, Ordering::Relaxed);
        }
    }

    // 3b. device selection across file boundaries: the first .device in an included file, the
    //     second in the includer, in a sibling include or again in a nested one; and the limits
    //     of a device selected inside an include are the ones enforced
    {
        let scratch = Scratch::new("c12");
        let dir = scratch.path.clone();
        for d in devs.iter() {
            let _ = std::fs::write(dir.join(format!("dev_{}.inc", d.name)), format!("; part selection\n.device {}\n", d.name));
            let _ = std::fs::write(dir.join(format!("nest_{}.inc", d.name)), format!(".include \"dev_{}.inc\"\nnop\n", d.name));
        }
        let others = ["ATmega88", "ATtiny13", "ATmega2560"];
        let cases: Vec<(String, String, String, bool)> = devs
            .iter()
            .flat_map(|d| {
                let other = others.iter().find(|o| **o != d.name).unwrap();
                let mut v = vec![
                    ("second-device-after-include".to_string(), d.name.clone(), format!(".include \"dev_{}.inc\"\n.device {}\nnop\n", d.name, other), false),
                    ("second-device-after-include".to_string(), d.name.clone(), format!(".include \"dev_{}.inc\"\nnop\n.device {}\n", d.name, d.name), false),
                    ("second-device-in-sibling-include".to_string(), d.name.clone(), format!(".include \"dev_{}.inc\"\n.include \"dev_{}.inc\"\n", d.name, other), false),
                    ("second-device-after-nested-include".to_string(), d.name.clone(), format!(".include \"nest_{}.inc\"\n.device {}\n", d.name, other), false),
                    ("include-after-device".to_string(), d.name.clone(), format!(".device {}\n.include \"dev_{}.inc\"\n", other, d.name), false),
                    ("device-from-include-alone".to_string(), d.name.clone(), format!(".include \"nest_{}.inc\"\n.dseg\nram_probe:\n", d.name), true),
                ];
                if d.ram_size > 0 {
                    v.push(("ram-limit-of-included-device".to_string(), d.name.clone(), format!(".include \"dev_{}.inc\"\n.dseg\n.byte {}\n", d.name, d.ram_size + 1), false));
                    v.push(("ram-limit-of-included-device".to_string(), d.name.clone(), format!(".include \"dev_{}.inc\"\n.dseg\n.byte {}\n", d.name, d.ram_size), true));
                }
                v
            })
            .collect();
        cases.par_iter().enumerate().for_each(|(i, (kind, dev, text, must_ok))| {
            let main = dir.join(format!("main_{}.asm", i));
            let _ = std::fs::write(&main, text);
            let o = sut::build_file(main.clone(), Default::default());
            evals.fetch_add(1, Ordering::Relaxed);
            let row = devs.iter().find(|d| &d.name == dev).unwrap();
            let bad = match (&o, *must_ok) {
                (Outcome::Ok(b), true) => {
                    n_ok.fetch_add(1, Ordering::Relaxed);
                    if b.flash_size != row.flash_words || b.eeprom_size != row.eeprom_size || b.ram_size != row.ram_size {
                        Some(format!("a device selected inside an included file is not the one reported: {}/{}/{}", b.flash_size, b.eeprom_size, b.ram_size))
                    } else {
                        None
                    }
                }
                (Outcome::Ok(b), false) => {
                    n_ok.fetch_add(1, Ordering::Relaxed);
                    Some(format!("must fail but builds (reported sizes {}/{}/{})", b.flash_size, b.eeprom_size, b.ram_size))
                }
                (Outcome::Err(e), true) => {
                    n_err.fetch_add(1, Ordering::Relaxed);
                    Some(format!("must build but: {}", e))
                }
                (Outcome::Err(_), false) => {
                    n_err.fetch_add(1, Ordering::Relaxed);
                    None
                }
                (Outcome::Panic { site, msg }, _) => Some(format!("panic at {}: {}", site, msg)),
            };
            if let Some(what) = bad {
                rep.violation(&format!("C12/{}/device={}", kind, dev), || format!("{} :: {}", text.replace('\n', " | "), what), || json!({"kind": "build_str", "source": text, "note": "main file of a build_file run; dev_<D>.inc holds `.device D`, nest_<D>.inc includes dev_<D>.inc", "observed": o.to_json()}));
            }
            let _ = std::fs::remove_file(&main);
        });
        // a shipped part file selects the device: a second .device must still fail
        let shipped = repo_root().join("includes");
        let main = dir.join("main_shipped.asm");
        let _ = std::fs::write(&main, ".include \"m48def.inc\"\n.device ATmega88\n.dseg\n.byte 600\n");
        let mut paths = std::collections::BTreeSet::new();
        paths.insert(shipped);
        let o = sut::build_file(main, paths);
        evals.fetch_add(1, Ordering::Relaxed);
        if o.is_ok() {
            rep.violation("C12/second-device-after-shipped-part-file/device=ATmega48", || format!("`.include \"m48def.inc\"` then `.device ATmega88` must fail but: {}", o.to_json()), || json!({"kind": "build_str", "source": ".include \"m48def.inc\"\n.device ATmega88\n.dseg\n.byte 600\n", "observed": o.to_json()}));
        }
    }

    // 4. shipped part-definition files: the four declared figures = what the tool enforces/reports
    let parts = read_part_files();
    let mut part_checked = 0u64;
    let mut part_unknown: Vec<String> = vec![];
    let by_name: BTreeMap<&str, &DeviceRow> = devs.iter().map(|d| (d.name.as_str(), d)).collect();
    for pf in parts.iter() {
        let row = match by_name.get(pf.device.as_str()) {
            Some(r) => *r,
            None => {
                part_unknown.push(format!("{} ({})", pf.file, pf.device));
                continue;
            }
        };
        // what the tool reports for the device (ties the row to observable behaviour; the limit
        // checks above tie what is reported to what is enforced)
        let o = sut::build_str(&format!(".device {}\n.dseg\nram_probe:\n.cseg\n.dw ram_probe\n", pf.device));
        evals.fetch_add(1, Ordering::Relaxed);
        let (fl, ee, rs, st) = match &o {
            Outcome::Ok(b) => (b.flash_size as u64, b.eeprom_size as u64, b.ram_size as u64, if b.code.len() == 2 { b.code[0] as u64 | (b.code[1] as u64) << 8 } else { u64::MAX }),
            _ => (row.flash_words as u64, row.eeprom_size as u64, row.ram_size as u64, row.ram_start as u64),
        };
        let figures: Vec<(&str, Option<u64>, u64)> = vec![
            ("flash", pf.flash_bytes.map(|b| b / 2), fl),
            ("eeprom", pf.eeprom, ee),
            ("ram_size", pf.sram_size, rs),
            ("ram_start", pf.sram_start, st),
        ];
        for (fig, declared, tool) in figures {
            if let Some(dv) = declared {
                part_checked += 1;
                if dv != tool {
                    rep.violation(
                        &format!("C12/part-file/figure={}/device={}", fig, pf.device),
                        || format!("{} declares {} = {} for {} but the tool enforces/reports {}", pf.file, fig, dv, pf.device, tool),
                        || json!({"kind": "build_str", "source": format!(".device {}\n", pf.device), "part_file": pf.file, "figure": fig, "declared": dv, "tool": tool}),
                    );
                }
            }
        }
    }
    rep.guard(parts.len() >= 50, "fewer than 50 shipped part-definition files found under /repo/includes");
    rep.guard(part_checked >= 100, "fewer than 100 part-file figures compared");
    rep.guard(n_ok.load(Ordering::Relaxed) > 300 && n_err.load(Ordering::Relaxed) > 150, "need both Ok and Err outcomes");
    rep.sample(|| json!({"device": "ATmega48", "memory": "flash", "at": "cap+1", "way": "org+nop", "source": ".device ATmega48\n.org 2048\nnop\n", "expected": "err"}));
    rep.sample(|| json!({"device": "ATtiny13", "memory": "ram", "at": "cap", "way": "several-segments", "source": programs(&caps_of(devs.iter().find(|d| d.name == "ATtiny13")), "ram", 64).last().unwrap().1.clone(), "expected": "ok, ram_filling 64"}));
    rep.sample(|| json!({"part_file": parts[0].file, "device": parts[0].device, "declared": {"flash_bytes": parts[0].flash_bytes, "eeprom": parts[0].eeprom, "sram_size": parts[0].sram_size, "sram_start": parts[0].sram_start}}));
    rep.assume("the device table is the specification for rows without a shipped part file (no frozen copy in the harness)");
    rep.assume("device names are compared as written in the table (letter case of device names is not pinned by the statement)");
    rep.assume("part files whose .device is not in the table are outside the statement and only listed");
    let coverage = cov(json!({
        "evaluations": evals.load(Ordering::Relaxed),
        "distinct_nontrivial": configs.load(Ordering::Relaxed),
        "rule": "every row of the device table and 'no device' x {flash, EEPROM, RAM} x {capacity-1, capacity, capacity+1} x every way of getting there (.org+item, blocks of data, two-word instruction ending at the limit, .byte n, several interleaved segments, instruction lines, lds/sts lines, macro-expanded lines, a full flash next to EEPROM/RAM data placed from a macro) x the way the device is selected (plain line, body of a called macro, selected conditional arm) with expectation Ok/Ok/Err and ram_filling = data extent; reported sizes and RAM start per row; unknown and second .device (in the same file, after an include that selected one, in a sibling or nested include, after a shipped part file), limits of a device selected inside an include; every shipped includes/*def.inc x its four #pragma AVRPART MEMORY figures. distinct_nontrivial = distinct (device, memory, amount, way) limit programs",
        "exhaustive": true,
        "devices": devs.len(),
        "part_files_found": parts.len(),
        "part_file_figures_compared": part_checked,
        "part_files_for_devices_not_in_table": part_unknown,
        "outcomes": {"ok": n_ok.load(Ordering::Relaxed), "err": n_err.load(Ordering::Relaxed)},
        "caps_hit": [],
        "trusted_base": ["harness reader of #pragma AVRPART MEMORY lines", "the device table as specification of capacities"],
    }));
    rep.finish(coverage)
}
