//! C06 — data directives emit exactly the bytes written, little-endian, exact width (E1).

use std::collections::BTreeSet;
use std::sync::atomic::{AtomicU64, Ordering};
use std::sync::Mutex;

use rayon::prelude::*;
use serde_json::json;

use crate::report::{cov, Report, Tier};
use crate::sut::{self, Outcome};

#[derive(Clone, Copy, PartialEq, Eq, Debug)]
enum Dir {
    Db,
    Dw,
    Dd,
    Dq,
}

impl Dir {
    fn name(self) -> &'static str {
        match self {
            Dir::Db => ".db",
            Dir::Dw => ".dw",
            Dir::Dd => ".dd",
            Dir::Dq => ".dq",
        }
    }
    fn width(self) -> usize {
        match self {
            Dir::Db => 1,
            Dir::Dw => 2,
            Dir::Dd => 4,
            Dir::Dq => 8,
        }
    }
    /// legal value range (signed minimum .. unsigned maximum)
    fn range(self) -> (i128, i128) {
        match self {
            Dir::Db => (-128, 255),
            Dir::Dw => (-32768, 65535),
            Dir::Dd => (-(1 << 31), (1 << 32) - 1),
            Dir::Dq => (i64::MIN as i128, i64::MAX as i128),
        }
    }
}

#[derive(Clone, Debug)]
enum Op {
    /// source text and value (None: evaluation itself must fail, e.g. i64 overflow)
    Val(String, Option<i128>),
    Str(String),
}

fn render_i(v: i128) -> String {
    if v == i64::MIN as i128 {
        "-9223372036854775807-1".to_string()
    } else {
        format!("{}", v)
    }
}

const FWD_LABEL_VALUE: i128 = 0x60;

fn alphabet(d: Dir) -> Vec<Op> {
    let (lo, hi) = d.range();
    let mut v = vec![
        Op::Val("0".into(), Some(0)),
        Op::Val("1".into(), Some(1)),
        Op::Val("0x7f".into(), Some(0x7f)),
        Op::Val(render_i(hi), Some(hi)),
        Op::Val("-1".into(), Some(-1)),
        Op::Val(render_i(lo), Some(lo)),
        Op::Val("k_sym".into(), Some(0x41)),
        Op::Val("Fwd_Lbl".into(), Some(FWD_LABEL_VALUE)),
        Op::Val("1+1".into(), Some(2)),
        Op::Str("".into()),
        Op::Str("a".into()),
        Op::Str("ab".into()),
        Op::Str("a,b;c".into()),
        Op::Str("é".into()),
        // strings are emitted as their bytes: a backslash is a byte like any other
        Op::Str("x\\ny\\0".into()),
    ];
    if d == Dir::Dq {
        // one beyond the 64-bit range can only be written as an overflowing expression
        v.push(Op::Val("9223372036854775807+1".into(), None));
        v.push(Op::Val("-9223372036854775807-2".into(), None));
    } else {
        v.push(Op::Val(render_i(hi + 1), Some(hi + 1)));
        v.push(Op::Val(render_i(lo - 1), Some(lo - 1)));
    }
    v
}

/// bytes one directive line contributes, or None = the build must fail
fn emit(d: Dir, ops: &[Op], flash: bool) -> Option<Vec<u8>> {
    let (lo, hi) = d.range();
    let mut out = vec![];
    for o in ops {
        match o {
            Op::Str(s) => {
                if d != Dir::Db {
                    return None;
                }
                out.extend_from_slice(s.as_bytes());
            }
            Op::Val(_, None) => return None,
            Op::Val(_, Some(v)) => {
                if *v < lo || *v > hi {
                    return None;
                }
                let bytes = (*v as i64 as u64).to_le_bytes();
                out.extend_from_slice(&bytes[..d.width()]);
            }
        }
    }
    if flash && d == Dir::Db && out.len() % 2 == 1 {
        out.push(0);
    }
    Some(out)
}

fn line(d: Dir, ops: &[Op]) -> String {
    let parts: Vec<String> = ops
        .iter()
        .map(|o| match o {
            Op::Val(t, _) => t.clone(),
            Op::Str(s) => format!("\"{}\"", s),
        })
        .collect();
    format!("{} {}", d.name(), parts.join(", "))
}

#[derive(Clone, Copy, PartialEq, Eq, Debug)]
enum Seg {
    C,
    E,
    D,
}

fn program(seg: Seg, lines: &[String]) -> String {
    let mut s = String::from(".equ k_sym = 0x41\n");
    s.push_str(match seg {
        Seg::C => ".cseg\n",
        Seg::E => ".eseg\n",
        Seg::D => ".dseg\n",
    });
    for l in lines {
        s.push_str(l);
        s.push('\n');
    }
    // the forward label lives in the data segment; in the dseg case it follows the directive there
    if seg != Seg::D {
        s.push_str(".dseg\n");
    }
    s.push_str("fwd_lbl: .byte 1\n");
    s
}

#[derive(Clone)]
enum SeqItem {
    Data(Dir, Vec<Op>),
    Byte(u32),
}

pub fn run(tier: Tier) -> i32 {
    let rep = Report::new("C06", tier, "exploration");
    let evals = AtomicU64::new(0);
    let n_ok = AtomicU64::new(0);
    let n_err = AtomicU64::new(0);
    let images: Mutex<BTreeSet<Vec<u8>>> = Mutex::new(BTreeSet::new());
    let maxlen = if tier.thorough() { 5 } else { 4 };

    let check = |seg: Seg, lines: Vec<String>, expect: Option<Vec<u8>>, keyhint: String, extra_ram: u32| {
        let src = program(seg, &lines);
        let o = sut::build_str(&src);
        evals.fetch_add(1, Ordering::Relaxed);
        let mut bad: Option<(String, String)> = None;
        match (&expect, &o) {
            (Some(bytes), Outcome::Ok(b)) => {
                n_ok.fetch_add(1, Ordering::Relaxed);
                let (img, other) = if seg == Seg::E { (&b.eeprom, &b.code) } else { (&b.code, &b.eeprom) };
                if img != bytes || !other.is_empty() {
                    bad = Some((format!("C06/wrong-bytes/{}", keyhint), format!("expected {} in the {} image, got code={} eeprom={}", sut::hex_trunc(bytes, 40), if seg == Seg::E { "EEPROM" } else { "flash" }, sut::hex_trunc(&b.code, 40), sut::hex_trunc(&b.eeprom, 40))));
                } else if b.ram_filling != 1 + extra_ram {
                    bad = Some((format!("C06/ram-filling/{}", keyhint), format!("ram_filling = {} but the data segment holds {} byte(s)", b.ram_filling, 1 + extra_ram)));
                } else {
                    images.lock().unwrap().insert(bytes.clone());
                }
            }
            (Some(bytes), Outcome::Err(e)) => {
                n_err.fetch_add(1, Ordering::Relaxed);
                bad = Some((format!("C06/rejected/{}", keyhint), format!("must emit {} but the build fails: {}", sut::hex_trunc(bytes, 40), e)));
            }
            (None, Outcome::Ok(b)) => {
                n_ok.fetch_add(1, Ordering::Relaxed);
                bad = Some((format!("C06/accepted/{}", keyhint), format!("must fail (value does not fit / string in a word directive / wrong segment) but builds: code={} eeprom={}", sut::hex_trunc(&b.code, 40), sut::hex_trunc(&b.eeprom, 40))));
            }
            (None, Outcome::Err(_)) => {
                n_err.fetch_add(1, Ordering::Relaxed);
            }
            (_, Outcome::Panic { site, msg }) => {
                bad = Some((format!("C06/panic/{}", keyhint), format!("panic at {}: {}", site, msg)));
            }
        }
        if let Some((key, what)) = bad {
            rep.violation(&key, || format!("{} :: {}", lines.join(" | "), what), || {
                json!({"kind": "build_str", "source": src, "expected": match &expect { Some(b) => json!({"result":"ok","image": sut::hex(b)}), None => json!({"result":"err (any text)"}) }, "observed": o.to_json()})
            });
        }
    };

    // 1. every operand list of length 1..=maxlen, every directive, every segment
    let mut work: Vec<(Dir, Vec<usize>)> = vec![];
    for d in [Dir::Db, Dir::Dw, Dir::Dd, Dir::Dq] {
        let n = alphabet(d).len();
        let mut lists: Vec<Vec<usize>> = vec![vec![]];
        for _ in 0..maxlen {
            let mut next = vec![];
            for l in &lists {
                for i in 0..n {
                    let mut t = l.clone();
                    t.push(i);
                    next.push(t);
                }
            }
            for l in &next {
                work.push((d, l.clone()));
            }
            lists = next;
        }
    }
    let n_lists = work.len();
    work.par_iter().for_each(|(d, idx)| {
        let alpha = alphabet(*d);
        let ops: Vec<Op> = idx.iter().map(|i| alpha[*i].clone()).collect();
        let l = line(*d, &ops);
        let kinds: BTreeSet<&str> = ops.iter().map(|o| match o { Op::Str(_) => "str", Op::Val(_, Some(v)) if *v < d.range().0 || *v > d.range().1 => "out-of-range", Op::Val(_, None) => "overflow", _ => "val" }).collect();
        let hint = format!("dir={}/operands={}", d.name(), kinds.into_iter().collect::<Vec<_>>().join("+"));
        check(Seg::C, vec![l.clone()], emit(*d, &ops, true), format!("seg=cseg/{}", hint), 0);
        check(Seg::E, vec![l.clone()], emit(*d, &ops, false), format!("seg=eseg/{}", hint), 0);
        check(Seg::D, vec![l.clone()], None, format!("seg=dseg/{}", hint), 0);
    });

    // 2. all sequences of <=3 lines over {.db odd, .db even, .dw, .dd, .dq, .byte n} in cseg/eseg
    let items: Vec<SeqItem> = vec![
        SeqItem::Data(Dir::Db, vec![Op::Val("0x11".into(), Some(0x11))]),
        SeqItem::Data(Dir::Db, vec![Op::Str("abc".into()), Op::Val("7".into(), Some(7)), Op::Val("8".into(), Some(8))]),
        SeqItem::Data(Dir::Db, vec![Op::Str("p\\tq".into())]),
        SeqItem::Data(Dir::Db, vec![Op::Val("0x21".into(), Some(0x21)), Op::Val("0x22".into(), Some(0x22))]),
        SeqItem::Data(Dir::Dw, vec![Op::Val("0x3132".into(), Some(0x3132))]),
        SeqItem::Data(Dir::Dd, vec![Op::Val("0x41424344".into(), Some(0x41424344))]),
        SeqItem::Data(Dir::Dq, vec![Op::Val("0x5152535455565758".into(), Some(0x5152535455565758))]),
        SeqItem::Byte(1),
        SeqItem::Byte(3),
    ];
    let mut seqs: Vec<Vec<usize>> = vec![];
    {
        let mut frontier: Vec<Vec<usize>> = vec![vec![]];
        for _ in 0..(if tier.thorough() { 6 } else { 4 }) {
            let mut next = vec![];
            for s in &frontier {
                for i in 0..items.len() {
                    let mut t = s.clone();
                    t.push(i);
                    next.push(t);
                }
            }
            seqs.extend(next.iter().cloned());
            frontier = next;
        }
    }
    let n_seqs = seqs.len();
    seqs.par_iter().for_each(|s| {
        for seg in [Seg::C, Seg::E, Seg::D] {
            let mut lines = vec![];
            let mut expect: Option<Vec<u8>> = Some(vec![]);
            let mut ram = 0u32;
            for i in s {
                match &items[*i] {
                    SeqItem::Data(d, ops) => {
                        lines.push(line(*d, ops));
                        let e = if seg == Seg::D { None } else { emit(*d, ops, seg == Seg::C) };
                        expect = match (expect, e) {
                            (Some(mut a), Some(b)) => {
                                a.extend(b);
                                Some(a)
                            }
                            _ => None,
                        };
                    }
                    SeqItem::Byte(n) => {
                        lines.push(format!(".byte {}", n));
                        match seg {
                            Seg::C => expect = None, // reservations are not allowed in flash
                            Seg::E => {
                                if let Some(a) = expect.as_mut() {
                                    a.extend(std::iter::repeat(0u8).take(*n as usize));
                                }
                            }
                            Seg::D => ram += n,
                        }
                    }
                }
            }
            // the lines carry trailing comments in rotation (nothing, a path ending in a backslash,
            // an opener of a block comment, a quote): a comment ends with its line and means nothing
            let salt = s.iter().fold(3usize, |h, i| h.wrapping_mul(7).wrapping_add(*i));
            let lines: Vec<String> = lines
                .into_iter()
                .enumerate()
                .map(|(k, l)| match (salt + k) % 5 {
                    1 => format!("{} ; table at C:\\DATA\\", l),
                    2 => format!("{} // see /* below", l),
                    3 => format!("{} ; \"quoted", l),
                    _ => l,
                })
                .collect();
            let hint = format!("seg={:?}/sequence", seg);
            check(seg, lines, expect, hint, if seg == Seg::D { ram } else { 0 });
        }
    });

    // 3. what a string may contain: every printable ASCII character (and some beyond ASCII) as a
    //    run of each length of a ladder, alone and between other operands, in flash and EEPROM
    let n_strings = AtomicU64::new(0);
    {
        let mut chars: Vec<String> = (0x20u8..0x7f).filter(|c| *c != b'"').map(|c| (c as char).to_string()).collect();
        for c in ["\u{e9}", "\u{fc}", "\u{20ac}", "\u{1f600}", "\t"] {
            chars.push(c.to_string());
        }
        let ladder: Vec<usize> = if tier.thorough() { vec![1, 2, 3, 8, 63, 64, 65, 199, 200, 201, 202, 250, 255, 256, 257, 1000, 4000] } else { vec![1, 2, 3, 64, 200, 201, 250, 1000] };
        let mut sw: Vec<(String, usize, usize)> = vec![];
        for c in chars.iter() {
            for n in ladder.iter() {
                for place in 0..3usize {
                    if place > 0 && *n != 3 && *n != 201 {
                        continue;
                    }
                    sw.push((c.clone(), *n, place));
                }
            }
        }
        // all of them in one string
        sw.push((chars.concat(), 1, 0));
        sw.push((chars.concat(), 3, 1));
        sw.par_iter().for_each(|(c, n, place)| {
            let st = Op::Str(c.repeat(*n));
            let ops: Vec<Op> = match place {
                0 => vec![st],
                1 => vec![Op::Val("1".into(), Some(1)), st, Op::Val("2".into(), Some(2))],
                _ => vec![Op::Str("ab".into()), Op::Val("7".into(), Some(7)), st],
            };
            let l = line(Dir::Db, &ops);
            let hint = format!("dir=.db/string-of={}/place={}", if c.chars().count() == 1 { format!("U+{:04X}", c.chars().next().unwrap() as u32) } else { "all-characters".to_string() }, place);
            n_strings.fetch_add(2, Ordering::Relaxed);
            check(Seg::C, vec![l.clone()], emit(Dir::Db, &ops, true), format!("seg=cseg/{}", hint), 0);
            check(Seg::E, vec![l.clone()], emit(Dir::Db, &ops, false), format!("seg=eseg/{}", hint), 0);
        });
    }
    // 3b. literals at and beyond the 64-bit range in every radix: 2^63 and above cannot be
    //     written (no directive may take them for a small negative number)
    let n_biglit = AtomicU64::new(0);
    {
        let ones64 = format!("0b{}", "1".repeat(64));
        let top64 = format!("0b1{}", "0".repeat(63));
        let lits: Vec<(String, Option<i128>)> = vec![
            ("0x7FFFFFFFFFFFFFFF".into(), Some(i64::MAX as i128)),
            ("$7fffffffffffffff".into(), Some(i64::MAX as i128)),
            ("0xFFFFFFFFFFFFFFFF".into(), None),
            ("$FFFFFFFFFFFFFFFF".into(), None),
            ("0xFFFFFFFFFFFFFF80".into(), None),
            ("0xFFFFFFFFFFFF8000".into(), None),
            ("$FFFFFFFF80000000".into(), None),
            ("0x8000000000000000".into(), None),
            (ones64, None),
            (top64, None),
            ("18446744073709551615".into(), None),
            ("9223372036854775808".into(), None),
            ("01777777777777777777777".into(), None),
            ("0x10000000000000000".into(), None),
        ];
        let mut lw: Vec<(Dir, usize, usize)> = vec![];
        for d in [Dir::Db, Dir::Dw, Dir::Dd, Dir::Dq] {
            for li in 0..lits.len() {
                for place in 0..2usize {
                    lw.push((d, li, place));
                }
            }
        }
        lw.par_iter().for_each(|(d, li, place)| {
            let (t, v) = &lits[*li];
            let lit = Op::Val(t.clone(), *v);
            let ops: Vec<Op> = if *place == 0 { vec![lit] } else { vec![Op::Val("1".into(), Some(1)), lit] };
            let l = line(*d, &ops);
            n_biglit.fetch_add(2, Ordering::Relaxed);
            let hint = format!("dir={}/literal={}", d.name(), if t.len() > 24 { format!("{}...({} chars)", &t[..6], t.len()) } else { t.clone() });
            check(Seg::C, vec![l.clone()], emit(*d, &ops, true), format!("seg=cseg/{}", hint), 0);
            check(Seg::E, vec![l.clone()], emit(*d, &ops, false), format!("seg=eseg/{}", hint), 0);
        });
    }
    // 3c. values just inside and just outside each width, written as expressions of every shape:
    //     the check is on the value, not on how it is written
    let n_exprs = AtomicU64::new(0);
    {
        let mut ew: Vec<(Dir, i128, usize)> = vec![];
        for d in [Dir::Db, Dir::Dw, Dir::Dd] {
            let (lo, hi) = d.range();
            for v in [lo - 1, lo, hi, hi + 1, lo - 128, hi + 256] {
                for shape in 0..8usize {
                    ew.push((d, v, shape));
                }
            }
        }
        ew.par_iter().for_each(|(d, v, shape)| {
            let v = *v;
            let abs = |x: i128| if x < 0 { format!("(0-{})", -x) } else { format!("{}", x) };
            let text = match shape {
                0 => format!("~{}", abs(-v - 1)),
                1 => format!("~0x{:X}", if -v - 1 >= 0 { -v - 1 } else { return }),
                2 => format!("-{}", abs(-v)),
                3 => format!("({})", abs(v)),
                4 => format!("{} + 1", abs(v - 1)),
                5 => format!("{} - 1", abs(v + 1)),
                6 => format!("~(~{})", abs(v)),
                _ => format!("{} * 1", abs(v)),
            };
            let (lo, hi) = d.range();
            let ops = vec![Op::Val(text.clone(), Some(v))];
            let l = line(*d, &ops);
            n_exprs.fetch_add(2, Ordering::Relaxed);
            let hint = format!("dir={}/expression-shape={}/value={}", d.name(), shape, if v < lo { "below" } else if v > hi { "above" } else { "inside" });
            check(Seg::C, vec![l.clone()], emit(*d, &ops, true), format!("seg=cseg/{}", hint), 0);
            check(Seg::E, vec![l.clone()], emit(*d, &ops, false), format!("seg=eseg/{}", hint), 0);
        });
    }
    // 4. symbols whose values do not fit the narrower widths: a label beyond 64 K words, large and
    //    negative constants, a .set variable - bare and inside expressions
    let n_bigsym = AtomicU64::new(0);
    {
        let syms: Vec<(&str, i128)> = vec![
            ("far_l", 0x10002), ("far_l+0", 0x10002), ("far_l-0x10000", 2), ("far_l & 0xffff", 2), ("low(far_l)", 2), ("-far_l", -0x10002),
            ("big_k", 0x12345), ("neg_k", -40000), ("huge_k", 0x1_0000_0001), ("var_s", 70000), ("near_l", 0x10000), ("near_l-1", 0xffff), ("far_l*65536", 0x1_0002_0000),
        ];
        let mut bw: Vec<(Dir, usize, usize)> = vec![];
        for d in [Dir::Db, Dir::Dw, Dir::Dd, Dir::Dq] {
            for si in 0..syms.len() {
                for place in 0..2usize {
                    bw.push((d, si, place));
                }
            }
        }
        bw.par_iter().for_each(|(d, si, place)| {
            let (text, val) = syms[*si];
            let sym = Op::Val(text.to_string(), Some(val));
            let ops: Vec<Op> = if *place == 0 { vec![sym] } else { vec![Op::Val("1".into(), Some(1)), sym] };
            // flash: near_l at 0x10000, a pad word, far_l at 0x10002 where the data line stands
            let src = format!(".equ big_k = 0x12345\n.equ neg_k = -40000\n.equ huge_k = 0x100000001\n.set var_s = 70000\n.org 0x10000\nnear_l: .dw 0, 0\nfar_l: {}\n", line(*d, &ops));
            let o = sut::build_str(&src);
            evals.fetch_add(1, Ordering::Relaxed);
            n_bigsym.fetch_add(1, Ordering::Relaxed);
            let want = emit(*d, &ops, true);
            let key_hint = format!("dir={}/symbol={}", d.name(), text.split(|ch: char| !ch.is_ascii_alphanumeric() && ch != '_').find(|t| t.ends_with("_l") || t.ends_with("_k") || t.ends_with("_s")).unwrap_or(text));
            let bad: Option<(String, String)> = match (&want, &o) {
                (Some(bytes), Outcome::Ok(b)) => {
                    let off = 0x10002 * 2;
                    if b.code.len() < off || &b.code[off..] != &bytes[..] {
                        Some((format!("C06/wrong-bytes/{}", key_hint), format!("expected {} at word 0x10002, got {}", sut::hex(bytes), if b.code.len() >= off { sut::hex_trunc(&b.code[off..], 24) } else { "a shorter image".to_string() })))
                    } else {
                        None
                    }
                }
                (Some(bytes), Outcome::Err(e)) => Some((format!("C06/rejected/{}", key_hint), format!("must emit {} but the build fails: {}", sut::hex(bytes), e))),
                (None, Outcome::Ok(b)) => Some((format!("C06/accepted/{}", key_hint), format!("the value {} does not fit {} but the build succeeds and emits {}", val, d.name(), if b.code.len() >= 0x20004 { sut::hex_trunc(&b.code[0x20004..], 24) } else { String::new() }))),
                (None, Outcome::Err(_)) => None,
                (_, Outcome::Panic { site, msg }) => Some((format!("C06/panic/{}", key_hint), format!("panic at {}: {}", site, msg))),
            };
            if let Some((key, what)) = bad {
                rep.violation(&key, || format!("{} :: {}", line(*d, &ops), what), || json!({"kind": "build_str", "source": src, "expected": match &want { Some(b) => json!({"result": "ok", "bytes_at_word_0x10002": sut::hex(b)}), None => json!({"result": "err (any text)"}) }, "observed": if let Outcome::Ok(b) = &o { json!({"result": "ok", "code_len": b.code.len()}) } else { o.to_json() }}));
            }
        });
    }

    // 5. a .set variable that is re-assigned between two data lines, the assignment standing in
    //    any of the three segments (it is a line of the program, wherever it stands); and one
    //    symbol that is expensive to resolve used several times in one line (each operand is an
    //    evaluation of its own)
    let n_varseg = AtomicU64::new(0);
    {
        let mut vw: Vec<(Dir, bool, usize, i128)> = vec![];
        for d in [Dir::Db, Dir::Dw, Dir::Dd, Dir::Dq] {
            let (_, hi) = d.range();
            for flash in [true, false] {
                for aseg in 0..3usize {
                    for x in [5i128, 0, hi, hi + 1, -1] {
                        if x <= i64::MAX as i128 {
                            vw.push((d, flash, aseg, x));
                        }
                    }
                }
            }
        }
        vw.par_iter().for_each(|(d, flash, aseg, x)| {
            let data_seg = if *flash { ".cseg" } else { ".eseg" };
            let assign_seg = [".cseg", ".dseg", ".eseg"][*aseg];
            let a_ops = vec![Op::Val("v_q".into(), Some(1))];
            let b_ops = vec![Op::Val("v_q".into(), Some(*x)), Op::Val("v_q - 0".into(), Some(*x))];
            let src = format!(".set v_q = 1\n{}\n{}\n{}\n.set v_q = {}\n{}\n{}\n", data_seg, line(*d, &a_ops), assign_seg, x, data_seg, line(*d, &b_ops));
            let o = sut::build_str(&src);
            evals.fetch_add(1, Ordering::Relaxed);
            n_varseg.fetch_add(1, Ordering::Relaxed);
            let want = match (emit(*d, &a_ops, *flash), emit(*d, &b_ops, *flash)) {
                (Some(mut a), Some(b)) => {
                    a.extend(b);
                    Some(a)
                }
                _ => None,
            };
            let bad: Option<(&str, String)> = match (&want, &o) {
                (Some(w), Outcome::Ok(b)) => {
                    let img = if *flash { &b.code } else { &b.eeprom };
                    if img == w { None } else { Some(("wrong-bytes", format!("expected {} but the image is {}", sut::hex(w), sut::hex_trunc(img, 40)))) }
                }
                (Some(w), Outcome::Err(e)) => Some(("rejected", format!("must emit {} but the build fails: {}", sut::hex(w), e))),
                (None, Outcome::Ok(_)) => Some(("accepted", format!("the value {} does not fit {} but the build succeeds", x, d.name()))),
                (None, Outcome::Err(_)) => None,
                (_, Outcome::Panic { site, msg }) => Some(("panic", format!("panic at {}: {}", site, msg))),
            };
            if let Some((kind, what)) = bad {
                rep.violation(&format!("C06/{}/variable-reassigned-in={}/dir={}/data-in={}", kind, assign_seg, d.name(), data_seg), || format!("{} :: {}", src.replace('\n', " / "), what), || json!({"kind": "build_str", "source": src, "observed": o.to_json()}));
            }
        });
        // the expensive symbol: m_16 = m_15 | m_15, ... , m_0 = 1 (65535 resolutions per use)
        let mut chain = String::from(".equ m_0 = 1\n");
        for i in 1..=16 {
            chain.push_str(&format!(".equ m_{} = m_{} | m_{}\n", i, i - 1, i - 1));
        }
        let cw: Vec<(Dir, bool, usize)> = [Dir::Db, Dir::Dw, Dir::Dd, Dir::Dq].into_iter().flat_map(|d| [true, false].into_iter().flat_map(move |f| (1..=4usize).map(move |n| (d, f, n)))).collect();
        cw.par_iter().for_each(|(d, flash, n)| {
            let ops: Vec<Op> = (0..*n).map(|_| Op::Val("m_16".into(), Some(1))).collect();
            let src = format!("{}{}\n{}\n", chain, if *flash { ".cseg" } else { ".eseg" }, line(*d, &ops));
            let o = sut::build_str(&src);
            evals.fetch_add(1, Ordering::Relaxed);
            n_varseg.fetch_add(1, Ordering::Relaxed);
            let want = emit(*d, &ops, *flash).unwrap();
            let ok = matches!(&o, Outcome::Ok(b) if (if *flash { &b.code } else { &b.eeprom }) == &want);
            if !ok {
                rep.violation(&format!("C06/expensive-symbol-used-{}-times/dir={}", n, d.name()), || format!("`{}` with m_16 = m_15 | m_15, ..., m_0 = 1 must emit {} but gives {}", line(*d, &ops), sut::hex(&want), o.brief()), || json!({"kind": "build_str", "source": src, "observed": o.to_json()}));
            }
        });
    }

    let nimg = images.lock().unwrap().len();
    // twin lines: two data lines of one program that differ only in the letter case inside a
    // string or a character literal (where case is data), in both orders, repeated, in flash and
    // in the EEPROM, at top level and in the body of a macro that is called twice
    let mut n_twins = 0u64;
    {
        // (line with the lower-case literal, with the upper-case one, bytes of each without padding)
        let le = |v: u64, n: usize| -> Vec<u8> { v.to_le_bytes()[..n].to_vec() };
        let twins: Vec<(String, String, Vec<u8>, Vec<u8>, bool)> = vec![
            (".db \"a\"".into(), ".db \"A\"".into(), b"a".to_vec(), b"A".to_vec(), true),
            (".db \"yes\"".into(), ".db \"YES\"".into(), b"yes".to_vec(), b"YES".to_vec(), true),
            (".db \"0123456789abcdef\"".into(), ".db \"0123456789ABCDEF\"".into(), b"0123456789abcdef".to_vec(), b"0123456789ABCDEF".to_vec(), true),
            (".db 1, \"on\", 2".into(), ".db 1, \"ON\", 2".into(), vec![1, b'o', b'n', 2], vec![1, b'O', b'N', 2], true),
            (".db 'k'".into(), ".db 'K'".into(), vec![b'k'], vec![b'K'], true),
            (".db 'k', \"Mixed\"".into(), ".db 'K', \"mixed\"".into(), [b"k".to_vec(), b"Mixed".to_vec()].concat(), [b"K".to_vec(), b"mixed".to_vec()].concat(), true),
            (".dw 'z'".into(), ".dw 'Z'".into(), le(b'z' as u64, 2), le(b'Z' as u64, 2), false),
            (".dd 'q'".into(), ".dd 'Q'".into(), le(b'q' as u64, 4), le(b'Q' as u64, 4), false),
            (".dq 'w'".into(), ".dq 'W'".into(), le(b'w' as u64, 8), le(b'W' as u64, 8), false),
            (".dw 'z', 0xab".into(), ".dw 'Z', 0xAB".into(), [le(b'z' as u64, 2), le(0xab, 2)].concat(), [le(b'Z' as u64, 2), le(0xab, 2)].concat(), false),
        ];
        for (l_lo, l_up, b_lo, b_up, is_db) in twins.iter() {
            for order in [[0usize, 1, 0, 1], [1, 0, 0, 1], [0, 0, 1, 1], [1, 1, 0, 0]] {
                for seg in ["cseg", "eseg"] {
                    for in_macro in [false, true] {
                        let mut body = String::new();
                        let mut want: Vec<u8> = vec![];
                        for w in order {
                            body.push_str(if w == 0 { l_lo } else { l_up });
                            body.push('\n');
                            want.extend(if w == 0 { b_lo.iter() } else { b_up.iter() });
                            // in flash every .db line is padded to a whole word
                            if *is_db && seg == "cseg" && want.len() % 2 == 1 {
                                want.push(0);
                            }
                        }
                        let src = if in_macro {
                            want = [want.clone(), want].concat();
                            format!(".macro twin_m\n.{}\n{}.cseg\n.endm\ntwin_m\ntwin_m\n", seg, body)
                        } else {
                            format!(".{}\n{}", seg, body)
                        };
                        let o = sut::build_str(&src);
                        evals.fetch_add(1, Ordering::Relaxed);
                        n_twins += 1;
                        let good = match &o {
                            Outcome::Ok(b) => if seg == "cseg" { b.code == want && b.eeprom.is_empty() } else { b.eeprom == want && b.code.is_empty() },
                            _ => false,
                        };
                        if !good {
                            rep.violation(&format!("C06/twin-lines/directive={}/segment={}/in-macro={}", l_lo.split(' ').next().unwrap_or(""), seg, in_macro), || format!("lines that differ only in the letter case inside a literal (`{}` / `{}`) must give {} but {}", l_lo, l_up, sut::hex(&want), match &o { Outcome::Ok(b) => format!("code {} eeprom {}", sut::hex(&b.code), sut::hex(&b.eeprom)), other => other.brief() }), || json!({"kind": "build_str", "source": src, "expected": {"result": "ok", "image": sut::hex(&want)}, "observed": o.to_json()}));
                        }
                    }
                }
            }
        }
    }
    rep.guard(n_ok.load(Ordering::Relaxed) > 1000 && n_err.load(Ordering::Relaxed) > 1000, "need both Ok and Err outcomes");
    rep.guard(nimg > 500, "fewer than 500 distinct images");
    rep.sample(|| { let a = alphabet(Dir::Dw); let ops = vec![a[3].clone(), a[6].clone(), a[4].clone()]; json!({"source": program(Seg::C, &[line(Dir::Dw, &ops)]), "expected_flash": emit(Dir::Dw, &ops, true).map(|b| sut::hex(&b))}) });
    rep.sample(|| { let a = alphabet(Dir::Db); let ops = vec![a[12].clone(), a[13].clone()]; json!({"source": program(Seg::E, &[line(Dir::Db, &ops)]), "expected_eeprom": emit(Dir::Db, &ops, false).map(|b| sut::hex(&b))}) });
    rep.sample(|| { let a = alphabet(Dir::Db); let ops = vec![a[15].clone()]; json!({"source": program(Seg::C, &[line(Dir::Db, &ops)]), "expected": "err"}) });
    rep.assume("an empty operand list is not generated (the statement does not say whether `.db` alone is valid)");
    rep.assume("legal ranges: .db -128..255, .dw -32768..65535, .dd -2^31..2^32-1, .dq any i64 (overflowing expressions must fail)");
    let coverage = cov(json!({
        "evaluations": evals.load(Ordering::Relaxed),
        "twin_line_programs": n_twins,
        "distinct_nontrivial": nimg,
        "rule": "4 directives x every operand list of length 1..4 (thorough 5) over a 17-symbol alphabet (0, 1, 0x7f, width max, max+1, -1, width min, min-1, .equ symbol, forward label, expression, \"\", \"a\", \"ab\", \"a,b;c\", \"é\", a string with backslashes) x {cseg, eseg, dseg}; plus every sequence of <=4 (thorough 6) lines over {odd .db, 5-byte .db, even .db, .dw, .dd, .dq, .byte 1, .byte 3} in each segment; plus .db strings made of a run (8 lengths up to 1000, thorough 17 up to 4000) of each printable ASCII character and of 5 others, alone and between other operands, in flash and EEPROM; plus every directive with symbols whose value does not fit the narrower widths (a label beyond 64 K words, large, negative and 33-bit constants, a .set variable, bare and in expressions); distinct_nontrivial = distinct non-empty-or-empty expected images that were confirmed",
        "exhaustive": true,
        "operand_lists": n_lists,
        "line_sequences": n_seqs,
        "string_content_programs": n_strings.load(Ordering::Relaxed),
        "boundary_values_as_expressions_programs": n_exprs.load(Ordering::Relaxed),
        "literals_at_and_beyond_64_bits_programs": n_biglit.load(Ordering::Relaxed),
        "large_symbol_value_programs": n_bigsym.load(Ordering::Relaxed),
        "variable_reassigned_in_any_segment_and_expensive_symbol_programs": n_varseg.load(Ordering::Relaxed),
        "outcomes": {"ok": n_ok.load(Ordering::Relaxed), "err": n_err.load(Ordering::Relaxed)},
        "caps_hit": [],
        "trusted_base": ["harness reference emitter (element order, little-endian, width, one pad byte per odd .db line in flash only)"],
    }));
    rep.finish(coverage)
}
