//! C15 — a failed build names the offending line; messages are kept in order (E3).

use std::collections::BTreeMap;
use std::sync::atomic::{AtomicU64, Ordering};
use std::sync::Mutex;

use rayon::prelude::*;
use serde_json::json;

use crate::corpus;
use crate::isa;
use crate::lexer::{self, Line};
use crate::report::{cov, Report, Tier};
use crate::sut::{self, Outcome};

/// leading comment lines, so that line numbers are far from every numeric literal of the corpus
const SHIFT: usize = 700;

#[derive(Clone, Copy, PartialEq, Eq, Debug)]
enum Ctx {
    /// needs the code segment
    Code,
    /// code or EEPROM segment
    Data,
    Any,
}

struct Fault {
    name: &'static str,
    lines: &'static [&'static str],
    ctx: Ctx,
}

const FAULTS: [Fault; 26] = [
    // both operands of && and || are evaluated (C05): an undefined symbol on either side is an error
    Fault { name: "undefined-symbol-right-of-false-and", lines: &["ldi r16, 0 && undefined_sym_q"], ctx: Ctx::Code },
    Fault { name: "undefined-symbol-right-of-true-or", lines: &[".dw 1 || undefined_sym_q"], ctx: Ctx::Data },
    Fault { name: "undefined-symbol-in-if-right-of-false-and", lines: &[".if 0 && undefined_sym_q", ".endif"], ctx: Ctx::Any },
    Fault { name: "syntax-error", lines: &["!! this is not assembly"], ctx: Ctx::Any },
    Fault { name: "unknown-mnemonic-or-macro", lines: &["frobnicate r1, r2"], ctx: Ctx::Code },
    Fault { name: "register-of-wrong-class", lines: &["ldi r1, 5"], ctx: Ctx::Code },
    Fault { name: "operand-of-wrong-kind", lines: &["ldi 5, r16"], ctx: Ctx::Code },
    Fault { name: "immediate-out-of-range", lines: &["ldi r16, 999"], ctx: Ctx::Code },
    Fault { name: "branch-out-of-range", lines: &["brne pc+900"], ctx: Ctx::Code },
    Fault { name: "missing-operand", lines: &["ldi r16"], ctx: Ctx::Code },
    Fault { name: "undefined-symbol-in-instruction", lines: &["ldi r16, undefined_sym_q"], ctx: Ctx::Code },
    Fault { name: "undefined-symbol-in-db", lines: &[".db undefined_sym_q"], ctx: Ctx::Data },
    Fault { name: "undefined-symbol-in-dw", lines: &[".dw 1, undefined_sym_q"], ctx: Ctx::Data },
    Fault { name: "undefined-symbol-in-set", lines: &[".set set_q = undefined_sym_q + 1"], ctx: Ctx::Any },
    Fault { name: "undefined-symbol-in-if", lines: &[".if undefined_sym_q > 1", ".endif"], ctx: Ctx::Any },
    Fault { name: "duplicate-label", lines: &["dup_lbl_q:"], ctx: Ctx::Any },
    Fault { name: "db-value-out-of-range", lines: &[".db 1, 999"], ctx: Ctx::Data },
    Fault { name: "dw-value-out-of-range", lines: &[".dw 99999"], ctx: Ctx::Data },
    Fault { name: "unknown-directive", lines: &[".frobnicate 1"], ctx: Ctx::Any },
    Fault { name: "error-directive", lines: &[".error \"boom\""], ctx: Ctx::Any },
    // a .set variable has no value before its first assignment (the programs end with `.set late_set_q = 7`)
    Fault { name: "set-variable-used-before-its-first-assignment-in-instruction", lines: &["ldi r16, late_set_q"], ctx: Ctx::Code },
    Fault { name: "set-variable-used-before-its-first-assignment-in-dw", lines: &[".dw late_set_q"], ctx: Ctx::Data },
    Fault { name: "set-variable-used-before-its-first-assignment-in-set", lines: &[".set other_set_q = late_set_q + 1"], ctx: Ctx::Any },
    // names of more than 250 characters: the message still names the line
    Fault { name: "undefined-symbol-with-a-long-name", lines: &["ldi r16, q_name00_name01_name02_name03_name04_name05_name06_name07_name08_name09_name10_name11_name12_name13_name14_name15_name16_name17_name18_name19_name20_name21_name22_name23_name24_name25_name26_name27_name28_name29_name30_name31_name32_name33_name34_name35_end"], ctx: Ctx::Code },
    Fault { name: "undefined-symbol-with-a-long-name-in-dw", lines: &[".dw 1, q_name00_name01_name02_name03_name04_name05_name06_name07_name08_name09_name10_name11_name12_name13_name14_name15_name16_name17_name18_name19_name20_name21_name22_name23_name24_name25_name26_name27_name28_name29_name30_name31_name32_name33_name34_name35_end + 1"], ctx: Ctx::Data },
    Fault { name: "unknown-mnemonic-with-a-long-name", lines: &["q_name00_name01_name02_name03_name04_name05_name06_name07_name08_name09_name10_name11_name12_name13_name14_name15_name16_name17_name18_name19_name20_name21_name22_name23_name24_name25_name26_name27_name28_name29_name30_name31_name32_name33_name34_name35_end r1, r2"], ctx: Ctx::Code },
];

/// last line of every fault program: the first (and only) assignment of a variable
/// (behind it a line comment that holds the closer of a block comment; the leading comment lines
/// hold openers: comments of one kind mean nothing inside comments of another)
const EPILOGUE: &str = ".set late_set_q = 7\n// */ end of the debug block\n; */\n";

fn has_number_token(text: &str, n: usize) -> bool {
    let needle = n.to_string();
    let b = text.as_bytes();
    let mut i = 0;
    while let Some(p) = text[i..].find(&needle) {
        let st = i + p;
        let en = st + needle.len();
        let before_ok = st == 0 || !b[st - 1].is_ascii_digit();
        let after_ok = en >= b.len() || !b[en].is_ascii_digit();
        if before_ok && after_ok {
            return true;
        }
        i = st + 1;
    }
    false
}

/// segment in force before each line (and after the last), and whether the position is live
fn contexts(lines: &[Line]) -> Vec<(char, bool)> {
    let mut seg = 'c';
    let mut out = vec![];
    for l in lines {
        let live = !l.in_macro_body && !l.maybe_skipped && l.directive.as_deref() != Some("endm") && l.directive.as_deref() != Some("endmacro");
        // inserting *before* a line that closes or continues a conditional / macro would put the
        // fault inside that construct: only positions before plain live lines are used
        let closes = matches!(l.directive.as_deref(), Some("endif") | Some("else") | Some("elif") | Some("endm") | Some("endmacro"));
        out.push((seg, live && !closes));
        if live {
            match l.directive.as_deref() {
                Some("cseg") => seg = 'c',
                Some("dseg") => seg = 'd',
                Some("eseg") => seg = 'e',
                _ => {}
            }
        }
    }
    let ended = lines.iter().any(|l| l.directive.as_deref() == Some("exit") && !l.maybe_skipped);
    out.push((seg, !ended));
    out
}

pub fn run(tier: Tier) -> i32 {
    let rep = Report::new("C15", tier, "exploration");
    let known = |m: &str| isa::known_mnemonic(m);
    let progs = corpus::programs();
    let evals = AtomicU64::new(0);
    let named = AtomicU64::new(0);
    let fault_use: Mutex<BTreeMap<&'static str, u64>> = Mutex::new(BTreeMap::new());
    let distinct_err: Mutex<std::collections::BTreeSet<String>> = Mutex::new(std::collections::BTreeSet::new());
    let prefix: String = {
        let mut s = String::new();
        for i in 0..SHIFT - 1 {
            // (some end in a backslash: a comment is a comment, and a line is a line)
            s.push_str(&format!("{} leading comment line {}{}\n", if i % 101 == 7 { "// /*" } else if i % 103 == 9 { "; /*" } else { ";" }, if i % 2 == 0 { "a" } else { "b" }, if i % 97 == 13 { " see C:\\avr\\" } else { "" }));
        }
        // the one earlier definition the duplicate-label fault collides with
        s.push_str("dup_lbl_q:\n");
        s
    };
    let dup_first_line = SHIFT;

    // 0. every corpus program must build with the prefix (otherwise "exactly one line at fault" fails)
    let mut usable: Vec<(&'static str, &'static str)> = vec![];
    for (n, s) in progs.iter() {
        let o = sut::build_str(&format!("{}{}{}", prefix, s, EPILOGUE));
        if o.is_ok() {
            usable.push((n, s));
        } else {
            rep.violation("C15/corpus-program-does-not-build", || format!("a valid corpus program does not build: {}: {}", n, o.to_json()), || json!({"kind": "build_str", "source": s}));
        }
    }
    let mut work: Vec<(usize, usize, usize)> = vec![]; // (program, position, fault)
    for (pi, (_, s)) in usable.iter().enumerate() {
        let lines = lexer::lex(s, &known);
        let ctx = contexts(&lines);
        for (pos, (seg, live)) in ctx.iter().enumerate() {
            if !live {
                continue;
            }
            for (fi, f) in FAULTS.iter().enumerate() {
                let ok = match f.ctx {
                    Ctx::Code => *seg == 'c',
                    Ctx::Data => *seg == 'c' || *seg == 'e',
                    Ctx::Any => true,
                };
                if ok {
                    work.push((pi, pos, fi));
                }
            }
        }
    }
    work.par_iter().for_each(|(pi, pos, fi)| {
        let (pname, src) = usable[*pi];
        let f = &FAULTS[*fi];
        let mut text = prefix.clone();
        let src_lines: Vec<&str> = src.lines().collect();
        for l in &src_lines[..*pos] {
            text.push_str(l);
            text.push('\n');
        }
        let fault_line = SHIFT + pos + 1;
        for (li, l) in f.lines.iter().enumerate() {
            text.push_str(l);
            // the faulty line may carry text beyond ASCII (a comment, or the garbage itself): the
            // two variants put two-byte characters on odd and on even byte offsets
            if li == 0 {
                let accents = "\u{e9}".repeat(40);
                let v = (pi + pos + fi) % 5;
                if f.name == "syntax-error" && v > 0 {
                    // garbage beyond ASCII right behind the first characters
                    text.truncate(text.len() - l.len());
                    text.push_str(&format!("!!{}{} \u{2014} {}", " ".repeat(v - 1), accents, accents));
                } else if v > 0 {
                    text.push_str(&format!("{};{} \u{b5}s", " ".repeat(v), accents));
                }
            }
            text.push('\n');
        }
        for l in &src_lines[*pos..] {
            text.push_str(l);
            text.push('\n');
        }
        text.push_str(EPILOGUE);
        let o = sut::build_str(&text);
        evals.fetch_add(1, Ordering::Relaxed);
        *fault_use.lock().unwrap().entry(f.name).or_insert(0) += 1;
        let mut bad: Option<(&str, String)> = None;
        match &o {
            Outcome::Err(e) => {
                let ok = has_number_token(e, fault_line) || (f.name == "duplicate-label" && has_number_token(e, dup_first_line));
                if ok {
                    named.fetch_add(1, Ordering::Relaxed);
                    let generic: String = e.chars().map(|c| if c.is_ascii_digit() { '#' } else { c }).take(60).collect();
                    distinct_err.lock().unwrap().insert(generic);
                } else {
                    bad = Some(("no-line", format!("the error does not name line {}: {}", fault_line, e)));
                }
            }
            Outcome::Ok(_) => bad = Some(("accepted", format!("the faulty line {} is accepted", fault_line))),
            Outcome::Panic { site, msg } => bad = Some(("panic", format!("panic at {}: {}", site, msg))),
        }
        if let Some((kind, what)) = bad {
            rep.violation(&format!("C15/{}/fault={}", kind, f.name), || format!("program '{}', fault `{}` inserted as line {}: {}", pname, f.lines[0], fault_line, what), || {
                json!({"kind": "build_str", "source": text, "fault": f.name, "fault_line": fault_line, "expected": format!("err whose text contains the number {}", fault_line), "observed": o.to_json()})
            });
        }
    });

    // the operand faults of every mnemonic (one must-reject line per mnemonic and kind of departure
    // from a legal operand tuple, from C04's enumeration), inserted into code-only programs
    let n_per_mnemonic = AtomicU64::new(0);
    {
        use crate::checks::c04;
        use crate::isa::Core;
        let cases = c04::gen_cases(Tier::Quick, Core::Full);
        let mut picked: BTreeMap<(String, &'static str), String> = BTreeMap::new();
        for c in cases.iter() {
            if c.uses_alias || c.cat == "legal" || crate::icase::is_relative(c.ic.mnem) {
                continue;
            }
            if isa::encode(Core::Full, c.ic.mnem, &c.ic.ops).is_some() {
                continue;
            }
            picked.entry((c.ic.mnem.to_string(), c.cat)).or_insert_with(|| c.text.clone());
        }
        // (lenient sibling forms of ld/st are not faults: leave those mnemonics' kind confusions out)
        let faults: Vec<(String, &'static str, String)> = picked.into_iter().filter(|((m, cat), _)| !(["ld", "ldd", "st", "std"].contains(&m.as_str()) && (*cat == "kind" || *cat == "numeric"))).map(|((m, cat), t)| (m, cat, t)).collect();
        let hosts: Vec<(&str, &str)> = usable.iter().filter(|(n, _)| ["arith", "one-register", "immediates"].contains(n)).cloned().collect();
        let mut pw: Vec<(usize, usize, usize)> = vec![];
        for (hi, (_, src)) in hosts.iter().enumerate() {
            let nlines = src.lines().count();
            let positions: Vec<usize> = if tier.thorough() { (0..=nlines).collect() } else { vec![0, nlines / 2, nlines] };
            for pos in positions {
                for fi in 0..faults.len() {
                    pw.push((hi, pos, fi));
                }
            }
        }
        pw.par_iter().for_each(|(hi, pos, fi)| {
            let (hname, src) = hosts[*hi];
            let (mnem, cat, ftext) = &faults[*fi];
            let src_lines: Vec<&str> = src.lines().collect();
            let mut text = prefix.clone();
            for l in &src_lines[..*pos] {
                text.push_str(l);
                text.push('\n');
            }
            let fault_line = SHIFT + pos + 1;
            text.push_str("    ");
            text.push_str(ftext);
            text.push('\n');
            for l in &src_lines[*pos..] {
                text.push_str(l);
                text.push('\n');
            }
            let o = sut::build_str(&text);
            evals.fetch_add(1, Ordering::Relaxed);
            n_per_mnemonic.fetch_add(1, Ordering::Relaxed);
            let bad: Option<(&str, String)> = match &o {
                Outcome::Err(e) if has_number_token(e, fault_line) => None,
                Outcome::Err(e) => Some(("no-line", format!("the error does not name line {}: {}", fault_line, e))),
                Outcome::Ok(_) => Some(("accepted", format!("the faulty line {} is accepted", fault_line))),
                Outcome::Panic { .. } => None, // C16's business
            };
            if let Some((kind, what)) = bad {
                rep.violation(&format!("C15/{}/operand-fault/mnem={}/departure={}", kind, mnem, cat), || format!("program '{}', `{}` inserted as line {}: {}", hname, ftext, fault_line, what), || {
                    json!({"kind": "build_str", "source": text, "fault_line": fault_line, "expected": format!("err whose text contains the number {}", fault_line), "observed": o.to_json()})
                });
            }
        });
    }
    // faults inside the body of a macro that is called (once, and twice): the error names the body
    // line or the calling line
    let n_in_macro = AtomicU64::new(0);
    {
        let body = ["ldi r16, 1", "mov r1, r16", ".dw 7", "lab_in_macro_q: nop", "ldi r17, low(0x1234)"];
        let mut mw: Vec<(usize, usize, usize)> = vec![]; // fault, body position, number of calls
        for (fi, f) in FAULTS.iter().enumerate() {
            if f.lines.len() != 1 {
                continue;
            }
            for pos in 0..=body.len() {
                for calls in [1usize, 2] {
                    mw.push((fi, pos, calls));
                }
            }
        }
        mw.par_iter().for_each(|(fi, pos, calls)| {
            let f = &FAULTS[*fi];
            // a label in a body that is expanded twice is a duplicate of its own: one call then
            if *calls == 2 && (*pos <= 3 || f.name == "duplicate-label") {
                return;
            }
            let mut lines: Vec<String> = (0..40).map(|i| format!("; filler {}", i)).collect();
            lines.push("dup_lbl_q:".into());
            let dup_line = lines.len();
            lines.push("nop".into());
            lines.push(".macro fault_m".into());
            let mut fault_line = 0usize;
            for (i, b) in body.iter().enumerate() {
                if i == *pos {
                    lines.push(f.lines[0].to_string());
                    fault_line = lines.len();
                }
                if *calls == 2 && b.starts_with("lab_in_macro_q") {
                    lines.push("nop".into());
                } else {
                    lines.push(b.to_string());
                }
            }
            if *pos == body.len() {
                lines.push(f.lines[0].to_string());
                fault_line = lines.len();
            }
            lines.push(".endm".into());
            lines.push("ldi r18, 2".into());
            let mut call_lines = vec![];
            for _ in 0..*calls {
                lines.push("fault_m".into());
                call_lines.push(lines.len());
                lines.push("ldi r18, 3".into());
            }
            let text = lines.join("\n") + "\n";
            let o = sut::build_str(&text);
            evals.fetch_add(1, Ordering::Relaxed);
            n_in_macro.fetch_add(1, Ordering::Relaxed);
            let bad: Option<(&str, String)> = match &o {
                Outcome::Err(e) => {
                    let named = has_number_token(e, fault_line) || call_lines.iter().any(|c| has_number_token(e, *c)) || (f.name == "duplicate-label" && has_number_token(e, dup_line));
                    if named {
                        None
                    } else {
                        Some(("no-line", format!("the error names neither the body line {} nor a calling line {:?}: {}", fault_line, call_lines, e)))
                    }
                }
                Outcome::Ok(_) => Some(("accepted", format!("the faulty body line {} is assembled by the call(s) on {:?} but the build succeeds", fault_line, call_lines))),
                Outcome::Panic { site, msg } => Some(("panic", format!("panic at {}: {}", site, msg))),
            };
            if let Some((kind, what)) = bad {
                rep.violation(&format!("C15/{}-in-macro-body/fault={}", kind, f.name), || format!("fault `{}` as line {} of a macro body called {} time(s): {}", f.lines[0], fault_line, calls, what), || {
                    json!({"kind": "build_str", "source": text, "fault": f.name, "fault_line": fault_line, "calling_lines": call_lines, "expected": "err naming the body line or a calling line", "observed": o.to_json()})
                });
            }
        });
    }
    // a syntax error ON a structural line (garbage behind `.endm`, `.endif`, `.else`, `.if ...`,
    // `.macro ...`): the build fails and names that line, whether the line is reached while
    // assembling, while skipping an unselected arm, or while collecting a macro body
    let n_structural = AtomicU64::new(0);
    {
        let skeleton: [&str; 19] = [
            ".equ k_sk = 1",
            ".macro mm_sk",
            "ldi r16, 1",
            ".endm",
            "mm_sk",
            ".if k_sk == 1",
            "ldi r17, 2",
            ".else",
            "ldi r17, 3",
            ".endif",
            ".if k_sk == 0",
            "ldi r18, 4",
            ".else",
            "ldi r18, 5",
            ".endif",
            ".ifdef nothing_defined_sk",
            "ldi r19, 6",
            ".endif",
            "ldi r20, 7",
        ];
        // (not ` name name`: the operand grammar of directives is lenient about blank-separated
        // names, and what a syntax error is, is for the grammar to say)
        let garbage = [" $$$", " )(", " \"unterminated", " ,", " = = 1"];
        let spell: [fn(&str) -> String; 4] = [
            |l| l.to_string(),
            |l| l.to_uppercase(),
            |l| if l == ".endm" { ".endmacro".to_string() } else { l.replacen('.', "#", 1) },
            |l| format!("lb_sk_{}: {}", l.len(), l),
        ];
        let mut work: Vec<(usize, usize, usize)> = vec![];
        for (li, l) in skeleton.iter().enumerate() {
            if l.starts_with('.') && !l.starts_with(".equ") {
                for g in 0..garbage.len() {
                    for sp in 0..spell.len() {
                        work.push((li, g, sp));
                    }
                }
            }
        }
        // the skeleton itself must build in every spelling of each single line
        work.par_iter().for_each(|(li, g, sp)| {
            let l = skeleton[*li];
            // `#` spells conditional directives only; a label in front of .macro / .endm is not
            // part of this skeleton
            if *sp == 2 && (l.starts_with(".macro") ) || *sp == 3 && (l.starts_with(".macro") || l.starts_with(".endm")) {
                return;
            }
            let written = spell[*sp](l);
            let mk = |suffix: &str| -> (String, usize) {
                let mut lines: Vec<String> = (0..30).map(|i| format!("; filler {}", i)).collect();
                let mut at = 0;
                for (i, sl) in skeleton.iter().enumerate() {
                    if i == *li {
                        lines.push(format!("{}{}", written, suffix));
                        at = lines.len();
                    } else {
                        lines.push(sl.to_string());
                    }
                }
                (lines.join("\n") + "\n", at)
            };
            let (clean, _) = mk("");
            if !sut::build_str(&clean).is_ok() {
                // this spelling of the line is not valid here: nothing to decide
                return;
            }
            let (text, fault_line) = mk(garbage[*g]);
            let o = sut::build_str(&text);
            evals.fetch_add(1, Ordering::Relaxed);
            n_structural.fetch_add(1, Ordering::Relaxed);
            let bad: Option<(&str, String)> = match &o {
                Outcome::Err(e) if has_number_token(e, fault_line) => None,
                Outcome::Err(e) => Some(("no-line", format!("the error does not name line {}: {}", fault_line, e))),
                Outcome::Ok(b) => Some(("accepted", format!("the build succeeds (image {})", sut::hex_trunc(&b.code, 24)))),
                Outcome::Panic { site, msg } => Some(("panic", format!("panic at {}: {}", site, msg))),
            };
            if let Some((kind, what)) = bad {
                let dname: String = l.trim_start_matches('.').chars().take_while(|c| c.is_ascii_alphabetic()).collect();
                rep.violation(&format!("C15/{}/malformed-structural-line/directive={}/skeleton-line={}", kind, dname, li + 1), || format!("`{}{}` as line {} (the line is valid without the trailing text): {}", written, garbage[*g], fault_line, what), || {
                    json!({"kind": "build_str", "source": text, "fault_line": fault_line, "expected": format!("err whose text contains the number {}", fault_line), "observed": o.to_json()})
                });
            }
        });
    }
    rep.guard(n_structural.load(Ordering::Relaxed) >= 100, "fewer than 100 malformed structural lines were decided");
    // messages: all 4^5 placements over the five slots of the skeleton
    let slot_text = |kind: usize, slot: usize| -> Option<String> {
        match kind {
            0 => None,
            1 => Some(format!(".message \"mk{}q\"", slot)),
            2 => Some(format!(".warning \"mk{}q\"", slot)),
            _ => Some(format!(".error \"mk{}q\"", slot)),
        }
    };
    let n_msg = AtomicU64::new(0);
    (0..4096usize * 4).into_par_iter().for_each(|code_style| {
        let (code, style) = (code_style % 4096, code_style / 4096);
        // how the lines around the slots are written: 0 plain; 1 a label in front of every
        // conditional directive; 2 a glued comment with a colon behind it; 3 comment lines that
        // end in a backslash before the slots
        let cond = |text: &str, n: usize| -> String {
            match style {
                1 => format!("cl_{}: {}", n, text),
                2 => format!("{};note:{}", text, n),
                _ => text.to_string(),
            }
        };
        let kinds: Vec<usize> = (0..6).map(|i| (code >> (2 * i)) & 3).collect();
        // skeleton: (text, slot or none, assembled?)
        let mut lines: Vec<String> = vec![];
        let mut slot_line: Vec<Option<usize>> = vec![None; 6];
        let mut add = |s: String| {
            lines.push(s);
        };
        for i in 0..12 {
            add(if style == 3 && i % 3 == 2 { "; header \\".into() } else { "; header".into() });
        }
        add("ldi r16, 1".into());
        // slot 5 sits in the body of a macro that is called once, after everything else
        let macro_slot = slot_text(kinds[5], 5);
        let mut put_slot = |lines: &mut Vec<String>, slot: usize, slot_line: &mut Vec<Option<usize>>| {
            if let Some(t) = slot_text(kinds[slot], slot) {
                lines.push(t);
                slot_line[slot] = Some(lines.len());
            }
        };
        put_slot(&mut lines, 0, &mut slot_line);
        lines.push(cond(".if 1", 1));
        lines.push("ldi r16, 2".into());
        put_slot(&mut lines, 1, &mut slot_line);
        lines.push(cond(".else", 2));
        put_slot(&mut lines, 2, &mut slot_line);
        lines.push("ldi r16, 3".into());
        lines.push(cond(".endif", 3));
        lines.push(cond(".if 0", 4));
        lines.push("ldi r16, 4".into());
        lines.push(cond(".else", 5));
        lines.push("ldi r16, 5".into());
        put_slot(&mut lines, 3, &mut slot_line);
        lines.push(cond(".endif", 6));
        if style == 3 {
            lines.push("; /-----\\".into());
        }
        lines.push("ldi r16, 6".into());
        put_slot(&mut lines, 4, &mut slot_line);
        lines.push(".macro msg_mac".into());
        lines.push("ldi r16, 7".into());
        if let Some(t) = macro_slot.clone() {
            lines.push(t);
            slot_line[5] = Some(lines.len());
        }
        lines.push(".endm".into());
        lines.push("msg_mac".into());
        let macro_call_line = lines.len();
        let text = lines.join("\n") + "\n";
        let assembled = [true, true, false, true, true, true];
        let first_error = (0..6).find(|s| assembled[*s] && kinds[*s] == 3);
        let o = sut::build_str(&text);
        n_msg.fetch_add(1, Ordering::Relaxed);
        evals.fetch_add(1, Ordering::Relaxed);
        let mut bad: Option<(&str, String)> = None;
        match (&o, first_error) {
            (Outcome::Err(e), Some(s)) => {
                let ln = slot_line[s].unwrap();
                // inside the macro either the body line or the calling line may be named
                if !has_number_token(e, ln) && !(s == 5 && has_number_token(e, macro_call_line)) {
                    bad = Some(("error-directive-no-line", format!(".error on line {} is assembled but the failure does not name that line: {}", ln, e)));
                }
            }
            (Outcome::Ok(_), Some(s)) => bad = Some(("error-directive-ignored", format!(".error in assembled slot {} does not fail the build", s))),
            (Outcome::Err(e), None) => bad = Some(("message-fails-build", format!("no .error is assembled but the build fails: {}", e))),
            (Outcome::Ok(b), None) => {
                let want_code: Vec<u8> = [1u8, 2, 5, 6, 7].iter().flat_map(|k| vec![0x00 | *k, 0xe0]).collect();
                // the macro slot's message: present exactly once; its place in the list is not
                // pinned (source order of the body or of the call) and it is left out of the order check
                let macro_marker = "mk5q";
                let macro_msgs = b.messages.iter().filter(|m| m.contains(macro_marker)).count();
                let want_macro = if kinds[5] == 1 || kinds[5] == 2 { 1 } else { 0 };
                let others: Vec<String> = b.messages.iter().filter(|m| !m.contains(macro_marker)).cloned().collect();
                let b = &crate::sut::Built { messages: others, ..b.clone() };
                if macro_msgs != want_macro {
                    bad = Some(("message-list", format!("the message of the called macro appears {} time(s), expected {}", macro_msgs, want_macro)));
                }
                let expected: Vec<(usize, &str, usize)> = (0..5).filter(|s| assembled[*s] && (kinds[*s] == 1 || kinds[*s] == 2)).map(|s| (s, if kinds[s] == 1 { "message" } else { "warning" }, slot_line[s].unwrap())).collect();
                if bad.is_some() {
                } else if b.code != want_code {
                    bad = Some(("message-changes-image", format!("image {} differs from the message-free program's {}", sut::hex(&b.code), sut::hex(&want_code))));
                } else if b.messages.len() != expected.len() {
                    bad = Some(("message-list", format!("{} messages reported, {} .message/.warning lines are assembled: {:?}", b.messages.len(), expected.len(), b.messages)));
                } else {
                    for (m, (s, _, ln)) in b.messages.iter().zip(expected.iter()) {
                        if !m.contains(&format!("mk{}q", s)) {
                            bad = Some(("message-order", format!("messages are not in source order: {:?}", b.messages)));
                            break;
                        }
                        if !has_number_token(m, *ln) {
                            bad = Some(("message-line-number", format!("message `{}` does not carry its line number {}", m, ln)));
                            break;
                        }
                    }
                }
            }
            (Outcome::Panic { site, msg }, _) => bad = Some(("panic", format!("panic at {}: {}", site, msg))),
        }
        if let Some((kind, what)) = bad {
            rep.violation(&format!("C15/{}/style={}", kind, ["plain", "labelled-directives", "glued-comments", "backslash-comment-lines"][style]), || format!("slots {:?}: {}", kinds, what), || json!({"kind": "build_str", "source": text, "observed": o.to_json()}));
        }
    });
    // a second skeleton with .elif chains: an arm behind the selected one is never assembled, however
    // its condition reads
    let n_msg_b = AtomicU64::new(0);
    (0..4096usize * 4).into_par_iter().for_each(|code_style| {
        let (code, style) = (code_style % 4096, code_style / 4096);
        let cond = |text: &str, n: usize| -> String {
            match style {
                1 => format!("cm_{}: {}", n, text),
                2 => format!("{};note:{}", text, n),
                _ => text.to_string(),
            }
        };
        let kinds: Vec<usize> = (0..6).map(|i| (code >> (2 * i)) & 3).collect();
        let mut lines: Vec<String> = (0..12).map(|i| if style == 3 && i % 3 == 2 { "; header \\".to_string() } else { "; header".to_string() }).collect();
        let mut slot_line: Vec<Option<usize>> = vec![None; 6];
        let put = |lines: &mut Vec<String>, slot: usize, slot_line: &mut Vec<Option<usize>>| {
            if let Some(t) = slot_text(kinds[slot], slot) {
                lines.push(t);
                slot_line[slot] = Some(lines.len());
            }
        };
        lines.push("ldi r16, 1".into());
        put(&mut lines, 0, &mut slot_line);
        lines.push(cond(".if 0", 1));
        lines.push("ldi r16, 2".into());
        put(&mut lines, 1, &mut slot_line);
        lines.push(cond(".elif 1", 2));
        lines.push("ldi r16, 3".into());
        put(&mut lines, 2, &mut slot_line);
        lines.push(cond(".elif 1", 3));
        put(&mut lines, 3, &mut slot_line);
        lines.push("ldi r16, 4".into());
        lines.push(cond(".else", 4));
        put(&mut lines, 4, &mut slot_line);
        lines.push("ldi r16, 5".into());
        lines.push(cond(".endif", 5));
        lines.push(cond(".if 1", 6));
        lines.push("ldi r16, 6".into());
        lines.push(cond(".elif 1", 7));
        put(&mut lines, 5, &mut slot_line);
        lines.push(cond(".endif", 8));
        lines.push("ldi r16, 7".into());
        let text = lines.join("\n") + "\n";
        let assembled = [true, false, true, false, false, false];
        let first_error = (0..6).find(|s| assembled[*s] && kinds[*s] == 3);
        let o = sut::build_str(&text);
        n_msg_b.fetch_add(1, Ordering::Relaxed);
        evals.fetch_add(1, Ordering::Relaxed);
        let bad: Option<(&str, String)> = match (&o, first_error) {
            (Outcome::Err(e), Some(sl)) => {
                let ln = slot_line[sl].unwrap();
                if has_number_token(e, ln) { None } else { Some(("error-directive-no-line", format!(".error on line {} is assembled but the failure does not name that line: {}", ln, e))) }
            }
            (Outcome::Ok(_), Some(sl)) => Some(("error-directive-ignored", format!(".error in assembled slot {} does not fail the build", sl))),
            (Outcome::Err(e), None) => Some(("message-fails-build", format!("no .error is assembled but the build fails: {}", e))),
            (Outcome::Ok(b), None) => {
                let want_code: Vec<u8> = [1u8, 3, 6, 7].iter().flat_map(|k| vec![*k, 0xe0]).collect();
                let expected: Vec<(usize, usize)> = (0..6).filter(|s| assembled[*s] && (kinds[*s] == 1 || kinds[*s] == 2)).map(|s| (s, slot_line[s].unwrap())).collect();
                if b.code != want_code {
                    Some(("message-changes-image", format!("image {} differs from {}", sut::hex(&b.code), sut::hex(&want_code))))
                } else if b.messages.len() != expected.len() {
                    Some(("message-list", format!("{} messages reported, {} .message/.warning lines are assembled: {:?}", b.messages.len(), expected.len(), b.messages)))
                } else {
                    b.messages.iter().zip(expected.iter()).find_map(|(m, (sl, ln))| {
                        if !m.contains(&format!("mk{}q", sl)) {
                            Some(("message-order", format!("messages are not in source order: {:?}", b.messages)))
                        } else if !has_number_token(m, *ln) {
                            Some(("message-line-number", format!("message `{}` does not carry its line number {}", m, ln)))
                        } else {
                            None
                        }
                    })
                }
            }
            (Outcome::Panic { site, msg }, _) => Some(("panic", format!("panic at {}: {}", site, msg))),
        };
        if let Some((kind, what)) = bad {
            rep.violation(&format!("C15/{}/elif-skeleton/style={}", kind, ["plain", "labelled-directives", "glued-comments", "backslash-comment-lines"][style]), || format!("slots {:?}: {}", kinds, what), || json!({"kind": "build_str", "source": text, "observed": o.to_json()}));
        }
    });
    // long sources: the line number is a number, not a 16-bit (or 8-bit) field. Every fault on
    // lines around 2^8, 2^15, 2^16 and 2^17 of a source of comment, blank and nop lines, and
    // messages there with their own numbers
    let n_far = AtomicU64::new(0);
    {
        let targets: Vec<usize> = if tier.thorough() { vec![255, 256, 257, 32767, 32768, 32769, 65535, 65536, 65537, 65600, 70001, 131071, 131072, 131073, 200003] } else { vec![256, 32768, 65535, 65536, 65537, 65999, 131073] };
        let mut fw: Vec<(usize, usize)> = vec![];
        for (fi, _) in FAULTS.iter().enumerate() {
            for t in targets.iter() {
                fw.push((fi, *t));
            }
        }
        let filler = |n: usize, out: &mut String| {
            for i in 0..n {
                out.push_str(match i % 4 { 0 => "; far\n", 1 => "\n", 2 => "    nop\n", _ => "// far\n" });
            }
        };
        fw.par_iter().for_each(|(fi, target)| {
            let f = &FAULTS[*fi];
            let mut text = String::with_capacity(target * 8);
            text.push_str("dup_lbl_q:\n");
            filler(target - 2, &mut text);
            // fault on line `target`
            for l in f.lines.iter() {
                text.push_str(l);
                text.push('\n');
            }
            text.push_str("    nop\n");
            text.push_str(EPILOGUE);
            let o = sut::build_str(&text);
            evals.fetch_add(1, Ordering::Relaxed);
            n_far.fetch_add(1, Ordering::Relaxed);
            let bad: Option<(&str, String)> = match &o {
                Outcome::Err(e) if has_number_token(e, *target) || (f.name == "duplicate-label" && has_number_token(e, 1)) => None,
                Outcome::Err(e) => Some(("no-line", format!("the error does not name line {}: {}", target, e))),
                Outcome::Ok(_) => Some(("accepted", format!("the faulty line {} is accepted", target))),
                Outcome::Panic { site, msg } => Some(("panic", format!("panic at {}: {}", site, msg))),
            };
            if let Some((kind, what)) = bad {
                rep.violation(&format!("C15/{}/far-line/fault={}", kind, f.name), || format!("fault `{}` on line {} of a long source: {}", f.lines[0], target, what), || {
                    json!({"kind": "build_str", "source_is": format!("`dup_lbl_q:`, then {} lines cycling `; far` / empty / `    nop` / `// far`, then the fault line(s), `    nop`, and the epilogue", target - 2), "fault_lines": f.lines, "epilogue": EPILOGUE, "fault_line": target, "observed": o.to_json()})
                });
            }
        });
        // messages on far lines: own numbers, source order, same image
        let far_msgs: Vec<usize> = targets.iter().copied().filter(|t| *t > 300).collect();
        let mut text = String::new();
        let mut plain = String::new();
        let mut line = 1usize;
        let mut expected: Vec<(String, usize)> = vec![];
        for (i, t) in far_msgs.iter().enumerate() {
            filler(t - line, &mut text);
            filler(t - line, &mut plain);
            let marker = format!("farmk{}q", i);
            text.push_str(&format!(".{} \"{}\"\n", if i % 2 == 0 { "message" } else { "warning" }, marker));
            plain.push('\n');
            expected.push((marker, *t));
            line = t + 1;
        }
        text.push_str("    nop\n");
        plain.push_str("    nop\n");
        let (o, op) = (sut::build_str(&text), sut::build_str(&plain));
        evals.fetch_add(2, Ordering::Relaxed);
        n_far.fetch_add(1, Ordering::Relaxed);
        let bad: Option<(&str, String)> = match (&o, &op) {
            (Outcome::Ok(b), Outcome::Ok(bp)) => {
                if b.code != bp.code {
                    Some(("message-changes-image", "the image differs from the message-free program's".to_string()))
                } else if b.messages.len() != expected.len() {
                    Some(("message-list", format!("{} messages reported for {} .message/.warning lines: {:?}", b.messages.len(), expected.len(), b.messages)))
                } else {
                    b.messages.iter().zip(expected.iter()).find_map(|(m, (mk, ln))| {
                        if !m.contains(mk.as_str()) {
                            Some(("message-order", format!("messages are not in source order: {:?}", b.messages)))
                        } else if !has_number_token(m, *ln) {
                            Some(("message-line-number", format!("message `{}` does not carry its line number {}", m, ln)))
                        } else {
                            None
                        }
                    })
                }
            }
            (a, b) => Some(("far-messages-do-not-build", format!("{} / {}", a.brief(), b.brief()))),
        };
        if let Some((kind, what)) = bad {
            rep.violation(&format!("C15/{}/far-line", kind), || format!(".message / .warning on lines {:?} of a long source: {}", far_msgs, what), || json!({"kind": "build_str", "source_is": "filler lines cycling `; far` / empty / `    nop` / `// far` with a .message (even index) or .warning (odd index) \"farmk<i>q\" on each listed line, then `    nop`", "lines": far_msgs, "observed": o.to_json()}));
        }
    }
    rep.guard(n_far.load(Ordering::Relaxed) > 100, "fewer than 100 far-line programs");
    let fu = fault_use.lock().unwrap().clone();
    for f in FAULTS.iter() {
        rep.guard(fu.get(f.name).copied().unwrap_or(0) > 20, &format!("fault kind {} was injected at fewer than 20 positions", f.name));
    }
    rep.guard(usable.len() >= 20, "fewer than 20 usable corpus programs");
    rep.sample(|| json!({"fault": FAULTS[4].name, "inserted_line_text": FAULTS[4].lines[0], "program": usable[0].0, "leading_comment_lines": SHIFT, "expected": "Err whose text contains the line number of the inserted line"}));
    rep.sample(|| json!({"message_skeleton_slots": ["top level", "taken .if arm", "untaken .else arm", "taken .else arm", "after .endif"], "each_slot": ["nothing", ".message", ".warning", ".error"], "sixth_slot": "body of a macro that is called", "placements": 4096}));
    rep.assume("'names that line's number' is decided by a decimal token match on the error text; the corpus keeps numeric literals away from the line-number range (lines are shifted by 700 comment lines)");
    rep.assume("in the corpus programs faults are inserted only at live positions (not inside macro bodies, conditional constructs or after .exit), instruction faults only in the code segment; faults inside a macro body are exercised with a dedicated program (every single-line fault at every body position, the macro called once or twice), where the body line or a calling line may be named");
    rep.assume("for a duplicate label either occurrence may be named");
    let coverage = cov(json!({
        "evaluations": evals.load(Ordering::Relaxed),
        "distinct_nontrivial": work.len(),
        "rule": "every corpus program x every live line position x 17 kinds of single-line fault (inserted as one line, the rest valid): the build must fail and the error text must contain the decimal token of that line; plus all 4^6 placements of nothing/.message/.warning/.error over six slots (top level, taken arm, untaken arm, taken .else arm, after .endif, body of a called macro), each in four spellings of the surrounding lines (plain; a label in front of every conditional directive; a glued comment with a colon behind every conditional directive; comment lines ending in a backslash). distinct_nontrivial = distinct (program, position, fault) triples",
        "exhaustive": true,
        "programs": usable.len(),
        "fault_positions": fu,
        "errors_naming_the_line": named.load(Ordering::Relaxed),
        "distinct_error_shapes": distinct_err.lock().unwrap().len(),
        "message_placements": n_msg.load(Ordering::Relaxed),
        "operand_faults_of_every_mnemonic_programs": n_per_mnemonic.load(Ordering::Relaxed),
        "message_placements_in_the_elif_skeleton": n_msg_b.load(Ordering::Relaxed),
        "faults_inside_a_called_macro_body": n_in_macro.load(Ordering::Relaxed),
        "malformed_structural_lines": n_structural.load(Ordering::Relaxed),
        "far_line_programs": n_far.load(Ordering::Relaxed),
        "caps_hit": [],
        "trusted_base": ["harness lexer for liveness/segment context", "decimal token match"],
    }));
    rep.finish(coverage)
}
