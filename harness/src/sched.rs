//! E4 — controlled scheduler: real OS threads, exactly one runnable at a time (baton passing on a
//! mutex/condvar); a scheduling point is every call of the `verif_hooks::point(tag)` hook
//! compiled into avra-rs (plus thread start and finish). Exploration is stateless DFS by
//! re-execution over choice prefixes with a preemption bound (iterative context bounding).

use std::cell::Cell;
use std::sync::{Condvar, Mutex};
use std::time::Duration;

#[derive(Clone, Debug, PartialEq, Eq)]
pub struct PointRec {
    /// thread that was running when the point was reached (None: initial decision)
    pub thread: Option<usize>,
    pub tag: &'static str,
    pub n_enabled: usize,
    /// the running thread could have continued (so choosing another one is a preemption)
    pub running_enabled: bool,
    pub chosen: usize,
}

#[derive(Default)]
struct Inner {
    active: bool,
    running: Option<usize>,
    finished: Vec<bool>,
    arrived: usize,
    prefix: Vec<usize>,
    points: Vec<PointRec>,
    diverged: bool,
    stuck: bool,
    gran: Gran,
}

/// which hook tags are scheduling points
#[derive(Clone, Copy, Debug, PartialEq, Eq, Default)]
pub enum Gran {
    /// build phases and .device/.include only
    #[default]
    Coarse,
    /// every hook point
    Fine,
    /// build phases, .device/.include and the listed per-item tags
    Tags(&'static [&'static str]),
}

impl Gran {
    pub fn name(self) -> String {
        match self {
            Gran::Coarse => "coarse".into(),
            Gran::Fine => "fine".into(),
            Gran::Tags(t) => format!("coarse+{}", t.join("+")),
        }
    }
    pub fn from_name(n: &str) -> Gran {
        match n {
            "coarse" => Gran::Coarse,
            "coarse+pass0.item" => Gran::Tags(&["pass0.item"]),
            "coarse+expr.resolve" => Gran::Tags(&["expr.resolve"]),
            _ => Gran::Fine,
        }
    }
}

static SCHED: Mutex<Option<Inner>> = Mutex::new(None);
static CV: Condvar = Condvar::new();

thread_local! {
    static TID: Cell<Option<usize>> = Cell::new(None);
}

fn tag_selected(gran: Gran, tag: &str) -> bool {
    match gran {
        // (the points inside expression evaluation - one per symbol resolution - are only used
        // where a configuration asks for them)
        Gran::Fine => tag != "expr.resolve",
        Gran::Coarse => tag.starts_with("build.") || tag.starts_with("directive."),
        Gran::Tags(t) => tag.starts_with("build.") || tag.starts_with("directive.") || t.contains(&tag),
    }
}

/// make the scheduling decision at a point; `me` = the thread at the point (None initially),
/// `me_enabled` = whether it can continue
fn decide(inner: &mut Inner, me: Option<usize>, me_enabled: bool, tag: &'static str) {
    let mut enabled: Vec<usize> = vec![];
    if let (Some(m), true) = (me, me_enabled) {
        enabled.push(m);
    }
    for (i, f) in inner.finished.iter().enumerate() {
        if !*f && Some(i) != me {
            enabled.push(i);
        }
    }
    if enabled.is_empty() {
        inner.running = None;
        return;
    }
    let pos = inner.points.len();
    let mut choice = if pos < inner.prefix.len() { inner.prefix[pos] } else { 0 };
    if choice >= enabled.len() {
        // a divergence while replaying a prefix is a hard error (reported by the driver)
        inner.diverged = true;
        choice = 0;
    }
    inner.points.push(PointRec { thread: me, tag, n_enabled: enabled.len(), running_enabled: me.is_some() && me_enabled, chosen: choice });
    inner.running = Some(enabled[choice]);
}

fn wait_for_turn(me: usize) {
    let mut g = SCHED.lock().unwrap();
    loop {
        let mine = g.as_ref().map(|i| i.running == Some(me) || !i.active).unwrap_or(true);
        if mine {
            return;
        }
        let (ng, to) = CV.wait_timeout(g, Duration::from_secs(10)).unwrap();
        g = ng;
        if to.timed_out() {
            if let Some(i) = g.as_mut() {
                i.stuck = true;
                i.active = false;
            }
            CV.notify_all();
            return;
        }
    }
}

/// the hook installed into avra-rs
thread_local! {
    /// symbol resolutions seen by this thread (every execution runs on fresh threads)
    static RESOLUTIONS: Cell<u64> = Cell::new(0);
}

/// a scheduling point at every 8192nd symbol resolution of a thread: evaluations of tens of
/// thousands of resolutions get a handful of points
const RESOLVE_STRIDE: u64 = 8192;

pub fn hook(tag: &'static str) {
    let me = match TID.with(|t| t.get()) {
        Some(m) => m,
        None => return,
    };
    if tag == "expr.resolve" {
        let n = RESOLUTIONS.with(|c| {
            c.set(c.get() + 1);
            c.get()
        });
        if n % RESOLVE_STRIDE != 0 {
            return;
        }
    }
    {
        let mut g = SCHED.lock().unwrap();
        let inner = match g.as_mut() {
            Some(i) if i.active => i,
            _ => return,
        };
        if !tag_selected(inner.gran, tag) {
            return;
        }
        decide(inner, Some(me), true, tag);
        CV.notify_all();
    }
    wait_for_turn(me);
}

pub struct RunRec {
    pub points: Vec<PointRec>,
    pub diverged: bool,
    pub stuck: bool,
}

impl RunRec {
    pub fn choices(&self) -> Vec<usize> {
        self.points.iter().map(|p| p.chosen).collect()
    }
    pub fn preemptions(&self) -> usize {
        self.points.iter().filter(|p| p.running_enabled && p.chosen != 0).count()
    }
    /// a compact signature of the interleaving: sequence of (thread, tag) at which control moved
    pub fn signature(&self) -> u64 {
        use std::hash::{Hash, Hasher};
        let mut h = std::collections::hash_map::DefaultHasher::new();
        for p in &self.points {
            p.thread.hash(&mut h);
            p.tag.hash(&mut h);
            p.chosen.hash(&mut h);
        }
        h.finish()
    }
}

/// Run `bodies` (one closure per thread) under the schedule given by `prefix` (then always the
/// first enabled thread). Returns the per-thread results and the record of the run.
pub fn run_schedule<T: Send + 'static>(bodies: Vec<Box<dyn FnOnce() -> T + Send>>, prefix: &[usize], gran: Gran) -> (Vec<T>, RunRec) {
    let n = bodies.len();
    {
        let mut g = SCHED.lock().unwrap();
        *g = Some(Inner { active: true, running: None, finished: vec![false; n], arrived: 0, prefix: prefix.to_vec(), points: vec![], diverged: false, stuck: false, gran });
    }
    let mut handles = vec![];
    for (id, body) in bodies.into_iter().enumerate() {
        handles.push(
            std::thread::Builder::new()
                .stack_size(64 << 20)
                .spawn(move || {
                    TID.with(|t| t.set(Some(id)));
                    {
                        let mut g = SCHED.lock().unwrap();
                        if let Some(i) = g.as_mut() {
                            i.arrived += 1;
                        }
                        CV.notify_all();
                    }
                    wait_for_turn(id);
                    let r = body();
                    {
                        let mut g = SCHED.lock().unwrap();
                        if let Some(i) = g.as_mut() {
                            i.finished[id] = true;
                            if i.active {
                                decide(i, Some(id), false, "thread.finish");
                            }
                        }
                        CV.notify_all();
                    }
                    TID.with(|t| t.set(None));
                    r
                })
                .expect("spawn scheduled thread"),
        );
    }
    // initial decision once every thread waits at its start
    {
        let mut g = SCHED.lock().unwrap();
        loop {
            if g.as_ref().map(|i| i.arrived == n).unwrap_or(true) {
                break;
            }
            let (ng, _) = CV.wait_timeout(g, Duration::from_secs(10)).unwrap();
            g = ng;
        }
        if let Some(i) = g.as_mut() {
            decide(i, None, false, "start");
        }
        CV.notify_all();
    }
    let results: Vec<T> = handles.into_iter().map(|h| h.join().expect("scheduled thread panicked")).collect();
    let inner = SCHED.lock().unwrap().take().unwrap();
    (results, RunRec { points: inner.points, diverged: inner.diverged, stuck: inner.stuck })
}

pub struct Explored {
    pub schedules: usize,
    pub distinct_interleavings: usize,
    pub max_points: usize,
    pub by_preemptions: Vec<usize>,
}

/// Explore all schedules of `make_bodies()` with at most `bound` preemptions. `check` is called
/// with the per-thread results and the run record of every execution.
pub fn explore<T: Send + 'static>(make_bodies: &dyn Fn() -> Vec<Box<dyn FnOnce() -> T + Send>>, bound: usize, gran: Gran, check: &mut dyn FnMut(&[T], &RunRec)) -> Result<Explored, String> {
    let mut stack: Vec<Vec<usize>> = vec![vec![]];
    let mut schedules = 0usize;
    let mut sigs = std::collections::BTreeSet::new();
    let mut max_points = 0usize;
    let mut by_pre = vec![0usize; bound + 1];
    while let Some(prefix) = stack.pop() {
        let (res, rec) = run_schedule(make_bodies(), &prefix, gran);
        if rec.stuck {
            return Err("a thread did not reach its next scheduling point within 10 s while holding the baton (blocked outside the scheduler)".into());
        }
        if rec.diverged {
            return Err(format!("divergence while replaying schedule prefix {:?}: the code under test is not deterministic under the scheduler", prefix));
        }
        schedules += 1;
        sigs.insert(rec.signature());
        max_points = max_points.max(rec.points.len());
        let pre = rec.preemptions();
        if pre <= bound {
            by_pre[pre] += 1;
        }
        check(&res, &rec);
        let choices = rec.choices();
        // children: deviate at every point after the prefix
        let mut cost_before = rec.points[..prefix.len().min(rec.points.len())].iter().filter(|p| p.running_enabled && p.chosen != 0).count();
        for i in prefix.len()..rec.points.len() {
            let p = &rec.points[i];
            let extra = if p.running_enabled { 1 } else { 0 };
            if cost_before + extra <= bound {
                for alt in 1..p.n_enabled {
                    let mut np = choices[..i].to_vec();
                    np.push(alt);
                    stack.push(np);
                }
            }
            if p.running_enabled && p.chosen != 0 {
                cost_before += 1;
            }
        }
    }
    Ok(Explored { schedules, distinct_interleavings: sigs.len(), max_points, by_preemptions: by_pre })
}
