//! A small lexer for AVR assembly source, used by the deviation-bounded explorer (E3) to find
//! rewrite and mutation sites. It classifies tokens by role using line context.

#[derive(Clone, Copy, PartialEq, Eq, Debug, Hash)]
pub enum Role {
    Ws,
    Comment,
    Label,
    Colon,
    Directive,
    Mnemonic,
    /// first word of a line that is not a known mnemonic (macro call)
    MacroCall,
    Register,
    PtrReg,
    Func,
    SymRef,
    /// identifier in a defining position (.equ/.set/.def left-hand side, macro name, …)
    SymDef,
    Number,
    Str,
    Char,
    /// binary operator inside an expression
    BinOp,
    /// unary operator, or +/- belonging to a pointer form
    OtherOp,
    Comma,
    LParen,
    RParen,
    MacroParam,
    Other,
}

#[derive(Clone, Debug, PartialEq, Eq)]
pub struct Tok {
    pub role: Role,
    pub text: String,
}

#[derive(Clone, Debug)]
pub struct Line {
    pub toks: Vec<Tok>,
    /// lower-cased directive name of the line (without the dot), if any
    pub directive: Option<String>,
    /// inside a .macro … .endm body (the lines are stored raw by the tool)
    pub in_macro_body: bool,
    /// inside a conditional branch that is certainly or possibly skipped (`.if 0`, `.else` …):
    /// the text there need not be valid assembly
    pub maybe_skipped: bool,
}

fn is_ident_start(c: u8) -> bool {
    c.is_ascii_alphabetic() || c == b'_'
}
fn is_ident(c: u8) -> bool {
    c.is_ascii_alphanumeric() || c == b'_'
}

fn raw_split(line: &str) -> Vec<String> {
    let b = line.as_bytes();
    let mut out = vec![];
    let mut i = 0;
    while i < b.len() {
        let c = b[i];
        let st = i;
        if c == b' ' || c == b'\t' {
            while i < b.len() && (b[i] == b' ' || b[i] == b'\t') {
                i += 1;
            }
        } else if c == b';' || (c == b'/' && b.get(i + 1) == Some(&b'/')) {
            i = b.len();
        } else if c == b'/' && b.get(i + 1) == Some(&b'*') {
            match line[i + 2..].find("*/") {
                Some(p) => i = i + 2 + p + 2,
                None => i = b.len(),
            }
        } else if c == b'"' {
            i += 1;
            while i < b.len() && b[i] != b'"' {
                i += 1;
            }
            i = (i + 1).min(b.len());
        } else if c == b'\'' && i + 2 < b.len() && b[i + 2] == b'\'' {
            i += 3;
        } else if (c == b'.' || c == b'#') && i + 1 < b.len() && b[i + 1].is_ascii_lowercase() {
            i += 1;
            while i < b.len() && b[i].is_ascii_alphabetic() {
                i += 1;
            }
        } else if c == b'@' && i + 1 < b.len() && b[i + 1].is_ascii_digit() {
            i += 2;
        } else if c == b'$' && i + 1 < b.len() && b[i + 1].is_ascii_hexdigit() {
            i += 1;
            while i < b.len() && b[i].is_ascii_hexdigit() {
                i += 1;
            }
        } else if c.is_ascii_digit() {
            if c == b'0' && (b.get(i + 1) == Some(&b'x') || b.get(i + 1) == Some(&b'b')) {
                i += 2;
            }
            while i < b.len() && b[i].is_ascii_hexdigit() {
                i += 1;
            }
        } else if is_ident_start(c) {
            while i < b.len() && is_ident(b[i]) {
                i += 1;
            }
        } else {
            let two = if i + 1 < b.len() { &line[i..i + 2] } else { "" };
            if ["<<", ">>", "<=", ">=", "==", "!=", "&&", "||"].contains(&two) {
                i += 2;
            } else {
                // one (possibly multi-byte) character
                let ch = line[i..].chars().next().unwrap();
                i += ch.len_utf8();
            }
        }
        out.push(line[st..i].to_string());
    }
    out
}

fn is_register(t: &str) -> bool {
    let l = t.to_lowercase();
    l.len() >= 2 && l.len() <= 3 && l.starts_with('r') && l[1..].bytes().all(|c| c.is_ascii_digit())
}

fn is_number(t: &str) -> bool {
    let b = t.as_bytes();
    b[0].is_ascii_digit() || (b[0] == b'$' && b.len() > 1)
}

/// identifiers on lines of these directives are not ordinary symbol references
const NO_SYMREF_DIRECTIVES: [&str; 14] = [
    "define", "ifdef", "ifndef", "macro", "device", "include", "includepath", "message", "warning", "error", "pragma", "undef", "endm", "endmacro",
];

pub fn lex(src: &str, known_mnemonic: &dyn Fn(&str) -> bool) -> Vec<Line> {
    let mut lines = vec![];
    let mut in_body = false;
    let mut cond_depth_skipped: i32 = 0; // > 0 while inside a construct whose arms may be skipped
    for raw in src.lines() {
        let parts = raw_split(raw);
        let mut toks: Vec<Tok> = vec![];
        let mut directive: Option<String> = None;
        let mut seen_head = false; // mnemonic or directive seen
        let mut label_possible = true;
        let mut def_pending = false; // next identifier is a definition (.equ/.set/.def)
        let mut prev_sig: Option<Role> = None;
        let n = parts.len();
        for (pi, p) in parts.iter().enumerate() {
            let b = p.as_bytes();
            let next_sig: Option<&String> = parts[pi + 1..].iter().find(|x| !x.starts_with(' ') && !x.starts_with('\t'));
            let role = if b[0] == b' ' || b[0] == b'\t' {
                Role::Ws
            } else if b[0] == b';' || p.starts_with("//") || p.starts_with("/*") {
                Role::Comment
            } else if b[0] == b'"' {
                Role::Str
            } else if b[0] == b'\'' && b.len() == 3 {
                Role::Char
            } else if (b[0] == b'.' || b[0] == b'#') && b.len() > 1 && b[1].is_ascii_lowercase() && !seen_head {
                seen_head = true;
                label_possible = false;
                let d = p[1..].to_lowercase();
                def_pending = matches!(d.as_str(), "equ" | "set" | "def");
                directive = Some(d);
                Role::Directive
            } else if b[0] == b'@' {
                Role::MacroParam
            } else if is_number(p) {
                Role::Number
            } else if is_ident_start(b[0]) {
                if label_possible && !seen_head && next_sig.map(|x| x == ":").unwrap_or(false) && pi + 1 < n && parts[pi + 1] == ":" {
                    label_possible = false;
                    Role::Label
                } else if !seen_head {
                    seen_head = true;
                    label_possible = false;
                    if known_mnemonic(&p.to_lowercase()) {
                        Role::Mnemonic
                    } else {
                        Role::MacroCall
                    }
                } else if def_pending {
                    def_pending = false;
                    Role::SymDef
                } else if directive.as_deref().map(|d| NO_SYMREF_DIRECTIVES.contains(&d)).unwrap_or(false) {
                    Role::SymDef
                } else if next_sig.map(|x| x == "(").unwrap_or(false) {
                    Role::Func
                } else if is_register(p) {
                    Role::Register
                } else if directive.is_none() && matches!(p.to_lowercase().as_str(), "x" | "y" | "z") {
                    Role::PtrReg
                } else {
                    Role::SymRef
                }
            } else if p == ":" {
                Role::Colon
            } else if p == "," {
                Role::Comma
            } else if p == "(" {
                Role::LParen
            } else if p == ")" {
                Role::RParen
            } else if ["+", "-", "*", "/", "%", "<<", ">>", "<", "<=", ">", ">=", "==", "!=", "&", "^", "|", "&&", "||"].contains(&p.as_str()) {
                let operand_before = matches!(prev_sig, Some(Role::Number) | Some(Role::SymRef) | Some(Role::Register) | Some(Role::RParen) | Some(Role::Char) | Some(Role::MacroParam) | Some(Role::SymDef));
                let ptr_before = prev_sig == Some(Role::PtrReg);
                let ptr_after = next_sig.map(|x| matches!(x.to_lowercase().as_str(), "x" | "y" | "z")).unwrap_or(false) && directive.is_none();
                if operand_before && !ptr_before && !(p == "-" && ptr_after && prev_sig.is_none()) {
                    Role::BinOp
                } else {
                    Role::OtherOp
                }
            } else if p == "=" {
                Role::Other
            } else {
                Role::Other
            };
            if role != Role::Ws && role != Role::Comment {
                prev_sig = Some(role);
            }
            toks.push(Tok { role, text: p.clone() });
        }
        // fix-up: '-' directly before a pointer register at operand start is part of the form
        let d = directive.clone();
        let this_in_body = in_body && !matches!(d.as_deref(), Some("endm") | Some("endmacro"));
        match d.as_deref() {
            Some("macro") => in_body = true,
            Some("endm") | Some("endmacro") => in_body = false,
            _ => {}
        }
        let mut maybe_skipped = cond_depth_skipped > 0;
        match d.as_deref() {
            Some("if") | Some("ifdef") | Some("ifndef") => {
                cond_depth_skipped += 1;
                maybe_skipped = cond_depth_skipped > 1;
            }
            Some("endif") => {
                cond_depth_skipped = (cond_depth_skipped - 1).max(0);
                maybe_skipped = cond_depth_skipped > 0;
            }
            Some("else") | Some("elif") => {
                maybe_skipped = cond_depth_skipped > 1;
            }
            _ => {}
        }
        lines.push(Line { toks, directive: d, in_macro_body: this_in_body, maybe_skipped });
    }
    // everything after .exit is never read
    let mut after_exit = false;
    for l in lines.iter_mut() {
        if after_exit {
            l.maybe_skipped = true;
        }
        if l.directive.as_deref() == Some("exit") && !l.maybe_skipped {
            after_exit = true;
        }
    }
    lines
}

pub fn render(lines: &[Line], eol: &str) -> String {
    let mut s = String::new();
    for l in lines {
        for t in &l.toks {
            s.push_str(&t.text);
        }
        s.push_str(eol);
    }
    s
}

/// value of a numeric literal token
pub fn number_value(t: &str) -> Option<i64> {
    if let Some(h) = t.strip_prefix('$') {
        i64::from_str_radix(h, 16).ok()
    } else if let Some(h) = t.strip_prefix("0x") {
        i64::from_str_radix(h, 16).ok()
    } else if let Some(h) = t.strip_prefix("0b") {
        i64::from_str_radix(h, 2).ok()
    } else if t.len() > 1 && t.starts_with('0') {
        i64::from_str_radix(&t[1..], 8).ok()
    } else {
        t.parse().ok()
    }
}
