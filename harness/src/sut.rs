//! The only module that touches the system under test (avra_lib).
//!
//! Seams used (see DESIGN.md 2.1): builder::build_str, builder::build_file,
//! writer::{write_code_hex, write_eeprom_hex}, device::DEVICES, verif_hooks::set.

use std::cell::RefCell;
use std::collections::BTreeSet;
use std::panic::{catch_unwind, AssertUnwindSafe};
use std::path::PathBuf;
use std::sync::Once;

use serde_json::{json, Value};

#[derive(Clone, Debug, PartialEq, Eq, Hash)]
pub struct Built {
    pub code: Vec<u8>,
    pub eeprom: Vec<u8>,
    pub flash_size: u32,
    pub eeprom_size: u32,
    pub ram_size: u32,
    pub ram_filling: u32,
    pub messages: Vec<String>,
}

#[derive(Clone, Debug, PartialEq, Eq, Hash)]
pub enum Outcome {
    Ok(Built),
    Err(String),
    /// A panic caught in-process: source location and message.
    Panic { site: String, msg: String },
}

impl Outcome {
    pub fn is_ok(&self) -> bool {
        matches!(self, Outcome::Ok(_))
    }
    pub fn is_err(&self) -> bool {
        matches!(self, Outcome::Err(_))
    }
    pub fn is_panic(&self) -> bool {
        matches!(self, Outcome::Panic { .. })
    }
    pub fn ok(&self) -> Option<&Built> {
        match self {
            Outcome::Ok(b) => Some(b),
            _ => None,
        }
    }
    pub fn err_text(&self) -> Option<&str> {
        match self {
            Outcome::Err(e) => Some(e.as_str()),
            _ => None,
        }
    }
    /// Short printable form (images in hex, truncated) for replay artefacts.
    pub fn to_json(&self) -> Value {
        match self {
            Outcome::Ok(b) => json!({
                "result": "ok",
                "code_len": b.code.len(),
                "code": hex_trunc(&b.code, 96),
                "eeprom_len": b.eeprom.len(),
                "eeprom": hex_trunc(&b.eeprom, 96),
                "flash_size": b.flash_size, "eeprom_size": b.eeprom_size,
                "ram_size": b.ram_size, "ram_filling": b.ram_filling,
                "messages": b.messages,
            }),
            Outcome::Err(e) => json!({"result": "err", "text": e}),
            Outcome::Panic { site, msg } => json!({"result": "panic", "site": site, "msg": msg}),
        }
    }
    /// one-line form for violation texts
    pub fn brief(&self) -> String {
        match self {
            Outcome::Ok(b) => format!("code {}", hex_trunc(&b.code, 16)),
            Outcome::Err(e) => format!("an error ({})", e),
            Outcome::Panic { site, msg } => format!("a panic at {}: {}", site, msg),
        }
    }
    pub fn kind(&self) -> &'static str {
        match self {
            Outcome::Ok(_) => "ok",
            Outcome::Err(_) => "err",
            Outcome::Panic { .. } => "panic",
        }
    }
}

pub fn hex(bytes: &[u8]) -> String {
    let mut s = String::with_capacity(bytes.len() * 2);
    for b in bytes {
        s.push_str(&format!("{:02x}", b));
    }
    s
}

pub fn hex_trunc(bytes: &[u8], max: usize) -> String {
    if bytes.len() <= max {
        hex(bytes)
    } else {
        format!("{}…(+{} bytes)", hex(&bytes[..max]), bytes.len() - max)
    }
}

thread_local! {
    static LAST_PANIC: RefCell<Option<(String, String)>> = RefCell::new(None);
    static QUIET: RefCell<bool> = RefCell::new(false);
}

static HOOK: Once = Once::new();

fn install_hook() {
    HOOK.call_once(|| {
        let default = std::panic::take_hook();
        std::panic::set_hook(Box::new(move |info| {
            let quiet = QUIET.with(|q| *q.borrow());
            if quiet {
                let site = info
                    .location()
                    .map(|l| format!("{}:{}", l.file(), l.line()))
                    .unwrap_or_else(|| "?".to_string());
                let msg = if let Some(s) = info.payload().downcast_ref::<&str>() {
                    s.to_string()
                } else if let Some(s) = info.payload().downcast_ref::<String>() {
                    s.clone()
                } else {
                    "<non-string panic>".to_string()
                };
                LAST_PANIC.with(|p| *p.borrow_mut() = Some((site, msg)));
            } else {
                default(info);
            }
        }));
    });
}

/// Run a closure that calls into avra_lib; panics are caught and reported as an outcome.
pub fn guarded<T>(f: impl FnOnce() -> Result<T, String>) -> Result<Result<T, String>, (String, String)> {
    install_hook();
    QUIET.with(|q| *q.borrow_mut() = true);
    LAST_PANIC.with(|p| *p.borrow_mut() = None);
    let r = catch_unwind(AssertUnwindSafe(f));
    QUIET.with(|q| *q.borrow_mut() = false);
    match r {
        Ok(v) => Ok(v),
        Err(_) => {
            let (site, msg) = LAST_PANIC
                .with(|p| p.borrow_mut().take())
                .unwrap_or_else(|| ("?".into(), "?".into()));
            Err((site, msg))
        }
    }
}

fn conv(br: avra_lib::builder::BuildResult) -> Built {
    Built {
        code: br.code,
        eeprom: br.eeprom,
        flash_size: br.flash_size,
        eeprom_size: br.eeprom_size,
        ram_size: br.ram_size,
        ram_filling: br.ram_filling,
        messages: br.messages,
    }
}

pub fn build_str(src: &str) -> Outcome {
    match guarded(|| avra_lib::builder::build_str(src).map(conv).map_err(|e| e.to_string())) {
        Ok(Ok(b)) => Outcome::Ok(b),
        Ok(Err(e)) => Outcome::Err(e),
        Err((site, msg)) => Outcome::Panic { site, msg },
    }
}

pub fn build_file(path: PathBuf, paths: BTreeSet<PathBuf>) -> Outcome {
    match guarded(|| {
        avra_lib::builder::build_file(path, paths)
            .map(conv)
            .map_err(|e| e.to_string())
    }) {
        Ok(Ok(b)) => Outcome::Ok(b),
        Ok(Err(e)) => Outcome::Err(e),
        Err((site, msg)) => Outcome::Panic { site, msg },
    }
}

fn unconv(b: &Built) -> avra_lib::builder::BuildResult {
    avra_lib::builder::BuildResult {
        code: b.code.clone(),
        eeprom: b.eeprom.clone(),
        flash_size: b.flash_size,
        eeprom_size: b.eeprom_size,
        ram_size: b.ram_size,
        ram_filling: b.ram_filling,
        messages: b.messages.clone(),
    }
}

/// Ok(()) | Err(text) | Err("PANIC …")
pub fn write_code_hex(path: PathBuf, b: &Built) -> Result<(), String> {
    let br = unconv(b);
    match guarded(|| avra_lib::writer::write_code_hex(path, &br).map_err(|e| e.to_string())) {
        Ok(r) => r,
        Err((site, msg)) => Err(format!("PANIC at {}: {}", site, msg)),
    }
}

pub fn write_eeprom_hex(path: PathBuf, b: &Built) -> Result<(), String> {
    let br = unconv(b);
    match guarded(|| avra_lib::writer::write_eeprom_hex(path, &br).map_err(|e| e.to_string())) {
        Ok(r) => r,
        Err((site, msg)) => Err(format!("PANIC at {}: {}", site, msg)),
    }
}

#[derive(Clone, Debug)]
pub struct DeviceRow {
    pub name: String,
    pub flash_words: u32,
    pub ram_start: u32,
    pub ram_size: u32,
    pub eeprom_size: u32,
    /// flag names as printed by Debug (NoMul, NoJmp, …)
    pub flags: BTreeSet<String>,
}

/// The device table, sorted by name (the table the properties quantify over).
pub fn devices() -> Vec<DeviceRow> {
    let mut v: Vec<DeviceRow> = avra_lib::device::DEVICES
        .iter()
        .map(|(name, d)| DeviceRow {
            name: name.to_string(),
            flash_words: d.flash_size,
            ram_start: d.ram_start,
            ram_size: d.ram_size,
            eeprom_size: d.eeprom_size,
            flags: d.disable_opts.iter().map(|f| format!("{:?}", f)).collect(),
        })
        .collect();
    v.sort_by(|a, b| a.name.cmp(&b.name));
    v
}

pub fn set_hook(h: Option<fn(&'static str)>) {
    avra_lib::verif_hooks::set(h);
}

pub const DEFAULT_FLASH_WORDS: u32 = 4_194_304;
pub const DEFAULT_EEPROM: u32 = 65_536;
pub const DEFAULT_RAM: u32 = 8_388_608;
pub const DEFAULT_RAM_START: u32 = 0x60;
