//! The only module that touches the system under test (avra_lib).
//!
//! Seams used (see DESIGN.md 2.1): builder::build_str, builder::build_file,
//! writer::{write_code_hex, write_eeprom_hex}, device::DEVICES, verif_hooks::set.

use std::cell::RefCell;
use std::collections::BTreeSet;
use std::panic::{catch_unwind, AssertUnwindSafe};
use std::path::PathBuf;
use std::sync::Mutex;
use std::sync::Once;

use serde_json::{json, Value};

#[derive(Clone, Debug, PartialEq, Eq, Hash)]
pub struct Built {
    pub code: Vec<u8>,
    pub eeprom: Vec<u8>,
    pub flash_size: u32,
    pub eeprom_size: u32,
    pub ram_size: u32,
    pub ram_filling: u32,
    pub messages: Vec<String>,
}

#[derive(Clone, Debug, PartialEq, Eq, Hash)]
pub enum Outcome {
    Ok(Built),
    Err(String),
    /// A panic caught in-process: source location and message.
    Panic { site: String, msg: String },
}

impl Outcome {
    pub fn is_ok(&self) -> bool {
        matches!(self, Outcome::Ok(_))
    }
    pub fn is_err(&self) -> bool {
        matches!(self, Outcome::Err(_))
    }
    pub fn is_panic(&self) -> bool {
        matches!(self, Outcome::Panic { .. })
    }
    pub fn ok(&self) -> Option<&Built> {
        match self {
            Outcome::Ok(b) => Some(b),
            _ => None,
        }
    }
    pub fn err_text(&self) -> Option<&str> {
        match self {
            Outcome::Err(e) => Some(e.as_str()),
            _ => None,
        }
    }
    /// Short printable form (images in hex, truncated) for replay artefacts.
    pub fn to_json(&self) -> Value {
        match self {
            Outcome::Ok(b) => json!({
                "result": "ok",
                "code_len": b.code.len(),
                "code": hex_trunc(&b.code, 96),
                "eeprom_len": b.eeprom.len(),
                "eeprom": hex_trunc(&b.eeprom, 96),
                "flash_size": b.flash_size, "eeprom_size": b.eeprom_size,
                "ram_size": b.ram_size, "ram_filling": b.ram_filling,
                "messages": b.messages,
            }),
            Outcome::Err(e) => json!({"result": "err", "text": e}),
            Outcome::Panic { site, msg } => json!({"result": "panic", "site": site, "msg": msg}),
        }
    }
    /// one-line form for violation texts
    pub fn brief(&self) -> String {
        match self {
            Outcome::Ok(b) => format!("code {}", hex_trunc(&b.code, 16)),
            Outcome::Err(e) => format!("an error ({})", e),
            Outcome::Panic { site, msg } => format!("a panic at {}: {}", site, msg),
        }
    }
    pub fn kind(&self) -> &'static str {
        match self {
            Outcome::Ok(_) => "ok",
            Outcome::Err(_) => "err",
            Outcome::Panic { .. } => "panic",
        }
    }
}

pub fn hex(bytes: &[u8]) -> String {
    let mut s = String::with_capacity(bytes.len() * 2);
    for b in bytes {
        s.push_str(&format!("{:02x}", b));
    }
    s
}

pub fn hex_trunc(bytes: &[u8], max: usize) -> String {
    if bytes.len() <= max {
        hex(bytes)
    } else {
        format!("{}…(+{} bytes)", hex(&bytes[..max]), bytes.len() - max)
    }
}

thread_local! {
    static LAST_PANIC: RefCell<Option<(String, String)>> = RefCell::new(None);
    static QUIET: RefCell<bool> = RefCell::new(false);
}

static HOOK: Once = Once::new();

fn install_hook() {
    HOOK.call_once(|| {
        let default = std::panic::take_hook();
        std::panic::set_hook(Box::new(move |info| {
            let quiet = QUIET.with(|q| *q.borrow());
            if quiet {
                let site = info
                    .location()
                    .map(|l| format!("{}:{}", l.file(), l.line()))
                    .unwrap_or_else(|| "?".to_string());
                let msg = if let Some(s) = info.payload().downcast_ref::<&str>() {
                    s.to_string()
                } else if let Some(s) = info.payload().downcast_ref::<String>() {
                    s.clone()
                } else {
                    "<non-string panic>".to_string()
                };
                LAST_PANIC.with(|p| *p.borrow_mut() = Some((site, msg)));
            } else {
                default(info);
            }
        }));
    });
}

/// Run a closure that calls into avra_lib; panics are caught and reported as an outcome.
pub fn guarded<T>(f: impl FnOnce() -> Result<T, String>) -> Result<Result<T, String>, (String, String)> {
    install_hook();
    QUIET.with(|q| *q.borrow_mut() = true);
    LAST_PANIC.with(|p| *p.borrow_mut() = None);
    let r = catch_unwind(AssertUnwindSafe(f));
    QUIET.with(|q| *q.borrow_mut() = false);
    match r {
        Ok(v) => Ok(v),
        Err(_) => {
            let (site, msg) = LAST_PANIC
                .with(|p| p.borrow_mut().take())
                .unwrap_or_else(|| ("?".into(), "?".into()));
            Err((site, msg))
        }
    }
}

fn conv(br: avra_lib::builder::BuildResult) -> Built {
    Built {
        code: br.code,
        eeprom: br.eeprom,
        flash_size: br.flash_size,
        eeprom_size: br.eeprom_size,
        ram_size: br.ram_size,
        ram_filling: br.ram_filling,
        messages: br.messages,
    }
}

// ---- watchdog: a build that does not come back -------------------------------------------------
//
// Every in-process build is entered in a table (start time, address and length of its source
// text). A watchdog thread looks at the table once a second; a build that has been running for
// longer than the deadline (VERIF_BUILD_DEADLINE_S, default 150 s: the largest programs of any
// check take a few seconds) is a build that does not terminate. The watchdog then writes the
// source as a replay artefact, prints the VIOLATION line for the running check and ends the
// process with exit 1 - a check must never hang on a tree that hangs. (C16, whose subject this
// is, runs its cases in sandboxed worker processes with their own limits.)
static INFLIGHT: Mutex<Vec<Option<(std::time::Instant, usize, usize)>>> = Mutex::new(Vec::new());
thread_local! {
    static SLOT: usize = {
        let mut t = INFLIGHT.lock().unwrap();
        t.push(None);
        t.len() - 1
    };
}

struct InFlight(usize);

impl Drop for InFlight {
    fn drop(&mut self) {
        if let Ok(mut t) = INFLIGHT.lock() {
            t[self.0] = None;
        }
    }
}

fn enter(src: &str) -> InFlight {
    let slot = SLOT.with(|s| *s);
    INFLIGHT.lock().unwrap()[slot] = Some((std::time::Instant::now(), src.as_ptr() as usize, src.len()));
    InFlight(slot)
}

pub fn start_watchdog() {
    let deadline = std::env::var("VERIF_BUILD_DEADLINE_S").ok().and_then(|v| v.parse::<u64>().ok()).unwrap_or(150);
    std::thread::spawn(move || loop {
        std::thread::sleep(std::time::Duration::from_secs(1));
        let stuck: Option<(usize, usize, f64)> = {
            let t = INFLIGHT.lock().unwrap();
            t.iter().flatten().filter(|(t0, _, _)| t0.elapsed().as_secs() >= deadline).map(|(t0, p, l)| (*p, *l, t0.elapsed().as_secs_f64())).next()
        };
        if let Some((p, l, secs)) = stuck {
            // the thread is still inside the build: the text it was handed is alive
            let text = unsafe { String::from_utf8_lossy(std::slice::from_raw_parts(p as *const u8, l)).to_string() };
            let cur = crate::report::CURRENT.lock().unwrap().clone();
            let (prop, tier, level, start) = cur.unwrap_or(("C16".to_string(), "quick", "exploration", std::time::Instant::now()));
            let root = crate::report::verif_root();
            let dir = root.join("replays").join(&prop);
            let _ = std::fs::create_dir_all(&dir);
            let path = dir.join("does-not-terminate.json");
            let what = format!("a build started {:.0} s ago has not returned (deadline {} s): the check cannot decide anything for this program, and neither can a user", secs, deadline);
            let doc = serde_json::json!({"property": prop, "key": format!("{}/build-does-not-terminate", prop), "what": what, "kind": "build_str",
                "source": if text.len() > 200_000 { format!("{}…", &text[..200_000]) } else { text.clone() }, "source_len": text.len(), "expected": "ok or err"});
            let _ = std::fs::write(&path, serde_json::to_string_pretty(&doc).unwrap());
            println!("VIOLATION property={} replay={}", prop, path.display());
            println!("  key={}/build-does-not-terminate cases=1 :: {}", prop, what);
            let ev = serde_json::json!({
                "property_id": prop, "tier": tier, "seed": 0, "level": level,
                "coverage": {"evaluations": 0, "distinct_nontrivial": 0, "states": 0, "transitions": 0, "traces_validated_against_impl": 0, "exhaustive": false,
                    "rule": "the run was ended by the watchdog: a build did not return within the deadline",
                    "explanation": what, "samples": [doc["source"].as_str().map(|s| s.chars().take(2000).collect::<String>())],
                    "checker_cmd": format!("./run {} {}", prop, tier), "trusted_base": [], "caps_hit": ["ended by the build watchdog"]},
                "assumptions": [], "wall_s": (start.elapsed().as_secs_f64() * 1000.0).round() / 1000.0, "violations": 1});
            let _ = std::fs::create_dir_all(root.join("evidence"));
            let _ = std::fs::write(root.join("evidence").join(format!("{}.json", prop)), serde_json::to_string_pretty(&ev).unwrap() + "\n");
            println!("{} {}: ended by the watchdog after {:.1}s", prop, tier, start.elapsed().as_secs_f64());
            std::process::exit(1);
        }
    });
}

pub fn build_str(src: &str) -> Outcome {
    let _in_flight = enter(src);
    match guarded(|| avra_lib::builder::build_str(src).map(conv).map_err(|e| e.to_string())) {
        Ok(Ok(b)) => Outcome::Ok(b),
        Ok(Err(e)) => Outcome::Err(e),
        Err((site, msg)) => Outcome::Panic { site, msg },
    }
}

pub fn build_file(path: PathBuf, paths: BTreeSet<PathBuf>) -> Outcome {
    let shown = format!("; build_file of {}\n", path.display());
    let _in_flight = enter(&shown);
    match guarded(|| {
        avra_lib::builder::build_file(path, paths)
            .map(conv)
            .map_err(|e| e.to_string())
    }) {
        Ok(Ok(b)) => Outcome::Ok(b),
        Ok(Err(e)) => Outcome::Err(e),
        Err((site, msg)) => Outcome::Panic { site, msg },
    }
}

fn unconv(b: &Built) -> avra_lib::builder::BuildResult {
    avra_lib::builder::BuildResult {
        code: b.code.clone(),
        eeprom: b.eeprom.clone(),
        flash_size: b.flash_size,
        eeprom_size: b.eeprom_size,
        ram_size: b.ram_size,
        ram_filling: b.ram_filling,
        messages: b.messages.clone(),
    }
}

/// Ok(()) | Err(text) | Err("PANIC …")
pub fn write_code_hex(path: PathBuf, b: &Built) -> Result<(), String> {
    let br = unconv(b);
    match guarded(|| avra_lib::writer::write_code_hex(path, &br).map_err(|e| e.to_string())) {
        Ok(r) => r,
        Err((site, msg)) => Err(format!("PANIC at {}: {}", site, msg)),
    }
}

pub fn write_eeprom_hex(path: PathBuf, b: &Built) -> Result<(), String> {
    let br = unconv(b);
    match guarded(|| avra_lib::writer::write_eeprom_hex(path, &br).map_err(|e| e.to_string())) {
        Ok(r) => r,
        Err((site, msg)) => Err(format!("PANIC at {}: {}", site, msg)),
    }
}

#[derive(Clone, Debug)]
pub struct DeviceRow {
    pub name: String,
    pub flash_words: u32,
    pub ram_start: u32,
    pub ram_size: u32,
    pub eeprom_size: u32,
    /// flag names as printed by Debug (NoMul, NoJmp, …)
    pub flags: BTreeSet<String>,
}

/// The device table, sorted by name (the table the properties quantify over).
pub fn devices() -> Vec<DeviceRow> {
    let mut v: Vec<DeviceRow> = avra_lib::device::DEVICES
        .iter()
        .map(|(name, d)| DeviceRow {
            name: name.to_string(),
            flash_words: d.flash_size,
            ram_start: d.ram_start,
            ram_size: d.ram_size,
            eeprom_size: d.eeprom_size,
            flags: d.disable_opts.iter().map(|f| format!("{:?}", f)).collect(),
        })
        .collect();
    v.sort_by(|a, b| a.name.cmp(&b.name));
    v
}

pub fn set_hook(h: Option<fn(&'static str)>) {
    avra_lib::verif_hooks::set(h);
}

pub const DEFAULT_FLASH_WORDS: u32 = 4_194_304;
pub const DEFAULT_EEPROM: u32 = 65_536;
pub const DEFAULT_RAM: u32 = 8_388_608;
pub const DEFAULT_RAM_START: u32 = 0x60;
