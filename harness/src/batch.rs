//! E1 helper: pack many independent one-line cases into one program, verify position by
//! position, and localise by re-running one case per build whenever a batch does not match
//! entirely (so a batch can neither hide nor invent a failure).

use crate::sut::{self, Outcome};

pub struct BCase {
    pub text: String,
    /// bytes this line must contribute to the code image (None: the line must be rejected —
    /// such cases are never packed, see `run_single`)
    pub expect: Vec<u8>,
}

pub enum BatchResult {
    AllOk,
    /// indices of cases that fail on their own, with their individual outcomes
    Failures(Vec<(usize, Outcome)>),
    /// every case passes alone but the packed program differs: the encoding depends on context.
    /// (position of first differing case, outcome of the packed build)
    ContextDependent(usize, Outcome),
}

pub fn program(prefix: &str, cases: &[BCase]) -> String {
    program_ps(prefix, "", cases)
}

pub fn program_ps(prefix: &str, suffix: &str, cases: &[BCase]) -> String {
    let mut src = String::with_capacity(prefix.len() + suffix.len() + cases.iter().map(|c| c.text.len() + 1).sum::<usize>());
    src.push_str(prefix);
    for c in cases {
        src.push_str(&c.text);
        src.push('\n');
    }
    src.push_str(suffix);
    src
}

pub fn run_batch(prefix: &str, cases: &[BCase]) -> BatchResult {
    run_batch_ps(prefix, "", cases)
}

/// as `run_batch`, with text after the packed lines as well (e.g. late .equ definitions)
pub fn run_batch_ps(prefix: &str, suffix: &str, cases: &[BCase]) -> BatchResult {
    let src = program_ps(prefix, suffix, cases);
    let out = sut::build_str(&src);
    if let Outcome::Ok(b) = &out {
        let total: usize = cases.iter().map(|c| c.expect.len()).sum();
        if b.code.len() == total {
            let mut pos = 0;
            let mut all = true;
            for c in cases {
                if b.code[pos..pos + c.expect.len()] != c.expect[..] {
                    all = false;
                    break;
                }
                pos += c.expect.len();
            }
            if all && b.eeprom.is_empty() {
                return BatchResult::AllOk;
            }
        }
    }
    // localise
    let mut fails = vec![];
    for (i, c) in cases.iter().enumerate() {
        let o = run_single_ps(prefix, suffix, &c.text);
        let pass = matches!(&o, Outcome::Ok(b) if b.code == c.expect && b.eeprom.is_empty());
        if !pass {
            fails.push((i, o));
        }
    }
    if !fails.is_empty() {
        return BatchResult::Failures(fails);
    }
    // every case is fine alone: find the first position that differs in the packed build
    let mut first = 0usize;
    if let Outcome::Ok(b) = &out {
        let mut pos = 0;
        for (i, c) in cases.iter().enumerate() {
            first = i;
            if pos + c.expect.len() > b.code.len() || b.code[pos..pos + c.expect.len()] != c.expect[..] {
                break;
            }
            pos += c.expect.len();
        }
    }
    BatchResult::ContextDependent(first, out)
}

pub fn run_single(prefix: &str, line: &str) -> Outcome {
    run_single_ps(prefix, "", line)
}

pub fn run_single_ps(prefix: &str, suffix: &str, line: &str) -> Outcome {
    let mut src = String::with_capacity(prefix.len() + suffix.len() + line.len() + 1);
    src.push_str(prefix);
    src.push_str(line);
    src.push('\n');
    src.push_str(suffix);
    sut::build_str(&src)
}
