//! Reference model of constant expressions: AST, a renderer that prints exactly the parentheses
//! the documented precedence table requires, and an evaluator on checked i64.

#[derive(Clone, Copy, PartialEq, Eq, Debug, Hash, PartialOrd, Ord)]
pub enum BinOp {
    Mul, Div, Rem, Add, Sub, Shl, Shr, Lt, Le, Gt, Ge, Eq, Ne, And, Xor, Or, LAnd, LOr,
}

pub const BINOPS: [BinOp; 18] = [
    BinOp::Mul, BinOp::Div, BinOp::Rem, BinOp::Add, BinOp::Sub, BinOp::Shl, BinOp::Shr, BinOp::Lt, BinOp::Le,
    BinOp::Gt, BinOp::Ge, BinOp::Eq, BinOp::Ne, BinOp::And, BinOp::Xor, BinOp::Or, BinOp::LAnd, BinOp::LOr,
];

impl BinOp {
    pub fn text(self) -> &'static str {
        match self {
            BinOp::Mul => "*", BinOp::Div => "/", BinOp::Rem => "%", BinOp::Add => "+", BinOp::Sub => "-",
            BinOp::Shl => "<<", BinOp::Shr => ">>", BinOp::Lt => "<", BinOp::Le => "<=", BinOp::Gt => ">",
            BinOp::Ge => ">=", BinOp::Eq => "==", BinOp::Ne => "!=", BinOp::And => "&", BinOp::Xor => "^",
            BinOp::Or => "|", BinOp::LAnd => "&&", BinOp::LOr => "||",
        }
    }
    /// documented precedence, higher binds tighter
    pub fn prec(self) -> u8 {
        match self {
            BinOp::Mul | BinOp::Div | BinOp::Rem => 10,
            BinOp::Add | BinOp::Sub => 9,
            BinOp::Shl | BinOp::Shr => 8,
            BinOp::Lt | BinOp::Le | BinOp::Gt | BinOp::Ge => 7,
            BinOp::Eq | BinOp::Ne => 6,
            BinOp::And => 5,
            BinOp::Xor => 4,
            BinOp::Or => 3,
            BinOp::LAnd => 2,
            BinOp::LOr => 1,
        }
    }
}

#[derive(Clone, Copy, PartialEq, Eq, Debug, Hash, PartialOrd, Ord)]
pub enum UnOp {
    Neg,
    LNot,
    BNot,
}

pub const UNOPS: [UnOp; 3] = [UnOp::Neg, UnOp::LNot, UnOp::BNot];

impl UnOp {
    pub fn text(self) -> &'static str {
        match self {
            UnOp::Neg => "-",
            UnOp::LNot => "!",
            UnOp::BNot => "~",
        }
    }
}

pub const FUNCS: [&str; 8] = ["low", "high", "byte2", "byte3", "byte4", "lwrd", "hwrd", "exp2"];

#[derive(Clone, Copy, PartialEq, Eq, Debug, Hash)]
pub enum Radix {
    Dec,
    HexDollar,
    Hex0xLower,
    Hex0xUpper,
    Bin,
    Oct,
    Char,
    /// the same with leading zeros / upper-case digits
    HexDollarLead0,
    HexDollarUpper,
    Hex0xLead0,
    BinLead0,
    OctLead0,
}

#[derive(Clone, PartialEq, Eq, Debug, Hash)]
pub enum E {
    /// non-negative literal
    Num(i64, Radix),
    /// symbol with its value (an .equ constant or a label the program defines)
    Sym(String, i64),
    Un(UnOp, Box<E>),
    Bin(BinOp, Box<E>, Box<E>),
    Func(&'static str, Box<E>),
}

pub fn num(v: i64) -> E {
    // i64::MIN cannot be written as a literal: -9223372036854775807-1
    if v == i64::MIN {
        E::Bin(BinOp::Sub, Box::new(E::Un(UnOp::Neg, Box::new(E::Num(i64::MAX, Radix::Dec)))), Box::new(E::Num(1, Radix::Dec)))
    } else if v < 0 {
        E::Un(UnOp::Neg, Box::new(E::Num(-v, Radix::Dec)))
    } else {
        E::Num(v, Radix::Dec)
    }
}

pub fn bin(op: BinOp, l: E, r: E) -> E {
    E::Bin(op, Box::new(l), Box::new(r))
}

pub fn un(op: UnOp, e: E) -> E {
    E::Un(op, Box::new(e))
}

pub fn render_num(v: i64, r: Radix) -> String {
    match r {
        Radix::Dec => format!("{}", v),
        Radix::HexDollar => format!("${:x}", v),
        Radix::Hex0xLower => format!("0x{:x}", v),
        Radix::Hex0xUpper => format!("0x{:X}", v),
        Radix::Bin => format!("0b{:b}", v),
        Radix::Oct => format!("0{:o}", v),
        Radix::Char => format!("'{}'", (v as u8) as char),
        Radix::HexDollarLead0 => format!("$0{:x}", v),
        Radix::HexDollarUpper => format!("${:X}", v),
        Radix::Hex0xLead0 => format!("0x00{:x}", v),
        Radix::BinLead0 => format!("0b00{:b}", v),
        Radix::OctLead0 => format!("00{:o}", v),
    }
}

impl E {
    /// Source text with only the parentheses the precedence table requires
    /// (binary operators associate to the left; unary operators bind tightest).
    pub fn render(&self) -> String {
        match self {
            E::Num(v, r) => render_num(*v, *r),
            E::Sym(s, _) => s.clone(),
            E::Func(f, a) => format!("{}({})", f, a.render()),
            E::Un(op, e) => {
                let inner = e.render();
                let need = match &**e {
                    E::Bin(..) => true,
                    // "--x" is not generated (reads as a decrement in other languages)
                    E::Un(UnOp::Neg, _) if *op == UnOp::Neg => true,
                    _ => false,
                };
                if need {
                    format!("{}({})", op.text(), inner)
                } else {
                    format!("{}{}", op.text(), inner)
                }
            }
            E::Bin(op, l, r) => {
                let ls = match &**l {
                    E::Bin(lo, ..) if lo.prec() < op.prec() => format!("({})", l.render()),
                    _ => l.render(),
                };
                let rs = match &**r {
                    E::Bin(ro, ..) if ro.prec() <= op.prec() => format!("({})", r.render()),
                    _ => r.render(),
                };
                format!("{} {} {}", ls, op.text(), rs)
            }
        }
    }
}

#[derive(Clone, PartialEq, Eq, Debug)]
pub enum Val {
    Value(i64),
    MustFail,
    /// the statement does not pin this corner: any listed value, or an error, is accepted
    /// (a panic never is)
    Unspecified(Vec<i64>),
}

pub fn eval(e: &E) -> Val {
    match e {
        E::Num(v, _) => Val::Value(*v),
        E::Sym(_, v) => Val::Value(*v),
        E::Un(op, a) => {
            let a = match eval(a) {
                Val::Value(v) => v,
                Val::MustFail => return Val::MustFail,
                // an operator applied to an unpinned value: any value (or an error) is accepted
                Val::Unspecified(_) => return Val::Unspecified(vec![]),
            };
            match op {
                UnOp::Neg => a.checked_neg().map(Val::Value).unwrap_or(Val::MustFail),
                UnOp::LNot => Val::Value((a == 0) as i64),
                UnOp::BNot => Val::Value(!a),
            }
        }
        E::Func(f, a) => {
            let a = match eval(a) {
                Val::Value(v) => v,
                Val::MustFail => return Val::MustFail,
                // an operator applied to an unpinned value: any value (or an error) is accepted
                Val::Unspecified(_) => return Val::Unspecified(vec![]),
            };
            let u = a as u64;
            match *f {
                "low" => Val::Value((u & 0xff) as i64),
                "high" | "byte2" => Val::Value(((u >> 8) & 0xff) as i64),
                "byte3" => Val::Value(((u >> 16) & 0xff) as i64),
                "byte4" => Val::Value(((u >> 24) & 0xff) as i64),
                "lwrd" => Val::Value((u & 0xffff) as i64),
                "hwrd" => Val::Value(((u >> 16) & 0xffff) as i64),
                "exp2" => {
                    if (0..=62).contains(&a) {
                        Val::Value(1i64 << a)
                    } else if a == 63 {
                        Val::Unspecified(vec![i64::MIN])
                    } else {
                        Val::Unspecified(vec![0])
                    }
                }
                _ => Val::MustFail,
            }
        }
        E::Bin(op, l, r) => {
            // both operands are evaluated (no short circuit): an error anywhere fails the build
            let lv = eval(l);
            let rv = eval(r);
            let (a, b) = match (lv, rv) {
                (Val::Value(a), Val::Value(b)) => (a, b),
                (Val::MustFail, _) | (_, Val::MustFail) => return Val::MustFail,
                _ => return Val::Unspecified(vec![]),
            };
            let t = |c: bool| Val::Value(c as i64);
            match op {
                BinOp::Add => a.checked_add(b).map(Val::Value).unwrap_or(Val::MustFail),
                BinOp::Sub => a.checked_sub(b).map(Val::Value).unwrap_or(Val::MustFail),
                BinOp::Mul => a.checked_mul(b).map(Val::Value).unwrap_or(Val::MustFail),
                BinOp::Div => {
                    if b == 0 {
                        Val::MustFail
                    } else {
                        a.checked_div(b).map(Val::Value).unwrap_or(Val::MustFail)
                    }
                }
                BinOp::Rem => {
                    if b == 0 {
                        Val::MustFail
                    } else if a == i64::MIN && b == -1 {
                        // mathematically 0; the quotient overflows — not pinned by the statement
                        Val::Unspecified(vec![0])
                    } else {
                        Val::Value(a % b)
                    }
                }
                BinOp::Shl => {
                    if (0..=63).contains(&b) {
                        Val::Value(((a as u64) << b) as i64)
                    } else {
                        Val::Unspecified(vec![0])
                    }
                }
                BinOp::Shr => {
                    if (0..=63).contains(&b) {
                        if a >= 0 {
                            Val::Value(a >> b)
                        } else {
                            Val::Unspecified(vec![a >> b, ((a as u64) >> b) as i64])
                        }
                    } else {
                        Val::Unspecified(vec![0, -1])
                    }
                }
                BinOp::Lt => t(a < b),
                BinOp::Le => t(a <= b),
                BinOp::Gt => t(a > b),
                BinOp::Ge => t(a >= b),
                BinOp::Eq => t(a == b),
                BinOp::Ne => t(a != b),
                BinOp::And => Val::Value(a & b),
                BinOp::Xor => Val::Value(a ^ b),
                BinOp::Or => Val::Value(a | b),
                BinOp::LAnd => t(a != 0 && b != 0),
                BinOp::LOr => t(a != 0 || b != 0),
            }
        }
    }
}

// ---- self-check: a tiny independent precedence-climbing parser; render -> parse = identity ----

struct P<'a> {
    s: &'a [u8],
    i: usize,
}

impl<'a> P<'a> {
    fn ws(&mut self) {
        while self.i < self.s.len() && self.s[self.i] == b' ' {
            self.i += 1;
        }
    }
    fn peek_op(&mut self) -> Option<BinOp> {
        self.ws();
        let rest = &self.s[self.i..];
        // longest match first
        let mut best: Option<BinOp> = None;
        for op in BINOPS {
            let t = op.text().as_bytes();
            if rest.starts_with(t) && best.map(|b| b.text().len() < t.len()).unwrap_or(true) {
                best = Some(op);
            }
        }
        best
    }
    fn expr(&mut self, min_prec: u8) -> Option<E> {
        let mut lhs = self.unary()?;
        loop {
            let op = match self.peek_op() {
                Some(op) if op.prec() >= min_prec => op,
                _ => break,
            };
            self.i += op.text().len();
            let rhs = self.expr(op.prec() + 1)?;
            lhs = bin(op, lhs, rhs);
        }
        Some(lhs)
    }
    fn unary(&mut self) -> Option<E> {
        self.ws();
        let c = *self.s.get(self.i)?;
        let op = match c {
            b'-' => Some(UnOp::Neg),
            b'!' => Some(UnOp::LNot),
            b'~' => Some(UnOp::BNot),
            _ => None,
        };
        if let Some(op) = op {
            self.i += 1;
            let e = self.unary()?;
            return Some(un(op, e));
        }
        self.atom()
    }
    fn atom(&mut self) -> Option<E> {
        self.ws();
        let c = *self.s.get(self.i)?;
        if c == b'(' {
            self.i += 1;
            let e = self.expr(0)?;
            self.ws();
            if *self.s.get(self.i)? != b')' {
                return None;
            }
            self.i += 1;
            return Some(e);
        }
        if c.is_ascii_digit() {
            let st = self.i;
            while self.i < self.s.len() && self.s[self.i].is_ascii_digit() {
                self.i += 1;
            }
            let v: i64 = std::str::from_utf8(&self.s[st..self.i]).ok()?.parse().ok()?;
            return Some(E::Num(v, Radix::Dec));
        }
        if c.is_ascii_alphabetic() || c == b'_' {
            let st = self.i;
            while self.i < self.s.len() && (self.s[self.i].is_ascii_alphanumeric() || self.s[self.i] == b'_') {
                self.i += 1;
            }
            let name = std::str::from_utf8(&self.s[st..self.i]).ok()?.to_string();
            self.ws();
            if self.s.get(self.i) == Some(&b'(') {
                self.i += 1;
                let a = self.expr(0)?;
                self.ws();
                if *self.s.get(self.i)? != b')' {
                    return None;
                }
                self.i += 1;
                let f = FUNCS.iter().find(|f| **f == name)?;
                return Some(E::Func(f, Box::new(a)));
            }
            return Some(E::Sym(name, 0));
        }
        None
    }
}

pub fn parse(text: &str) -> Option<E> {
    let mut p = P { s: text.as_bytes(), i: 0 };
    let e = p.expr(0)?;
    p.ws();
    if p.i == p.s.len() {
        Some(e)
    } else {
        None
    }
}

/// structural equality ignoring symbol values and radix
pub fn same_shape(a: &E, b: &E) -> bool {
    match (a, b) {
        (E::Num(x, _), E::Num(y, _)) => x == y,
        (E::Sym(x, _), E::Sym(y, _)) => x == y,
        (E::Un(o1, x), E::Un(o2, y)) => o1 == o2 && same_shape(x, y),
        (E::Func(f1, x), E::Func(f2, y)) => f1 == f2 && same_shape(x, y),
        (E::Bin(o1, l1, r1), E::Bin(o2, l2, r2)) => o1 == o2 && same_shape(l1, l2) && same_shape(r1, r2),
        _ => false,
    }
}

/// Err(text) = the renderer or the evaluator is broken (machinery failure)
pub fn self_check() -> Result<usize, String> {
    let leaves = [num(1), num(2), num(7)];
    let mut n = 0usize;
    // render -> parse = identity on all trees with <= 2 binary operators, one unary anywhere
    for o1 in BINOPS {
        for o2 in BINOPS {
            for shape in 0..2 {
                for u in 0..4 {
                    let l = |i: usize| leaves[i].clone();
                    let wrap = |e: E| if u == 0 { e } else { un(UNOPS[u - 1], e) };
                    let t = if shape == 0 {
                        bin(o2, wrap(bin(o1, l(0), l(1))), l(2))
                    } else {
                        bin(o1, l(0), wrap(bin(o2, l(1), l(2))))
                    };
                    let text = t.render();
                    let back = parse(&text).ok_or_else(|| format!("cannot re-parse own rendering `{}`", text))?;
                    if !same_shape(&t, &back) {
                        return Err(format!("`{}` re-parses to a different tree: {:?} vs {:?}", text, back, t));
                    }
                    n += 1;
                }
            }
        }
    }
    // evaluator against Rust's own operators on a boundary grid
    let grid = [0i64, 1, -1, 2, 63, 64, 255, 1 << 31, i64::MAX, i64::MIN + 1, i64::MIN];
    for a in grid {
        for b in grid {
            let chk = |op: BinOp, want: Option<i64>| -> Result<(), String> {
                let got = eval(&bin(op, E::Sym("a".into(), a), E::Sym("b".into(), b)));
                match (want, &got) {
                    (Some(w), Val::Value(g)) if w == *g => Ok(()),
                    (None, Val::MustFail) => Ok(()),
                    (_, Val::Unspecified(_)) => Ok(()),
                    _ => Err(format!("evaluator: {} {:?} {} gives {:?}, Rust says {:?}", a, op, b, got, want)),
                }
            };
            chk(BinOp::Add, a.checked_add(b))?;
            chk(BinOp::Sub, a.checked_sub(b))?;
            chk(BinOp::Mul, a.checked_mul(b))?;
            chk(BinOp::Div, if b == 0 { None } else { a.checked_div(b) })?;
            chk(BinOp::And, Some(a & b))?;
            chk(BinOp::Or, Some(a | b))?;
            chk(BinOp::Xor, Some(a ^ b))?;
            chk(BinOp::Lt, Some((a < b) as i64))?;
            chk(BinOp::Ne, Some((a != b) as i64))?;
            n += 9;
        }
    }
    // a few literal identities
    let must = [("1 + 2 * 3", 7i64), ("(1 + 2) * 3", 9), ("10 - 2 - 1", 7), ("1 << 2 + 1", 8), ("~0", -1), ("!0", 1), ("-2 * 3", -6), ("7 & 3 == 3", 1), ("1 | 2 ^ 3 & 4", 3)];
    for (t, v) in must {
        let e = parse(t).ok_or_else(|| format!("cannot parse {}", t))?;
        if eval(&e) != Val::Value(v) {
            return Err(format!("`{}` evaluates to {:?}, expected {}", t, eval(&e), v));
        }
        n += 1;
    }
    Ok(n)
}
