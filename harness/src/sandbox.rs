//! E5 — process-level driver: a pool of sandboxed worker processes (address-space limit, 8 MiB
//! stack, per-case watchdog) that run untrusted-input cases on the real code and survive
//! crashes, stack overflows, allocation failures and hangs.

use std::io::{BufRead, BufReader, Read, Write};
use std::process::{Command, Stdio};
use std::sync::atomic::{AtomicU64, AtomicUsize, Ordering};
use std::sync::mpsc;
use std::time::Duration;

use crate::sut::{self, Outcome};

#[derive(Clone, Debug, PartialEq, Eq)]
pub enum Hard {
    Panic { site: String, msg: String },
    Abort { signal: i32, stderr_tail: String },
    StackOverflow,
    Oom { stderr_tail: String },
    Timeout,
}

#[derive(Clone, Debug)]
pub struct Case {
    /// b'S' = build_str(text); b'F' = build_file(text as path, no include directories)
    pub kind: u8,
    pub text: String,
}

pub const ADDRESS_SPACE_LIMIT: u64 = 1 << 30;
pub const WORKER_STACK: usize = 8 << 20;

/// Entry point of `vcheck worker16` (child process).
pub fn worker_main() -> i32 {
    unsafe {
        let lim = libc::rlimit { rlim_cur: ADDRESS_SPACE_LIMIT, rlim_max: ADDRESS_SPACE_LIMIT };
        libc::setrlimit(libc::RLIMIT_AS, &lim);
        // no core dumps
        let z = libc::rlimit { rlim_cur: 0, rlim_max: 0 };
        libc::setrlimit(libc::RLIMIT_CORE, &z);
    }
    let h = std::thread::Builder::new()
        .stack_size(WORKER_STACK)
        .spawn(|| {
            let stdin = std::io::stdin();
            let mut inp = BufReader::new(stdin.lock());
            let stdout = std::io::stdout();
            let mut out = stdout.lock();
            let (mut ok, mut err) = (0u64, 0u64);
            let mut header = String::new();
            loop {
                header.clear();
                if inp.read_line(&mut header).unwrap_or(0) == 0 {
                    break;
                }
                // "<index> <kind> <len>"
                let mut it = header.split_whitespace();
                let idx: usize = it.next().and_then(|x| x.parse().ok()).unwrap_or(0);
                let kind = it.next().unwrap_or("S").as_bytes()[0];
                let len: usize = it.next().and_then(|x| x.parse().ok()).unwrap_or(0);
                let mut buf = vec![0u8; len];
                if inp.read_exact(&mut buf).is_err() {
                    break;
                }
                let text = String::from_utf8_lossy(&buf).to_string();
                let _ = writeln!(out, "S {}", idx);
                let _ = out.flush();
                let o = if kind == b'F' {
                    sut::build_file(std::path::PathBuf::from(&text), Default::default())
                } else {
                    sut::build_str(&text)
                };
                match o {
                    Outcome::Ok(_) => ok += 1,
                    Outcome::Err(_) => err += 1,
                    Outcome::Panic { site, msg } => {
                        let _ = writeln!(out, "P {} {}\t{}", idx, site, msg.replace('\n', " ").replace('\t', " "));
                    }
                }
            }
            let _ = writeln!(out, "END {} {}", ok, err);
            let _ = out.flush();
        })
        .unwrap();
    let _ = h.join();
    0
}

pub struct Counts {
    pub ok: u64,
    pub err: u64,
    pub hard: u64,
    pub worker_restarts: u64,
    /// cases that were not run because the cap on hard failures was reached (0 on a tree that
    /// has no such failures; a run that hits the cap has violations to report anyway)
    pub skipped_after_cap: u64,
}

/// After this many crashes / overflows / timeouts the remaining cases are not run any more: each
/// costs a worker restart (a timeout also its full time), and the verdict is settled long before.
pub const HARD_CAP: u64 = 160;

/// Run one chunk in one worker process, restarting after every hard failure.
fn run_chunk(exe: &std::path::Path, cases: &[Case], base: usize, timeout: Duration, on_hard: &(dyn Fn(usize, Hard) + Sync), ok: &AtomicU64, err: &AtomicU64, restarts: &AtomicU64, hard_seen: &AtomicU64, skipped: &AtomicU64) {
    let mut start = 0usize;
    while start < cases.len() {
        if hard_seen.load(Ordering::Relaxed) >= HARD_CAP {
            skipped.fetch_add((cases.len() - start) as u64, Ordering::Relaxed);
            return;
        }
        let mut child = Command::new(exe)
            .arg("worker16")
            .env("RUST_BACKTRACE", "0")
            .env("RUST_FAILURE_BACKTRACE", "0")
            .stdin(Stdio::piped())
            .stdout(Stdio::piped())
            .stderr(Stdio::piped())
            .spawn()
            .unwrap_or_else(|e| crate::report::machinery_fail(&format!("cannot spawn sandbox worker: {}", e)));
        let mut stdin = child.stdin.take().unwrap();
        let stdout = child.stdout.take().unwrap();
        let mut stderr = child.stderr.take().unwrap();
        // feeder thread (so that a worker blocked on output can never deadlock with us)
        let feed: Vec<(usize, u8, String)> = cases[start..].iter().enumerate().map(|(i, c)| (start + i, c.kind, c.text.clone())).collect();
        let feeder = std::thread::spawn(move || {
            for (i, k, t) in feed {
                if stdin.write_all(format!("{} {} {}\n", i, k as char, t.len()).as_bytes()).is_err() {
                    return;
                }
                if stdin.write_all(t.as_bytes()).is_err() {
                    return;
                }
            }
        });
        let (tx, rx) = mpsc::channel::<String>();
        let reader = std::thread::spawn(move || {
            let r = BufReader::new(stdout);
            for l in r.lines() {
                match l {
                    Ok(l) => {
                        if tx.send(l).is_err() {
                            break;
                        }
                    }
                    Err(_) => break,
                }
            }
        });
        let errt = std::thread::spawn(move || {
            let mut s = Vec::new();
            let _ = stderr.read_to_end(&mut s);
            let s = String::from_utf8_lossy(&s).to_string();
            let n = s.len();
            s[n.saturating_sub(600)..].to_string()
        });
        let mut current: Option<usize> = None;
        let mut finished = false;
        let mut timed_out = false;
        loop {
            match rx.recv_timeout(timeout) {
                Ok(line) => {
                    if let Some(r) = line.strip_prefix("S ") {
                        current = r.trim().parse().ok();
                    } else if let Some(r) = line.strip_prefix("P ") {
                        let (i, rest) = r.split_once(' ').unwrap_or((r, ""));
                        let (site, msg) = rest.split_once('\t').unwrap_or((rest, ""));
                        if let Ok(i) = i.parse::<usize>() {
                            on_hard(base + i, Hard::Panic { site: site.to_string(), msg: msg.to_string() });
                        }
                    } else if let Some(r) = line.strip_prefix("END ") {
                        let mut it = r.split_whitespace();
                        ok.fetch_add(it.next().and_then(|x| x.parse().ok()).unwrap_or(0), Ordering::Relaxed);
                        err.fetch_add(it.next().and_then(|x| x.parse().ok()).unwrap_or(0), Ordering::Relaxed);
                        finished = true;
                    }
                }
                Err(mpsc::RecvTimeoutError::Timeout) => {
                    timed_out = true;
                    let _ = child.kill();
                    break;
                }
                Err(mpsc::RecvTimeoutError::Disconnected) => break,
            }
        }
        let status = child.wait().ok();
        let _ = reader.join();
        let tail = errt.join().unwrap_or_default();
        let _ = feeder.join();
        if finished {
            return;
        }
        // the worker died (or was killed) while running case `current`
        restarts.fetch_add(1, Ordering::Relaxed);
        let cur = match current {
            Some(c) => c,
            None => {
                // died before the first case: machinery problem
                crate::report::machinery_fail(&format!("sandbox worker died before running any case: {:?} {}", status, tail));
            }
        };
        // ok/err counts of the cases before `cur` are lost with the worker; count them as run
        let hard = if timed_out {
            Hard::Timeout
        } else if tail.contains("has overflowed its stack") {
            Hard::StackOverflow
        } else if tail.contains("memory allocation of") {
            Hard::Oom { stderr_tail: tail.clone() }
        } else {
            use std::os::unix::process::ExitStatusExt;
            Hard::Abort { signal: status.and_then(|s| s.signal()).unwrap_or(0), stderr_tail: tail.clone() }
        };
        on_hard(base + cur, hard);
        start = cur + 1;
    }
}

/// Run all cases on a pool of `nworkers` sandboxed processes. `on_hard` is called for every
/// outcome that is neither Ok nor Err.
pub fn run_cases(cases: &[Case], nworkers: usize, timeout: Duration, on_hard: &(dyn Fn(usize, Hard) + Sync)) -> Counts {
    let exe = std::env::current_exe().unwrap_or_else(|e| crate::report::machinery_fail(&format!("current_exe: {}", e)));
    let ok = AtomicU64::new(0);
    let err = AtomicU64::new(0);
    let restarts = AtomicU64::new(0);
    let hard = AtomicU64::new(0);
    let skipped = AtomicU64::new(0);
    let chunk = 4000usize;
    let nchunks = (cases.len() + chunk - 1) / chunk;
    let next = AtomicUsize::new(0);
    let counting = |i: usize, h: Hard| {
        hard.fetch_add(1, Ordering::Relaxed);
        on_hard(i, h);
    };
    std::thread::scope(|s| {
        for _ in 0..nworkers.min(nchunks.max(1)) {
            s.spawn(|| loop {
                let c = next.fetch_add(1, Ordering::Relaxed);
                if c >= nchunks {
                    break;
                }
                let lo = c * chunk;
                let hi = (lo + chunk).min(cases.len());
                run_chunk(&exe, &cases[lo..hi], lo, timeout, &counting, &ok, &err, &restarts, &hard, &skipped);
            });
        }
    });
    Counts { ok: ok.load(Ordering::Relaxed), err: err.load(Ordering::Relaxed), hard: hard.load(Ordering::Relaxed), worker_restarts: restarts.load(Ordering::Relaxed), skipped_after_cap: skipped.load(Ordering::Relaxed) }
}

/// Re-run one case alone with a long timeout (used before a timeout is called a hang).
pub fn run_alone(case: &Case, timeout: Duration) -> Option<Hard> {
    let res: std::sync::Mutex<Option<Hard>> = std::sync::Mutex::new(None);
    let cb = |_: usize, h: Hard| {
        *res.lock().unwrap() = Some(h);
    };
    let _ = run_cases(std::slice::from_ref(case), 1, timeout, &cb);
    let r = res.lock().unwrap().clone();
    r
}
