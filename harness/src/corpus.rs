//! The corpus of small valid programs used by the deviation-bounded explorer (E3): every
//! construct of the grammar at least once. Names never collide with register spellings
//! (x, y, z, r<digits>); numeric literals stay below 40 or above 400 so that a decimal token in an
//! error text can be matched against a line number (C15).

pub fn programs() -> Vec<(&'static str, &'static str)> {
    vec![
        ("arith", "\
start_lbl:
    add r0, r1
    adc r2, r3 ; carry
    sub r4, r5
    sbc r6, r7
    and r8, r9
    or r10, r11
    eor r12, r13
    mov r14, r15
    cp r16, r17
    cpc r18, r19
    cpse r20, r21
    mul r22, r23
"),
        ("immediates", "\
.equ mask_k = 0x0f
    ldi r16, 10
    cpi r17, $1f
    subi r18, 0b101
    sbci r19, 017
    andi r20, mask_k
    ori r21, 'A'
    sbr r22, 1 << 3
    cbr r23, low(0x1234)
    ser r24
"),
        ("one-register", "\
    com r0
    neg r1
    inc r2
    dec r3
    tst r4
    clr r5
    lsl r6
    lsr r7
    rol r8
    ror r9
    asr r10
    swap r11
    push r12
    pop r13
"),
        ("word-ops", "\
    movw r2, r4
    adiw r24, 5
    sbiw r26, 33
    muls r16, r17
    mulsu r18, r19
    fmul r20, r21
    fmuls r22, r23
    fmulsu r16, r23
"),
        ("pointers", "\
    ld r0, X
    ld r1, X+
    ld r2, -X
    ld r3, Y
    ld r4, Y+
    ld r5, -Y
    ld r6, Z
    ld r7, Z+
    ld r8, -Z
    st X, r9
    st Y+, r10
    st -Z, r11
    ldd r12, Y+5
    ldd r13, Z+33
    std Y+1, r14
    std Z+2*3, r15
"),
        ("memory", "\
.dseg
var_one: .byte 2
var_two: .byte 1
.cseg
    lds r16, var_one
    sts var_two, r16
    lds r17, 0x0123
    sts $0456, r17
    lpm
    lpm r18, Z
    lpm r19, Z+
    elpm
    elpm r20, Z
    elpm r21, Z+
    spm
"),
        ("io-and-bits", "\
.equ port_k = 0x18
    in r16, 0x3f
    out port_k, r16
    sbi port_k, 3
    cbi 0x12, 0
    sbic 0x10, 7
    sbis port_k + 1, 2
    sbrc r16, 0
    sbrs r17, 7
    bst r18, 4
    bld r19, 5
    bset 6
    bclr 1
    sec
    clz
    sei
    cli
    seh
    clt
"),
        ("branches", "\
loop_top:
    nop
    breq loop_top
    brne fwd_lbl
    brcs loop_top
    brcc fwd_lbl
    brsh loop_top
    brlo fwd_lbl
    brmi loop_top
    brpl fwd_lbl
    brge loop_top
    brlt fwd_lbl
    brhs loop_top
    brhc fwd_lbl
    brts loop_top
    brtc fwd_lbl
    brvs loop_top
    brvc fwd_lbl
    brie loop_top
    brid fwd_lbl
    brbs 3, loop_top
    brbc 2, fwd_lbl
fwd_lbl:
    rjmp loop_top
    rcall fwd_lbl
    jmp loop_top
    call fwd_lbl
    rjmp pc-2
    brne pc+1
"),
        ("control", "\
    ijmp
    icall
    eijmp
    eicall
    ret
    reti
    sleep
    wdr
    break
    nop
"),
        ("data-flash", "\
tbl_bytes: .db 1, 2, 3
tbl_str: .db \"Hello, World\", 0
tbl_punct: .db \"a;b // c /* d */\", 10
tbl_words: .dw 0x1234, tbl_bytes, -1
tbl_dd: .dd 0x12345678, 1
tbl_dq: .dq 0x1122334455667788
    ldi r30, low(tbl_str * 2)
    ldi r31, high(tbl_str * 2)
"),
        ("data-eeprom", "\
.eseg
ee_a: .db 1, 2, 3
ee_b: .dw 0xbeef
ee_c: .byte 3
ee_d: .dd 7
.cseg
    ldi r16, ee_b
    ldi r17, ee_d
"),
        ("segments-org", "\
    nop
.org 0x10
at_ten: nop
.dseg
.org 0x70
buf_a: .byte 4
.eseg
.org 5
ee_x: .db 9
.cseg
    ldi r16, low(buf_a)
    ldi r17, ee_x
    ldi r18, at_ten
"),
        ("operators", "\
.equ va = 12
.equ vb = 5
    .dw va + vb, va - vb, va * vb, va / vb, va % vb
    .dw va << 2, va >> 1, va & vb, va | vb, va ^ vb
    .dw va < vb, va <= vb, va > vb, va >= vb, va == vb, va != vb
    .dw va && vb, va || 0, !va, ~va & 0xff, -va + 20
    .dw (va + vb) * 2, va + vb * 2, 2 * (va - (vb - 1))
"),
        ("functions", "\
.equ big_k = 0x12345678
    ldi r16, low(big_k)
    ldi r17, high(big_k)
    ldi r18, byte2(big_k)
    ldi r19, byte3(big_k)
    ldi r20, byte4(big_k)
    .dw lwrd(big_k), hwrd(big_k), exp2(4)
"),
        ("literals", "\
    .dw 1000, $3e8, 0x3e8, 0b1111101000, 01750
    .db 'a', 'Z', ' ', ';', 0x7F, $0a, 0b11, 07
    .dw 0xABCD, 0xabcd, $AbCd
"),
        ("symbols", "\
.equ first_k = 3
.set counter_v = 1
.def temp_reg = r16
    ldi temp_reg, first_k
    ldi r17, counter_v
.set counter_v = counter_v + 1
    ldi r18, counter_v
    mov temp_reg, r17
.undef temp_reg
.def other_reg = r20
    inc other_reg
    ldi r19, later_k
.equ later_k = 7
"),
        ("conditionals", "\
.equ mode_k = 2
.define HAS_FEATURE
.if mode_k == 1
    ldi r16, 1
.elif mode_k == 2
    ldi r16, 2
.else
    ldi r16, 3
.endif
.ifdef HAS_FEATURE
    ldi r17, 1
.else
    ldi r17, 0
.endif
.ifndef HAS_FEATURE
    this line is never assembled
.endif
#ifdef HAS_FEATURE
    nop
#endif
.if 0
  .if 1
    garbage here too
  .endif
.endif
"),
        ("macros", "\
.macro load_pair
    ldi @0, low(@2)
    ldi @1, high(@2)
.endmacro
.macro store_it
    st @0, @1
    .if @2 > 1
    nop
    .endif
.endm
    load_pair r16, r17, 0x1234
    load_pair r18, r19, 1000 + 24
    store_it X+, r16, 2
    store_it -Y, r17, 1
"),
        ("messages", "\
.message \"first info\"
    nop
.warning \"take care\"
    nop
.if 0
.error \"never\"
.endif
.message \"last info\"
"),
        ("device", "\
.device ATmega48
    jmp 0
    lds r16, 0x100
.dseg
ram_v: .byte 16
.cseg
    ldi r17, low(ram_v)
"),
        ("device-reduced", "\
.device ATtiny20
    lds r16, 0x40
    sts 0x41, r16
    ldi r17, 1
"),
        ("comments", "\
; leading comment
// another style
/* block style */
lbl_one: ; label with comment
lbl_two: nop // trailing
    nop /* trailing block */
    ldi r16, 1 ; semi
.equ c_k = 1 ; on a directive
    .db 1, 2 // on data
    nop;no blank before the comment
    ldi r17, 2//none here either

    nop
"),
        ("pragma-exit", "\
#pragma AVRPART MEMORY PROG_FLASH 4096
.includepath \"nonexistent_dir\"
    nop
    ldi r16, 2
.exit
this is never read
"),
        ("tight-spacing", "\
.equ tk=3
    ldi r16,1+2*3
    mov r1,r2
    .db 1,2,(3+4)*2,tk
    .dw low(0x1234),high( 0x1234 ),tk<<2|1
    ldd r4,Y+tk
"),
        ("mixed", "\
.equ top_k = 0x1ff
.dseg
stack_v: .byte 8
.cseg
reset_v:
    ldi r16, low(top_k)
    out 0x3d, r16
    ldi r16, high(top_k)
    out 0x3e, r16
    rcall init_v
main_v:
    sbic 0x16, 2
    rjmp main_v
    lds r17, stack_v
    inc r17
    sts stack_v, r17
    rjmp main_v
init_v:
    clr r17
    ret
msg_v: .db \"ok\", 0, 0
"),
        // a macro whose body defines a label and refers to it, called once; an alias and a
        // variable used inside a macro body and re-bound after the call
        ("macro-inner-label", "\
.def tmp_a = r16
.set cnt_v = 3
.macro wait_m
    ldi tmp_a, cnt_v
wait_top_l:
    dec tmp_a
    brne wait_top_l
    rjmp wait_end_l
    nop
wait_end_l:
    .dw wait_top_l, cnt_v
.endm
    ldi r17, 1
    wait_m
.undef tmp_a
.def tmp_a = r18
.set cnt_v = 5
    ldi tmp_a, cnt_v
    ldi r17, low(wait_top_l)
"),
    ]
}
