#!/usr/bin/env python3
"""Writes seeded/<id>/meta.json from the table below and seeded/<id>/eval.json, and prints the
markdown table for DESIGN.md section 13."""
import json, os, sys
ROOT = os.path.dirname(os.path.dirname(os.path.abspath(__file__)))
M = {
 "C01-A": ("pass 1 sizes `sts` as two words on the reduced core (new Operation::words() forgets Sts in the avr8l arm); the encoder still emits one", "`.device ATtiny20`, an `sts`, and a later label used as an operand"),
 "C01-B": ("range checks rewritten with RangeInclusive; the br* check became the half-open `-64..63`", "a conditional branch whose target is exactly 63 words ahead"),
 "C02-A": ("`.db` strings get C-style escapes decoded where the bytes are produced (pass 2) but are still sized raw in pass 1", "a `.db` string containing a backslash escape, followed by a label or item in the same segment"),
 "C02-B": ("pass 1 skips item-less segments (`if segment.is_empty() { continue }`) and so loses a pending .org", "`.org N` directly followed by a segment directive and a later return to that segment type"),
 "C03-A": ("relative displacement narrowed with `as i16` before the range check in a shared helper", "a branch/rjmp target about 64 K words (or a multiple) away"),
 "C03-B": ("pass 1 sizes `sts` as two words on the reduced core (same slip as C01-A, found independently)", "`.device ATtiny20`, an `sts` between the branch and its target label"),
 "C04-A": ("I/O address evaluated with `run()? as i8` instead of `get_byte()? as i8`", "a port operand >= 256 (or <= -193) congruent mod 256 to a legal port"),
 "C04-B": ("register-class checks moved into a table that only inspects literal register operands", "a `.def` alias of an out-of-class register (`.def t = r5` / `ldi t, 1`)"),
 "C05-A": ("grammar tidy-up drops the `--` between the equality and relational precedence levels", "an `==`/`!=` whose unparenthesised right operand is a relational expression and whose grouping matters"),
 "C05-B": ("clippy-style range rewrite makes the shift-count guard `!(0..63).contains`", "a shift count of exactly 63"),
 "C06-A": ("EEPROM `.byte n` implemented with `Vec::resize(n, 0)` (total length, not growth)", "`.byte` after other data in the same EEPROM segment"),
 "C06-B": ("`.dw`/`.dd` range check rewritten as a sign-extension bit trick that admits one more bit", "a negative operand just below the signed minimum (-32769, -2147483649)"),
 "C07-A": ("segment/linear switch decided by `address <= 0x10_0000` instead of `block < 16`", "a code image larger than 1 MiB (only the default device can produce one)"),
 "C07-B": ("writers merged into a BufWriter helper that opens with OpenOptions without truncate", "the output path already holds a longer file"),
 "C08-A": ("the loop that skips the rest of a finished conditional forgets `.ifndef` in its nesting count", "a selected arm followed by `.elif`, and a later unselected arm containing a nested `.ifndef`"),
 "C08-B": ("condition helper returns `value > 0` instead of `value != 0`", "a condition that evaluates to a negative number"),
 "C09-A": ("Display elides parentheses of an operand that uses the same operator as its parent - also on the right", "a macro argument like `10-(4-1)` / `64/(8/2)`"),
 "C09-B": ("pass 0 hoists the 'current output segment' lookup out of the item loop", "a call of a macro whose body contains `.org`, followed by a call of another macro in the same caller segment"),
 "C10-A": ("duplicate-label check uses a per-segment local map instead of the global table's return value", "two definitions of a label in different segments (after `.org`, a repeated `.cseg`, ...)"),
 "C10-B": ("`.set` is additionally evaluated at parse time into the same table, which pass 2 never resets", "a `.set` variable referenced before its first assignment while a later assignment exists; or a `.set` name clashing with an `.equ`/label"),
 "C11-A": ("the included file's directory is recorded from the name as written instead of the path where it was found", "an include with a directory part found through a search directory, which then includes a neighbour by bare name"),
 "C11-B": ("a 'still skipping' state is returned from an included file and adopted by the includer", "an included file whose very last line is the `.endif` of a conditional whose final arm was skipped"),
 "C12-A": ("ram_filling summed per data segment (end - start) instead of the data extent", "a `.dseg` segment positioned with `.org` above RAM start"),
 "C12-B": ("'device already selected' marker kept in a field that is not shared between file contexts", "the first `.device` inside an included file, the second later in the includer or a sibling include"),
 "C13-A": ("device-gate verdict memoised per mnemonic for one build", "an allowed form of ld/st/lpm/elpm before a lacking form of the same mnemonic in one build"),
 "C13-B": ("lpm/elpm gate folded into the operand check: NoLpm/NoElpm only consulted for the operand-less form", "`lpm Rd,Z(+)` on AT90S1200/ATtiny20, `elpm Rd,Z(+)` on any NoElpm device"),
 "C14-A": ("symbol cache keyed by the reference as written, invalidated by the case-folded name", "a `.set` symbol referenced, re-assigned and referenced again, the references written with an upper-case letter"),
 "C14-B": ("multi-line `/* */` comments added; the opener scan does not know `//`", "a `//` comment whose text contains `/*` with no closer on that line"),
 "C15-A": ("`&&`/`||` short-circuit on their left operand", "an undefined symbol as the right operand of `&&` with a zero left operand (or of `||` with a non-zero one)"),
 "C15-B": ("`.error` only records its message; a check at the end of parsing fails the build", "an `.error` assembled inside the body of a macro that is actually called"),
 "C16-A": ("the `.set` name-clash error calls get_expr() while the sets table is mutably borrowed", "a `.set` whose name is already a label, a `.def` alias or `pc`"),
 "C16-B": ("skip() pre-filters lines by 'contains . or #' and drops the nesting guard there", "a line nested thousands of levels deep, containing `.`/`#`, inside an unselected arm or a macro body"),
 "C17-A": ("process-wide cache of where an included file was found, keyed by the path as written", "two builds in one process that include the same relative name resolved through different directories"),
 "C17-B": ("process-wide registry of files currently being parsed, to detect include cycles at once", "a build reaching `.include F` while another thread's build is still inside F"),
 "C18-A": ("writers stream through a BufWriter that is never flushed: I/O errors are swallowed in Drop", "an output location that opens but rejects writes (/dev/full, full disk) and a hex text below 8 KiB"),
 "C18-B": ("default output name built with file_prefix() instead of file_stem()", "a source file name with more than one dot, and a default output name in use"),
 # ---- round 2 (same protocol, prompt asked for changes that need something specific to manifest) ----
 "C01-C": ("`pc` is published once per segment and after items that move the counter; the `.db/.dw` arm forgets to", "a data directive in the code segment directly followed by an instruction whose operand uses `pc`"),
 "C01-D": ("the symbol-resolution budget of expression evaluation (100 000) moved into the build context and is never reset", "one build with more than 100 000 look-ups of expression-defined symbols in total (e.g. ~25 000 instructions using such a symbol)"),
 "C02-C": ("`.db` strings are emitted one byte per character (Latin-1) but still sized by their UTF-8 length", "a `.db` string with a character in U+0080..U+00FF followed by anything whose address matters"),
 "C02-D": ("'is this the reduced core' cached in a thread_local by Operation::info(), never reset", "on one thread: a build with lds/sts, then a build for the other kind of core with lds/sts followed by labels"),
 "C03-C": ("an `.equ` whose definition is not a literal is frozen to its first evaluated value", "an `.equ` defined through `pc`, used at two different addresses (not pinned by any property: the late evaluation of `pc` inside `.equ` is a quirk of this tool, see 15.4)"),
 "C03-D": ("rjmp/rcall displacement wrapped modulo 4096 on devices with exactly 4096 words of flash", "such a device (ATmega8, ...) and an rjmp/rcall whose target is more than 2047 ahead / 2048 behind"),
 "C04-C": ("register-class checks folded into a helper that only tests registers written literally", "a `.def` alias of an out-of-class register in a class-restricted position"),
 "C04-D": ("relative displacement cast to i16 before the shared range check", "a target whose distance is k*65536 + (in-range value), k != 0"),
 "C05-C": ("`+`/`-` chains accumulated in i128 with one range check at the end", "a chain of two or more `+`/`-` whose running value leaves the i64 range and comes back"),
 "C05-D": ("nesting depth of symbol definitions is counted but never wound back", "one evaluation resolving more than 64 expression-defined symbols side by side"),
 "C06-C": ("byte length of a `.db` line cached by (line number, item number)", "two `.db` lines with the same line number and different lengths (main file and include, or a macro `.db \"@0\"`)"),
 "C06-D": ("pass 2 builds the flash image first and the EEPROM image second (two walks over the segments)", "an EEPROM data directive using a `.set` symbol that a later code segment re-assigns (or the reverse)"),
 "C07-C": ("writers merged; file opened with OpenOptions write+create, without truncate", "the output path already holds a longer file"),
 "C07-D": ("CRLF text assembled in a thread_local buffer that is cleared after the write - not when the write fails", "a failed write followed by any other write on the same thread"),
 "C08-C": ("skip pre-filter looks for the directive after the first `:` of the line", "a conditional directive met while skipping whose trailing comment contains a `:`"),
 "C08-D": ("expansion cache for argument-less macros keyed by (name, segment start address)", "a macro without arguments used twice whose body holds a conditional that is decided differently the second time"),
 "C09-C": ("expansion cache keyed by macro name + rendered arguments", "the same call twice, in different `.org` regions or with an emit-once conditional in the body"),
 "C09-D": ("macro call stack (for diagnostics) is not popped when an expansion places nothing", "64 macro calls with empty expansion in one build, then any macro call"),
 "C10-C": ("`.set` also evaluated at parse time; table cleared after parsing, but pass 0 re-parses macro bodies", "a `.set` inside an invoked macro body and a reference to the symbol before the call"),
 "C10-D": ("pass 2 skips data segments altogether", "a `.def`, `.undef` or `.set` standing in `.dseg`, used later in `.cseg`/`.eseg`"),
 "C11-C": ("directory of an included file taken from the name as written", "an include with a directory part found through a search directory, including a neighbour by bare name"),
 "C11-D": ("directories added by an included file are copied back by position in the sorted set", "an included file doing `.includepath` with a directory that sorts before one already known; a later include from it"),
 "C12-C": ("pass-0 capacity guard counts lds/sts as two words on every device", "`.device ATtiny20` with the flash filled (nearly) exactly by one-word lds/sts"),
 "C12-D": ("'device already selected' kept in a Cell<bool> that is copied into include/macro contexts", "first `.device` inside an include or macro body, second one outside it"),
 "C13-C": ("device-gate verdict memoised per mnemonic in pass 2", "an allowed form of a mnemonic before a lacking form of the same mnemonic in one segment"),
 "C13-D": ("mnemonic gate moved into pass 0, using a device snapshot taken before macro expansion", "`.device` executed during pass 0 (inside a macro body) and a lacking mnemonic"),
 "C14-C": ("skip fast path recognises conditional directives only when the name is followed by a blank", "while skipping: `.else;x`, `.endif//x`, `.if(1)` and the like"),
 "C14-D": ("re-assignment of a `.set` symbol filed under its source spelling", "a second `.set` of a name written with an upper-case letter"),
 "C15-C": ("`.error` deferred to the end of parse(); macro expansion never looks at the list", "an `.error` assembled inside the body of an invoked macro"),
 "C15-D": ("`&&`/`||` short-circuit", "an undefined symbol (or division by zero) right of `&&`/`||` whose left operand decides"),
 "C16-C": ("macro nesting depth not incremented for body pieces behind a segment directive", "a macro calling itself after a segment switch in its body"),
 "C16-D": ("capacity checks moved into the per-item `advance` of pass 1", "an `.org` far beyond the device followed only by lines that occupy no space"),
 "C17-C": ("instruction counter of the pass-0 capacity guard became a process-wide atomic", "two builds in pass 0 at the same time whose instruction counts together exceed one device's flash"),
 "C17-D": ("evaluation guards kept in thread_local cells; the nesting level is not restored on the error path", "on one thread: a build failing inside a symbol's definition (cyclic `.equ`), then a build using an expression-defined symbol"),
 "C18-C": ("records streamed through a BufWriter that is dropped without flush", "an output that opens but rejects writes, and a hex text below the 8 KiB buffer"),
 "C18-D": ("default output path = source.with_extension(\"\").with_extension(ext)", "no -o/-e and a source name whose stem contains a dot"),
 # ---- round 3 (prompt: hide the change in the corners of the quantifier a systematic checker is least likely to visit) ----
 "C01-E": ("rjmp/rcall displacement wrapped around the flash on every device with at most 4 K words", "a device of 512..2048 words and an rjmp/rcall over at least half the flash (caught by C03: the reach of relative jumps is its subject)"),
 "C01-F": ("pass 1 sizes lds/sts from a static table (two words), pass 2 emits one word on the reduced core", "`.device ATtiny20`, an lds/sts and a later label used as an operand"),
 "C02-E": ("zero fill of gaps copied page-wise; the page count is computed in cells, the remainder in bytes", "a code-segment .org gap of 2048 words or more"),
 "C02-F": ("C-style escapes in strings; pass 1 mis-counts an escaped backslash", "a `.db` string containing `\\\\` followed by anything whose address matters"),
 "C03-E": ("pass 1 sizes instructions from a device-blind table", "`.device ATtiny20` and an lds/sts between a branch and its target"),
 "C03-F": ("pass 2 memoises the encoded bytes per source line (line number, item number)", "a macro body holding a branch to a label outside the macro, expanded at two or more addresses"),
 "C04-E": ("operand errors are collected per segment; the 'failed' flag is overwritten by each later segment", "an instruction the ISA cannot encode, followed by another non-empty, error-free segment"),
 "C04-F": ("rjmp/rcall targets reduced modulo 4096 on devices with 4096 words before the range check", "such a device and a target more than 2 K words away or outside the device"),
 "C05-E": ("`&&` / `||` stop at the left operand when it decides", "a division by zero, an overflow or an out-of-range shift in the right operand of `&&`/`||` whose left operand decides"),
 "C05-F": ("cycle detection keeps a set of symbols being resolved: inserted lower-cased, removed as written", "an expression-defined `.equ` written with a capital letter, used twice within one evaluation"),
 "C06-E": ("`.dw <bare label>` is written straight from the label table as u16, skipping the range check", "a label above 0xFFFF (behind `.org 0x10000`) as a bare `.dw` operand"),
 "C06-F": ("the nesting guard counts `-`, `!`, `~` inside strings", "a string operand with a run of more than 200 such characters"),
 "C07-E": ("one record builder reused for the code and the EEPROM text; its block counter is not reset", "one build result with a code image of 64 KiB or more and a non-empty EEPROM image"),
 "C07-F": ("'leave an unchanged file alone': the file is opened read+write, compared, rewritten from the start, never truncated (and /dev/full is read without end)", "the output path already holds a longer file"),
 "C08-E": ("skip pre-filter hands only lines beginning with `.`/`#` to the grammar", "a conditional directive with a label in front of it inside skipped text"),
 "C08-F": ("new 'missing .endif' error, also raised when the file was ended by `.exit`", "an assembled `.exit` inside a selected arm"),
 "C09-E": ("expansion cache for bodies that define nothing, keyed by name, arguments and segment address", "a macro that tests a flag, another macro that defines it, the first one called before and after"),
 "C09-F": ("new 'missing argument' error that also inspects unselected arms and comments", "a call that omits a trailing argument mentioned only in an unselected arm or a comment"),
 "C10-E": ("new device gate for r0..r15 on the reduced core that only sees registers written literally", "`.device ATtiny20`, an alias of r0..r15, any instruction with a register operand"),
 "C10-F": ("duplicate-label check against a per-segment table", "two definitions of one label separated by `.org` or a segment directive"),
 "C11-E": ("build-wide cache from the include name as written to the path where it was found", "the same name beside two different includers; or a name that exists only beside another includer"),
 "C11-F": ("new 'missing .endif' error, also raised when the file was ended by `.exit`", "an include guard: `.ifdef G / .exit / .endif` on the second inclusion"),
 "C12-E": ("the device is looked up before pass 0 for the final capacity check and the reported sizes", "`.device` inside the body of a macro that is called"),
 "C12-F": ("pass-0 budget became a word budget that also charges data lines - including EEPROM data a macro places", "flash at (nearly) full capacity plus a macro whose body starts with `.eseg` data"),
 "C13-E": ("device-gate verdict memoised per mnemonic in pass 2", "an available form of a mnemonic before a lacking form of the same mnemonic"),
 "C13-F": ("pass 1 sizes `sts` as two words on the reduced core (lds handled, sts forgotten)", "`.device ATtiny20`, an sts and a later label"),
 "C14-E": ("skip pre-filter that steps over a leading label at the first `:` unless a space precedes it", "a conditional directive in skipped text with a glued or tab-separated comment containing `:`"),
 "C14-F": ("`pc` kept in a Cell; the fast path compares the name before case-folding", "`PC` / `Pc` not as the first item of its segment"),
 "C15-E": ("line continuation: a trailing backslash joins the next line before lines are numbered", "a comment line ending in a backslash before the faulty line / message"),
 "C15-F": ("skip pre-filter hands only lines beginning with `.`/`#` to the grammar", "an `.error` / message behind a labelled `.endif` or inside an arm opened by a labelled `.if`"),
 "C16-E": ("the `.set` 'used twice' error describes the other symbol while the table is mutably borrowed", "a `.set` name clashing with an `.equ` whose expression mentions a label, a `.set` symbol or `pc`"),
 "C16-F": ("exp2/log2 helpers evaluate their argument through the public entry point: the cycle and cost guards restart", "definitions that are cyclic through exp2 or log2, plus one evaluated use"),
 "C17-E": ("'did you mean' hint chosen with min_by_key over a HashMap's keys", "a call of an undefined macro while two defined macros are equally close"),
 "C17-F": ("thread-local cache of parsed macro expansions keyed by the substituted body text and segment address", "two builds on one thread sharing a macro letter for letter whose body reads a symbol that differs"),
 "C18-E": ("records streamed through a BufWriter that is dropped without flush", "an output that opens but rejects writes, and a hex text below 8 KiB"),
 "C18-F": ("the verbose summary is printed before the files are written; integer percentages divide by the RAM size", "`-v` and a device without RAM (ATtiny11 ...)"),
 # ---- round 4 (as round 3, plus: the ideas of rounds 1-3 were listed as taken) ----
 "C01-G": ("pass 2 no longer walks data segments", "a `.set`, `.def` or `.undef` standing in `.dseg`, used by a later instruction (binding rules: C10's subject, caught there)"),
 "C01-H": ("symbol names folded once per lookup; the alias lookup from the instruction encoder still passes the name as written", "a `.def` alias written with a capital letter where it is used (aliases: C10's subject, caught there)"),
 "C02-G": ("EEPROM `.byte` sized by the absolute address (`resize(cur_address)`) in pass 2", "a `.byte` in an EEPROM block that does not start at address 0"),
 "C02-H": ("`.device` predefines ramend, flashend, sram_start ... as built-in symbols, which are looked up before labels", "a `.device` line and a label named like one of them"),
 "C03-G": ("`.db` strings sized in characters in pass 1, emitted as bytes in pass 2", "a `.db` string with a non-ASCII character between a branch and its label"),
 "C03-H": ("`pc` refreshed only after an instruction, not after data", "a pc-relative operand in the first instruction after data in the code segment"),
 "C04-G": ("the value of an expression-defined `.equ` is remembered after its first evaluation", "an operand written through an `.equ` over a `.set` variable, used before and after the variable changes to a value the field cannot hold"),
 "C04-H": ("new reduced-core rows (ATtiny4/5/9/40); the one-word lds/sts bound is taken from the device's RAM extent", "`.device ATtiny40` and an lds/sts address in 0xc0..0x13f"),
 "C05-G": ("upper-case radix prefixes accepted through a shared helper that also strips a prefix from the digits of a `$` literal", "a `$`-hex literal whose first two digits are `0b`"),
 "C05-H": ("`.equ` binds known constants at its definition with a tree walker that also rewrites function names", "a constant named like a built-in function, above another `.equ` that calls that function and mentions a later label"),
 "C06-G": ("pass 0 decides by a 'stand-in segment received items' flag whether an expansion continues the caller's segment", "data directives in a macro whose body begins with `.eseg`, called at address 0 of the code segment (macro expansion: C09's subject, caught there)"),
 "C06-H": ("hex and binary literals parsed as u64 and cast to i64", "a literal of 2^63 or more in a narrower data directive"),
 "C07-G": ("data records consisting only of 0xFF are left out of the HEX text", "a 16-byte-aligned run of 0xFF in either image"),
 "C07-H": ("'atomic' write: scratch file named by the process id, then rename over the target", "two writer calls overlapping in time in one directory (and any target that must not be replaced, such as a device node)"),
 "C08-G": ("new 'argument missing' error checked on the raw macro body, before its conditionals are evaluated", "a macro body whose unselected arm uses an argument the call does not pass (macro expansion: caught by C09 and C14)"),
 "C08-H": ("multi-line `/* */` comments through a pre-pass over the whole file, before conditionals are skipped", "prose containing `/*` in an unselected arm"),
 "C09-G": ("identifiers are rendered lower-cased when an argument is pasted into the body", "a capitalised name passed as argument and used as a name (`.ifdef @0`, `.define @0`, `.device @0`)"),
 "C09-H": ("arguments substituted only up to the first `;` of a body line", "a `;` inside a character or string literal before a parameter on the same body line"),
 "C10-G": ("`&&` / `||` stop at the left operand when it decides", "an undefined name on the side that does not decide"),
 "C10-H": ("`.set` enters its name with a placeholder 0 before evaluating the value", "the first `.set` of a name whose value mentions that name"),
 "C11-G": ("`.includepath` directories are normalised lexically; a `..` with nothing left to pop is dropped", "the main file named by a bare relative path and an `.includepath` that climbs above it"),
 "C11-H": ("source files are read through `take(1 << 20)`", "an included file larger than 1 MiB"),
 "C12-G": ("new range check at `.org` with `>=` against the memory size", "`.org` exactly at the capacity followed only by a label"),
 "C12-H": ("`.csegsize` implemented for the AT94K; a value given before `.device` is applied to whatever device follows", "`.csegsize 16` before the `.device` line of another part"),
 "C13-G": ("device gate rewritten per option with a wildcard arm that swallows NoElpmX", "`.device ATmega103` and `elpm Rd, Z(+)`"),
 "C13-H": ("`.csegsize` rebuilds the AT94K's device record with an empty restriction set", "`.device AT94K`, a valid `.csegsize`, then an instruction the AT94K lacks"),
 "C14-G": ("new 'parameter not passed' error that scans comments and strings of macro body lines", "a comment mentioning `@N` on a body line of a macro called with fewer arguments"),
 "C14-H": ("mnemonic case folded into a 5-byte stack buffer", "`FMULSU` / `EICALL` written with an upper-case letter"),
 "C15-G": ("`.def` / `.undef` / `.set` of data segments handled in a short-cut loop whose `?` drops the line", "such a fault standing in `.dseg`"),
 "C15-H": ("friendlier syntax-error text with a 24-byte excerpt sliced by bytes", "a faulty line with a multi-byte character straddling byte 24 behind the failure point"),
 "C16-G": ("the nesting pre-scan treats backslash-quote as an escaped quote, the grammar does not", "a string operand ending in a backslash, followed on the same line by a deeply nested operand"),
 "C16-H": ("single-pass argument substitution that takes 'the next byte' after `@` with split_at(1)", "an `@` directly before a non-ASCII character on a body line of a macro called with arguments"),
 "C17-G": ("include directories handed from parse_file to pass 0 through a thread-local that parse_str never clears", "a file build with an include directory, then a text build whose macro body includes a file found only there"),
 "C17-H": ("repeated messages removed through a HashSet when any message occurs twice", "a build with a duplicated message and at least two distinct ones"),
 "C18-G": ("relative `-o` / `-e` paths are resolved next to the source", "a relative `-o` and a source path with a directory part"),
 "C18-H": ("the result of the EEPROM write overwrites the result of the flash write", "flash output unwritable, EEPROM output writable, both images non-empty"),
}
MATRIX = {}
for mf in ("matrix.json", "matrix3.json", "matrix4.json", "matrix4b.json"):
    if os.path.exists(os.path.join(ROOT, "seeded", mf)):
        for k, v in json.load(open(os.path.join(ROOT, "seeded", mf))).items():
            if not k.startswith("_") and isinstance(v, dict) and "error" not in v:
                MATRIX.setdefault(k, {}).update(v)
rows = []
for sid in sorted(M):
    d = os.path.join(ROOT, "seeded", sid)
    if not os.path.isdir(d):
        continue
    ev = json.load(open(os.path.join(d, "eval.json"))) if os.path.exists(os.path.join(d, "eval.json")) else {}
    conf = ev.get("confirm", {})
    det = dict(ev.get("detect", {}))
    if isinstance(MATRIX.get(sid), dict) and "error" not in MATRIX[sid]:
        # the full matrix (tools/seed_matrix_iso.py) is newer than the single detect runs
        for k, v in MATRIX[sid].items():
            det[k] = {"exit": v.get("exit"), "violations": v.get("violating_keys"), "first_keys": [v.get("first_key")], "source": "matrix"}
    caught = sorted(k for k, v in det.items() if isinstance(v, dict) and v.get("exit") == 1)
    quiet = sorted(k for k, v in det.items() if isinstance(v, dict) and v.get("exit") == 0)
    broken = sorted(k for k, v in det.items() if isinstance(v, dict) and v.get("exit") not in (0, 1))
    meta = {
        "id": sid,
        "breaks_property": sid.split("-")[0],
        "author": "independent sub-agent that saw only the property's text and its own scratch worktree",
        "change": M[sid][0],
        "needs_to_manifest": M[sid][1],
        "ported_to_current_head": os.path.exists(os.path.join(d, "patch_original.diff")),
        "confirmed_in_scratch_worktree": {
            "at_repo_head": conf.get("head"),
            "patch_applies": conf.get("applies"),
            "existing_suite": conf.get("suite_with_patch"),
            "demo_fails_with_patch": conf.get("demo_with_patch_fails"),
            "demo_passes_without_patch": conf.get("demo_without_patch_passes"),
            "commands": ["git apply patch.diff", "cargo test --offline", "cp demo.rs tests/seed_demo.rs && cargo test --offline --test seed_demo", "git checkout -- . && cargo test --offline --test seed_demo"],
        },
        "checks_run_against_it": {"how": "git -C /repo apply patch.diff; ./run <check> quick; git -C /repo checkout -- .", "caught_by": caught, "quiet": quiet, "machinery_exit_2": broken,
                                  "first_violation_of_target_check": ((det.get(sid.split("-")[0], {}) or {}).get("first_keys") or [None])[0] if det.get(sid.split("-")[0]) else None},
    }
    json.dump(meta, open(os.path.join(d, "meta.json"), "w"), indent=1)
    rows.append((sid, M[sid][1], caught, broken))
print("| seeded change | what it needs to manifest | caught by (quick tier) |")
print("|---|---|---|")
for sid, needs, caught, broken in rows:
    tgt = sid.split("-")[0]
    c = ", ".join(("**%s**" % k) if k == tgt else k for k in caught) or "—"
    if broken:
        c += " (exit 2: %s)" % ", ".join(broken)
    print("| %s | %s | %s |" % (sid, needs, c))
