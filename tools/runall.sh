#!/bin/bash
# runs every claimed check at the given tier and prints one summary line each
TIER="${1:-quick}"
cd "$(dirname "$0")/.."
for p in $(python3 -c "import json;print(' '.join(c['property_id'] for c in json.load(open('MANIFEST.json'))['checks']))"); do
  s=$(date +%s.%N)
  out=$(./run $p $TIER 2>&1); rc=$?
  e=$(date +%s.%N)
  printf "%s rc=%d %6.1fs  %s\n" $p $rc $(echo "$e - $s" | bc) "$(echo "$out" | tail -1 | cut -c1-150)"
done
