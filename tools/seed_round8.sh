#!/bin/bash
# import round-5 deliverables (/tmp/seed8_Cxx/{A,B}) as seeded/Cxx-{I,J}; confirm them in scratch
# worktrees (4 at a time); then run the target property's quick check against each (patching /repo,
# then undoing it) one after the other
cd /verif
ids=()
for prop in "$@"; do
  for ab in A:N; do
    src=/tmp/seed8_$prop/${ab%:*}; id=$prop-${ab#*:}
    [ -f $src/patch.diff ] || { echo "=== $id: no deliverable"; continue; }
    mkdir -p seeded/$id; cp $src/patch.diff $src/demo.rs $src/README.md seeded/$id/ 2>/dev/null
    ids+=($id)
  done
  [ -f /tmp/seed8_$prop/PREEXISTING.md ] && cp /tmp/seed8_$prop/PREEXISTING.md seeded/PREEXISTING-round8-$prop.md
done
confirm_one() {
  id=$1; slot=$2
  SEED_EVAL_TARGET=/tmp/seed_eval_target_$slot python3 tools/seed_eval.py confirm /verif/seeded/$id > .scratch/confirm_$id.json 2>&1
  python3 -c "import json,sys;d=json.load(open('.scratch/confirm_$id.json'));print('$id confirm', {k:d.get(k) for k in ['applies','suite_passes','demo_with_patch_fails','demo_without_patch_passes','confirmed']})"
}
i=0
for id in "${ids[@]}"; do
  confirm_one $id $((i % 6)) &
  i=$((i+1))
  if [ $((i % 6)) -eq 0 ]; then wait; fi
done
wait
