#!/usr/bin/env python3
"""Confirm a seeded property-breaking change and run the checks against it.

  seed_eval.py confirm <seed_dir>          # in a scratch worktree: compiles, suite passes, demo fails with / passes without
  seed_eval.py detect  <seed_dir> <Cxx> [more checks...] [--tier quick|thorough]
                                           # git -C /repo apply; ./run <check>; git -C /repo checkout -- .

<seed_dir> holds patch.diff and demo.rs.  Results are printed as JSON (and merged into <seed_dir>/eval.json).
"""
import json, os, subprocess, sys, shutil, time

ENV = dict(os.environ, CARGO_TARGET_DIR_EVAL="/tmp/seed_eval_target")

def sh(cmd, cwd=None, timeout=3600, cargo_target=None):
    env = dict(os.environ)
    if cargo_target:
        env["CARGO_TARGET_DIR"] = cargo_target
    p = subprocess.run(cmd, shell=True, cwd=cwd, capture_output=True, text=True, timeout=timeout, env=env)
    return p.returncode, p.stdout + p.stderr

def merge(seed, d):
    f = os.path.join(seed, "eval.json")
    cur = json.load(open(f)) if os.path.exists(f) else {}
    cur.update(d)
    json.dump(cur, open(f, "w"), indent=1)

def confirm(seed):
    wt = "/tmp/wt_eval_%d" % os.getpid()
    sh("git -C /repo worktree remove --force %s" % wt)
    rc, out = sh("git -C /repo worktree add -q --detach %s HEAD" % wt)
    res = {"head": sh("git -C /repo rev-parse --short HEAD")[1].strip()}
    try:
        patch = os.path.abspath(os.path.join(seed, "patch_newhead.diff" if os.path.exists(os.path.join(seed, "patch_newhead.diff")) else "patch.diff"))
        rc, out = sh("git apply --check %s && git apply %s" % (patch, patch), cwd=wt)
        res["applies"] = rc == 0
        if rc != 0:
            res["apply_output"] = out[-600:]
            return res
        T = os.environ.get("SEED_EVAL_TARGET", "/tmp/seed_eval_target")
        rc, out = sh("cargo test --offline 2>&1 | grep -E '^test result|error(\\[|:)' | head -5", cwd=wt, cargo_target=T)
        res["suite_with_patch"] = out.strip().splitlines()[0] if out.strip() else "no output"
        res["suite_passes"] = "67 passed; 0 failed" in out
        shutil.copy(os.path.join(seed, "demo.rs"), os.path.join(wt, "tests", "seed_demo.rs"))
        rc1, out1 = sh("cargo test --offline --test seed_demo 2>&1 | tail -15", cwd=wt, cargo_target=T)
        res["demo_with_patch_fails"] = ("test result: FAILED" in out1) or ("panicked" in out1 and "test result: ok" not in out1)
        res["demo_with_patch_tail"] = out1[-500:]
        os.remove(os.path.join(wt, "tests", "seed_demo.rs"))
        sh("git checkout -- . && git clean -fdq tests", cwd=wt)
        shutil.copy(os.path.join(seed, "demo.rs"), os.path.join(wt, "tests", "seed_demo.rs"))
        rc2, out2 = sh("cargo test --offline --test seed_demo 2>&1 | tail -8", cwd=wt, cargo_target=T)
        res["demo_without_patch_passes"] = "test result: ok" in out2 and "FAILED" not in out2
        if not res["demo_without_patch_passes"]:
            res["demo_without_patch_tail"] = out2[-500:]
        res["confirmed"] = bool(res["suite_passes"] and res["demo_with_patch_fails"] and res["demo_without_patch_passes"])
    finally:
        sh("git -C /repo worktree remove --force %s" % wt)
        shutil.rmtree(wt, ignore_errors=True)
    return res

def detect(seed, checks, tier):
    patch = os.path.abspath(os.path.join(seed, "patch_newhead.diff" if os.path.exists(os.path.join(seed, "patch_newhead.diff")) else "patch.diff"))
    rc, out = sh("git -C /repo status --porcelain")
    if out.strip():
        return {"error": "/repo working tree is not clean: " + out}
    rc, out = sh("git -C /repo apply %s" % patch)
    if rc != 0:
        return {"error": "patch does not apply to /repo: " + out[-400:]}
    res = {}
    try:
        for c in checks:
            t = time.time()
            rc, out = sh("./run %s %s" % (c, tier), cwd="/verif", timeout=7200)
            viol = [l for l in out.splitlines() if l.startswith("VIOLATION")]
            keys = [l.strip() for l in out.splitlines() if l.startswith("  key=")]
            res[c] = {"exit": rc, "violations": len(viol), "first_keys": [k[:300] for k in keys[:3]], "seconds": round(time.time() - t, 1), "tier": tier,
                      "tail": out.strip().splitlines()[-1][:200] if out.strip() else ""}
    finally:
        # also remove files the patch created (ignored build output stays)
        sh("git -C /repo checkout -- . && git -C /repo clean -fdq")
    return res

def main():
    mode, seed = sys.argv[1], sys.argv[2]
    if mode == "confirm":
        r = confirm(seed)
        merge(seed, {"confirm": r})
    else:
        args = sys.argv[3:]
        tier = "quick"
        if "--tier" in args:
            i = args.index("--tier"); tier = args[i + 1]; del args[i:i + 2]
        r = detect(seed, args, tier)
        f = os.path.join(seed, "eval.json")
        cur = json.load(open(f)) if os.path.exists(f) else {}
        d = cur.get("detect", {})
        for k, v in r.items():
            d[k + ("" if tier == "quick" else ":" + tier)] = v
        merge(seed, {"detect": d})
    print(json.dumps(r, indent=1))

main()
