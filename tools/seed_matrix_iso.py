#!/usr/bin/env python3
"""Every seeded change against every check (quick tier), in an isolated copy.

  seed_matrix_iso.py [--out seeded/matrix.json] [--seeds C01-A,C01-B,...] [--checks C01,C02,...] [--threads N] [--own] [--mx DIR]
  (--own: every seed against the check of its own property only)

The matrix takes hours; so that /repo and /verif stay usable meanwhile it works on a scratch git
worktree of /repo (/tmp/mx/repo, at HEAD) and a copy of /verif (/tmp/mx/verif) whose harness depends
on that worktree. Per seed: git apply <patch> in the worktree, ./run <check> quick for every check,
git checkout -- . && git clean. Nothing is ever applied to /repo; /tmp/mx is removed at the end.
The single-seed tool that follows the brief literally (apply to /repo, run, undo) is seed_eval.py.
"""
import json, os, subprocess, sys, shutil, time

MX = sys.argv[sys.argv.index("--mx") + 1] if "--mx" in sys.argv else "/tmp/mx"
ROOT = os.path.dirname(os.path.dirname(os.path.abspath(__file__)))

def sh(cmd, cwd=None, timeout=7200, env=None):
    e = dict(os.environ)
    if env:
        e.update(env)
    p = subprocess.run(cmd, shell=True, cwd=cwd, capture_output=True, text=True, timeout=timeout, env=e)
    return p.returncode, p.stdout + p.stderr

def arg(name, default):
    return sys.argv[sys.argv.index(name) + 1] if name in sys.argv else default

def main():
    out_file = os.path.join(ROOT, arg("--out", "seeded/matrix.json"))
    threads = arg("--threads", "8")
    manifest = json.load(open(os.path.join(ROOT, "MANIFEST.json")))
    checks = arg("--checks", ",".join(c["property_id"] for c in manifest["checks"])).split(",")
    all_seeds = sorted(d for d in os.listdir(os.path.join(ROOT, "seeded")) if os.path.exists(os.path.join(ROOT, "seeded", d, "patch.diff")))
    seeds = arg("--seeds", ",".join(all_seeds)).split(",")

    sh("git -C /repo worktree remove --force %s/repo" % MX)
    shutil.rmtree(MX, ignore_errors=True)
    os.makedirs(MX)
    rc, out = sh("git -C /repo worktree add -q --detach %s/repo HEAD" % MX)
    if rc != 0:
        print("cannot create worktree:", out); return 2
    head = sh("git -C /repo rev-parse --short HEAD")[1].strip()
    sh("rsync -a --exclude .git --exclude .build --exclude .scratch --exclude replays --exclude evidence %s/ %s/verif/" % (ROOT, MX))
    # the copy's harness depends on the worktree, and its run script builds the CLI from it
    for f, a, b in [("harness/Cargo.toml", 'path = "/repo"', 'path = "%s/repo"' % MX), ("run", "cd /repo &&", "cd %s/repo &&" % MX)]:
        p = os.path.join(MX, "verif", f)
        s = open(p).read()
        assert a in s, (f, a)
        open(p, "w").write(s.replace(a, b))
    env = {"REPO_ROOT": MX + "/repo", "RAYON_NUM_THREADS": threads}
    rc, out = sh("nice -n 10 ./run setup", cwd=MX + "/verif", env=env)
    print("setup exit", rc, out.strip().splitlines()[-1:] , flush=True)
    if rc != 0:
        return 2
    result = json.load(open(out_file)) if os.path.exists(out_file) else {}
    result.setdefault("_info", {})
    result["_info"].update({"repo_head": head, "tier": "quick", "how": "isolated copy (tools/seed_matrix_iso.py); exit 0 = quiet, 1 = VIOLATION reported, 2 = machinery error"})
    # unchanged tree first: every check must be quiet
    base = {}
    for c in checks:
        rc, out = sh("nice -n 10 ./run %s quick" % c, cwd=MX + "/verif", env=env)
        base[c] = rc
    result["_unchanged_tree"] = base
    print("unchanged tree:", base, flush=True)
    try:
        for s in seeds:
            patch = os.path.join(ROOT, "seeded", s, "patch.diff")
            rc, out = sh("git apply %s" % patch, cwd=MX + "/repo")
            if rc != 0:
                result[s] = {"error": "patch does not apply: " + out[-300:]}
                print(s, "DOES NOT APPLY", flush=True)
                continue
            row = {}
            t0 = time.time()
            for c in ([s[:3]] if "--own" in sys.argv else checks):
                rc, out = sh("nice -n 10 ./run %s quick" % c, cwd=MX + "/verif", env=env)
                keys = [l.strip()[:240] for l in out.splitlines() if l.startswith("  key=")]
                row[c] = {"exit": rc, "violating_keys": len([l for l in out.splitlines() if l.startswith("VIOLATION")]), "first_key": keys[0] if keys else None}
                if rc not in (0, 1):
                    row[c]["tail"] = out.strip()[-400:]
            sh("git checkout -- . && git clean -fdq", cwd=MX + "/repo")
            result[s] = row
            json.dump(result, open(out_file, "w"), indent=1)
            print("%s %4.0fs  %s" % (s, time.time() - t0, " ".join("%s:%d" % (c, row[c]["exit"]) for c in row if row[c]["exit"] != 0)), flush=True)
    finally:
        sh("git -C /repo worktree remove --force %s/repo" % MX)
        shutil.rmtree(MX, ignore_errors=True)
        sh("git -C /repo worktree prune")
    print("MATRIX-DONE")
    return 0

if __name__ == "__main__":
    sys.exit(main())
