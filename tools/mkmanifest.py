#!/usr/bin/env python3
"""Regenerates /verif/MANIFEST.json from the table below (one entry per claimed property)."""
import json, os, sys
ROOT = os.path.dirname(os.path.dirname(os.path.abspath(__file__)))
ALL = ["C%02d" % i for i in range(1, 19)]

CHECKS = {
 "C01": dict(cat="exploration", engine="E1",
   technique="bounded-exhaustive enumeration of the complete legal operand space (12.7 M cases) on the real assembler against an independent ISA encoder/decoder",
   text="Every legal operand tuple of every mnemonic (full core incl. the complete 2^16 lds/sts and 2^22 jmp/call address spaces; reduced-core lds/sts) is assembled by the real build_str and compared byte for byte with an independent encoder whose output an independent decoder maps back to what was written; all ordered pairs (thorough: triples) of mnemonic classes are also assembled adjacently. The space is finite and visited completely, so within 'canonical spelling' this decides the property rather than sampling it.",
   note="Trusted: harness isa.rs (encoder and decoder written from the Instruction Set Manual, cross-validated over all 2^16 first words on both cores and against the byte vectors pinned in the repository's tests). Operands are written in canonical spelling only (C14 covers respelling).",
   ref="3/C01"),
}

NOT_YET = "check not built yet in this revision of the machinery (planned, see DESIGN.md section 3)"

def main():
    checks = []
    for pid in ALL:
        c = CHECKS.get(pid)
        if not c: continue
        checks.append({
            "property_id": pid,
            "quick_cmd": "./run %s quick" % pid,
            "thorough_cmd": "./run %s thorough" % pid,
            "evidence_file": "/verif/evidence/%s.json" % pid,
            "replay_cmd_template": "./run replay {path}",
            "engine": c["engine"],
            "level_claimed": {"category": c["cat"], "text": c["text"], "design_ref": "DESIGN.md section " + c["ref"]},
            "level_note": c["note"],
            "technique": c["technique"],
        })
    m = {
        "version": 1,
        "setup_cmd": "./run setup",
        "hooks": {
            "guard": "cargo feature verif-hooks (off by default)",
            "enable": "the harness depends on avra-rs = { path = \"/repo\", features = [\"verif-hooks\"] }; every ./run rebuilds it from /repo's working tree",
            "baseline_off_cmd": "cd /repo && cargo test --workspace --no-fail-fast --offline",
            "source_commits": json.load(open(os.path.join(ROOT, "tools", "hook_commits.json"))),
            "add_only": True,
        },
        "engines": [
            {"name": "E1", "path": "harness/src/batch.rs", "serves_properties": ["C01","C03","C04","C05","C06","C07","C12","C13"], "kind_free_text": "exhaustive enumerator of finite case spaces on the real code, batch packing with one-per-build localisation"},
            {"name": "E2", "path": "harness/src/mc.rs", "serves_properties": ["C02","C08","C09","C10","C11","C17"], "kind_free_text": "explicit-state exploration of a reference model (stateright BFS, state cover) + conformance replay of P.Sigma^<=k on the real code"},
            {"name": "E3", "path": "harness/src/deviate.rs", "serves_properties": ["C14","C15","C10","C16"], "kind_free_text": "deviation-bounded explorer: corpus x sites x alternatives, distance 1 then 2"},
            {"name": "E4", "path": "harness/src/sched.rs", "serves_properties": ["C17"], "kind_free_text": "controlled scheduler over hook points, stateless DFS with preemption bound"},
            {"name": "E5", "path": "harness/src/sandbox.rs", "serves_properties": ["C16","C18","C17"], "kind_free_text": "process-level driver: sandboxed worker pool, CLI runner with fault-injected output locations, fresh-process baselines"},
        ],
        "checks": checks,
        "notes": "exit 0 = held on everything explored (KNOWN-FINDING lines for findings listed in known_findings.json); exit 1 + VIOLATION line = unlisted violation; exit 2 = machinery failure, never a verdict. See DESIGN.md.",
        "not_applicable": [{"property_id": p, "reason": NOT_YET} for p in ALL if p not in CHECKS],
    }
    json.dump(m, open(os.path.join(ROOT, "MANIFEST.json"), "w"), indent=1)
    print("MANIFEST.json written:", len(checks), "checks,", len(m["not_applicable"]), "not claimed")

main()
