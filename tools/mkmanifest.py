#!/usr/bin/env python3
"""Regenerates /verif/MANIFEST.json from the table below (one entry per claimed property)."""
import json, os, sys
ROOT = os.path.dirname(os.path.dirname(os.path.abspath(__file__)))
ALL = ["C%02d" % i for i in range(1, 19)]

CHECKS = {
 "C02": dict(cat="model_checking", engine="E2",
   technique="explicit-state exploration (stateright BFS) of a layout reference model + conformance replay of every trace in P.Sigma^<=k on the real build_str",
   text="The layout reference model (three location counters, segment switching, .org, item sizes, padding, zero fill, label values, ram_filling) is explored breadth-first with state deduplication to depth N1; every trace of (state cover) x (all enabled action sequences of length <= k) is rendered to source, built by the real assembler and compared in full (both images, ram_filling, label table, Ok/Err) with the model's prediction, per device. Chow-style: exposes every fault of an implementation with up to k-1 more states than the model, within the action alphabet.",
   note="Trusted: the layout model and the ISA reference for instruction bytes; stateright 0.31 BFS run single-threaded (deterministic shortest access traces). Bounds: N1 = 4 / 5, k = 2 / 3; devices none, ATmega48, ATtiny20 (+ATtiny13, ATmega2560 thorough). Corners the statement does not pin (.org into an earlier gap, .dseg .org below RAM start, RAM extent after a trailing .org) are not generated or accepted either way.",
   ref="3/C02"),
 "C03": dict(cat="exploration", engine="E1",
   technique="bounded-exhaustive enumeration of (instruction kind x target form x placement x every distance across both range limits x filler sequence) on the real assembler, decoded by the independent decoder",
   text="36 instruction kinds x 4 ways of naming the target x 4 base placements x every displacement in windows across and beyond both limits, with all 1555 filler sequences of <=4 items (one/two-word items, odd data, .org gaps) rotated through; the build must succeed iff the displacement fits, and the emitted word must decode to the same condition and a displacement that reaches exactly the model address of the target.",
   note="Trusted: isa::decode/canonical and the generator's address bookkeeping. Default device only (wrap-around jumps are an AVRASM extension the statement does not claim).",
   ref="3/C03"),
 "C04": dict(cat="exploration", engine="E1",
   technique="bounded-exhaustive enumeration of illegal operand tuples (register classes, numeric windows beyond both range ends, operand-kind and operand-count confusions) against the independent ISA encoder's legality verdict",
   text="For every mnemonic: each register position x r0..r31, each numeric field x a window well beyond both ends of its legal range plus extremes up to +-(2^63-1), each position x each operand kind, operand counts 0..3, on no device, the reduced core and a Tiny1x device, one case per build. If the reference can encode it the result must be exactly those bytes; if not, the build must not succeed.",
   note="Trusted: isa::encode's legality (self-checked against the decoder). Leniency: ld/ldd/st/std written with the sibling's addressing form are accepted iff the bytes are the sibling's encoding of exactly that operand. A caught panic counts as rejected here and is reported by C16.",
   ref="3/C04"),
 "C05": dict(cat="exploration", engine="E1",
   technique="bounded-exhaustive enumeration of expression trees (all operator pairs, both groupings, unary placements, boundary grid, literal spellings) evaluated by the real assembler against a checked-i64 reference evaluator",
   text="All trees with <=2 binary operators (18x18 ordered pairs, both groupings, rendered with minimal parentheses so that precedence and associativity are decided by the tool's parser), unary placements, every operator on a 25x25 boundary grid up to i64 min/max, every function, 33 values x 7 radix spellings, symbols and labels; thorough adds all 3-operator trees. Each is observed through .dq as a 64-bit value or a build failure.",
   note="Trusted: exprm::eval (checked against Rust's operators) and exprm::render (render->parse identity with an independent parser). Corners the statement does not pin (shift counts outside 0..63, >> of negatives, exp2 outside 0..62, MIN % -1) accept any listed value or an error, never a panic.",
   ref="3/C05"),
 "C06": dict(cat="exploration", engine="E1",
   technique="bounded-exhaustive enumeration of operand lists and directive sequences on the real assembler against a reference emitter",
   text="4 directives x every operand list of length <=3 (4) over a 16-symbol alphabet (values at and beyond both ends of each width, symbols, forward label, expression, empty/ASCII/punctuated/non-ASCII strings) x {cseg, eseg, dseg}, plus all sequences of <=3 (4) data lines and reservations per segment; expected bytes (order, little-endian, width, one pad byte per odd .db line in flash only) or a build failure come from a reference emitter.",
   note="Trusted: the 60-line reference emitter in c06.rs. An empty operand list is not generated (not pinned).",
   ref="3/C06"),
 "C07": dict(cat="exploration", engine="E1",
   technique="bounded-exhaustive enumeration of image lengths (all small lengths, all lengths around every 64 KiB boundary up to the largest flash) written by the real writers and decoded by an independent strict Intel HEX reader",
   text="Every image length 0..600 and every length within +-17 of each 64 KiB boundary up to the largest flash in the device table, three content patterns (a position hash exposes any misplaced byte), both writers, the other image empty and non-empty; each file must consist solely of well-formed 00/01/02/04 records with valid checksums, one EOF last, and decode to exactly the image.",
   note="Trusted: ihex::decode (self-checked on the vectors pinned in the repository's writer tests and on seven kinds of malformed file). Files are written under /verif/.scratch and removed.",
   ref="3/C07"),
 "C08": dict(cat="model_checking", engine="E2",
   technique="explicit-state exploration (stateright BFS) of the conditional-assembly stack machine + conformance replay of every trace in P.Sigma^<=k on the real build_str, three-way oracle",
   text="The reference stack machine (frames of parent/taken/active/else_seen) is explored with deduplication; every trace of state cover x all enabled directive sequences of length <= k (19 actions: .if/.ifdef/.ifndef/#-spellings with true and false conditions on literals, .equ constants and .define flags, .elif, .else, .endif, conditions that must not be evaluated) is rendered with observable payloads in selected arms and rotating poison (invalid text, .error, duplicate label, undefined symbol, missing include, shadowing .equ, .device, .define) in unselected ones; result(program) must equal result(program with unselected lines deleted) and the model image and message markers.",
   note="Trusted: the stack machine of DESIGN.md appendix C, the ISA reference for ldi. Bounds: N1 = 6 / 9, k = 3 / 4, nesting <= 3 / 4. Well-formed structure only.",
   ref="3/C08"),
 "C09": dict(cat="model_checking", engine="E2",
   technique="explicit-state exploration (stateright BFS) of a macro-table model + conformance replay of P.Sigma^<=k: build(macro program) == build(hand-expanded program)",
   text="Actions are definitions (10 macro families: expression round trip, @n inside a larger expression, registers and pointer forms, displacement expressions, ten parameters, three-level nesting with swapped/extended arguments, conditionals on parameters, bodies that switch to dseg/eseg and back) in three letter cases, calls with argument sets covering every binary operator at top level, parenthesised sub-expressions, unary forms, functions, radix and char literals, calls before the definition, calls of undefined macros and calls omitting a used argument. The harness expands every call semantically (expression arguments by value) and both programs are built by the real assembler and compared on both images and ram_filling; Err iff the model says the call is invalid.",
   note="Trusted: the harness's expander and exprm::render. Where @n sits inside a larger expression only atomic / fully parenthesised arguments are used so that textual and value substitution agree. Bounds: N1 = 2 / 3, k = 2.",
   ref="3/C09"),
 "C10": dict(cat="model_checking", engine="E2+E3",
   technique="explicit-state exploration (stateright BFS) of the symbol-table model + conformance replay of P.Sigma^<=k, plus every single-definition deletion and label duplication of each building trace",
   text="The symtab model (labels and .equ program-wide, .set = latest preceding assignment, .def visible until .undef, all names compared lower-cased) predicts the image or a failure for every sequence of 66 actions (define / redefine / undefine / use from instructions and data, each occurrence in lower, UPPER or Mixed case, uses before definitions); all traces of state cover x Sigma^<=2 are built by the real assembler, and for every trace that builds, each single deletion of a defining line and each duplication of a label line (in each case) is built and compared with the model too.",
   note="Trusted: the symtab model of DESIGN.md appendix C; ISA reference for ldi/mov. Disjoint name pools; .equ redefinition, .def of a bound alias and .undef of an unbound name are not pinned and never generated. Bounds: N1 = 4 / 5, k = 2.",
   ref="3/C10"),
 "C11": dict(cat="exploration", engine="E2 (configuration enumeration)",
   technique="bounded-exhaustive enumeration of file-tree configurations (real directory trees) against build_str of the flattened text",
   text="4 base programs with cross-boundary dependencies x every way of cutting contiguous unit blocks into <= 2 (3) include files (one include, nested, siblings) x every location kind per include edge (same directory, sub-directory in the path, caller-supplied directory, relative and absolute .includepath in the includer, .includepath inside a previously included file, absolute path, nowhere) x .exit at the end of the innermost file, plus a subset with the main file given relative to the current directory. build_file on the real tree must equal build_str of the harness's flattening (images, sizes, ram_filling, message markers and order); a file that exists nowhere must fail with an error naming it.",
   note="Trusted: the harness's flattening of the virtual file tree. Every file name is unique, so precedence among several hits is never exercised; files are cut only at unit boundaries. Claimed as exploration (a configuration space, not a transition system): DESIGN.md section 9 is updated accordingly.",
   ref="3/C11"),
 "C14": dict(cat="exploration", engine="E3",
   technique="deviation-bounded metamorphic exploration: every meaning-free rewrite site singly (distance 1), every rewrite group globally, all 2^k group combinations, thorough all pairs of sites",
   text="On a corpus covering every construct of the grammar plus programs rendered from the C08/C10 models, the harness's lexer finds every site of 28 rewrite kinds (trailing ; // /* */ comments added and removed, comment-only and blank lines, spaces<->tabs and extra blanks, blanks around commas, binary operators, inside parentheses and before comments, CRLF, letter case of mnemonics, registers, function names, symbol references and hex digits, radix respelling among decimal/$/0x/0b/octal/char). Each rewritten program is built by the real assembler and must give identical images, sizes, ram_filling and messages.",
   note="Trusted: the harness lexer (round-trip checked on every program); the unrewritten build is the reference. Sites the statement does not list are not rewritten (directive case, leading indentation, blanks inside pointer forms or after unary operators, upper-case radix prefixes, macro names, .define flags).",
   ref="3/C14"),
 "C15": dict(cat="exploration", engine="E3",
   technique="deviation-bounded fault injection: every corpus program x every live line position x 17 single-line fault kinds; all 4^5 message placements",
   text="Each fault (syntax error, unknown mnemonic, wrong register class, wrong operand kind, immediate and branch out of range, missing operand, undefined symbol in an instruction / .db / .dw / .set / .if, duplicate label, .db and .dw value out of range, unknown directive, .error) is inserted as one line at every live position of every corpus program; the build must fail and the error text must contain that line's number as a decimal token. All 1024 placements of nothing/.message/.warning/.error over five slots of a conditional skeleton decide: .error fails wherever assembled (naming its line), messages never change the image and are listed in source order with their own line numbers.",
   note="Trusted: the lexer's liveness/segment context and the decimal token match (lines are shifted by 700 comment lines, away from every literal of the corpus).",
   ref="3/C15"),
 "C16": dict(cat="exploration", engine="E1+E3 in E5",
   technique="bounded-exhaustive enumeration of single-line programs (head x operand lists x contexts), structured size ladders and single-token corpus mutations, each executed in a sandboxed worker process (1 GiB, 8 MiB stack, watchdog)",
   text="4.3 M (thorough: far more) distinct source texts: every mnemonic and every directive (both spellings) x every operand list of length 0..2 (3) over a 46-text dictionary of valid, boundary and hostile operands x 10 context prefixes; geometric ladders for every nesting depth, length and magnitude the language has (parentheses, unary and function chains, operator chains, operand lists, lines, labels, strings, numbers, line counts, nested conditionals, .equ chains, macro and include nesting, .org/.byte magnitudes up to 2^63 and negative); every token of every corpus program deleted, duplicated and replaced by every dictionary entry. Every case must return a result or an error value: a panic (by site), abort, stack overflow, allocation beyond 1 GiB or a hang (re-checked alone with 20 s) is a violation.",
   note="Trusted: the worker pool (classification of a dead worker by exit signal and stderr tail). The quantifier's 'random multi-line programs and byte mutations' is sampling and is not claimed (DESIGN.md section 4).",
   ref="3/C16"),
 "C12": dict(cat="exploration", engine="E1",
   technique="exhaustive enumeration of (device row x memory x {capacity-1, capacity, capacity+1} x way of reaching it) and of the shipped part-definition files' declared figures",
   text="Every row of the device table and 'no device' x flash/EEPROM/RAM x one below, at and one above capacity x every way of getting there (.org+item, data blocks, a two-word instruction ending at the limit, .byte n, interleaved segments): Ok, Ok, Err, with ram_filling = data extent and the reported sizes = the row. Every includes/*def.inc is read by the harness's own reader and its four #pragma AVRPART MEMORY figures are compared with what the tool reports/enforces for that device. Unknown and second .device must fail.",
   note="Trusted: the harness's reader of #pragma lines; the device table is the specification for rows without a part file (no frozen copy, so a legitimate correction of a row raises no alarm).",
   ref="3/C12"),
 "C13": dict(cat="exploration", engine="E1",
   technique="exhaustive enumeration of device rows x instruction forms against a flag->forms map (devspec) and the no-device encoding",
   text="Every row of the device table x every instruction form (each mnemonic, each addressing mode of ld/st/ldd/std/lpm/elpm) x operand variants: a form the row's own flags remove must fail; every other form must assemble to exactly the bytes produced with no device (lds/sts on Avr8l rows: the one-word reference encoding). Guards: every flag in the table is known to the devspec and removes at least one enumerated form.",
   note="Trusted: the devspec map written from the flag documentation in DisabledOptions; isa reference for reduced-core lds/sts. NoEspm removes nothing (the tool has no espm mnemonic).",
   ref="3/C13"),
 "C01": dict(cat="exploration", engine="E1",
   technique="bounded-exhaustive enumeration of the complete legal operand space (12.7 M cases) on the real assembler against an independent ISA encoder/decoder",
   text="Every legal operand tuple of every mnemonic (full core incl. the complete 2^16 lds/sts and 2^22 jmp/call address spaces; reduced-core lds/sts) is assembled by the real build_str and compared byte for byte with an independent encoder whose output an independent decoder maps back to what was written; all ordered pairs (thorough: triples) of mnemonic classes are also assembled adjacently. The space is finite and visited completely, so within 'canonical spelling' this decides the property rather than sampling it.",
   note="Trusted: harness isa.rs (encoder and decoder written from the Instruction Set Manual, cross-validated over all 2^16 first words on both cores and against the byte vectors pinned in the repository's tests). Operands are written in canonical spelling only (C14 covers respelling).",
   ref="3/C01"),
}

NOT_YET = "check not built yet in this revision of the machinery (planned, see DESIGN.md section 3)"

def main():
    checks = []
    for pid in ALL:
        c = CHECKS.get(pid)
        if not c: continue
        checks.append({
            "property_id": pid,
            "quick_cmd": "./run %s quick" % pid,
            "thorough_cmd": "./run %s thorough" % pid,
            "evidence_file": "/verif/evidence/%s.json" % pid,
            "replay_cmd_template": "./run replay {path}",
            "engine": c["engine"],
            "level_claimed": {"category": c["cat"], "text": c["text"], "design_ref": "DESIGN.md section " + c["ref"]},
            "level_note": c["note"],
            "technique": c["technique"],
        })
    m = {
        "version": 1,
        "setup_cmd": "./run setup",
        "hooks": {
            "guard": "cargo feature verif-hooks (off by default)",
            "enable": "the harness depends on avra-rs = { path = \"/repo\", features = [\"verif-hooks\"] }; every ./run rebuilds it from /repo's working tree",
            "baseline_off_cmd": "cd /repo && cargo test --workspace --no-fail-fast --offline",
            "source_commits": json.load(open(os.path.join(ROOT, "tools", "hook_commits.json"))),
            "add_only": True,
        },
        "engines": [
            {"name": "E1", "path": "harness/src/batch.rs", "serves_properties": ["C01","C03","C04","C05","C06","C07","C12","C13"], "kind_free_text": "exhaustive enumerator of finite case spaces on the real code, batch packing with one-per-build localisation"},
            {"name": "E2", "path": "harness/src/mc.rs", "serves_properties": ["C02","C08","C09","C10","C11","C17"], "kind_free_text": "explicit-state exploration of a reference model (stateright BFS, state cover) + conformance replay of P.Sigma^<=k on the real code"},
            {"name": "E3", "path": "harness/src/deviate.rs", "serves_properties": ["C14","C15","C10","C16"], "kind_free_text": "deviation-bounded explorer: corpus x sites x alternatives, distance 1 then 2"},
            {"name": "E4", "path": "harness/src/sched.rs", "serves_properties": ["C17"], "kind_free_text": "controlled scheduler over hook points, stateless DFS with preemption bound"},
            {"name": "E5", "path": "harness/src/sandbox.rs", "serves_properties": ["C16","C18","C17"], "kind_free_text": "process-level driver: sandboxed worker pool, CLI runner with fault-injected output locations, fresh-process baselines"},
        ],
        "checks": checks,
        "notes": "exit 0 = held on everything explored (KNOWN-FINDING lines for findings listed in known_findings.json); exit 1 + VIOLATION line = unlisted violation; exit 2 = machinery failure, never a verdict. See DESIGN.md.",
        "not_applicable": [{"property_id": p, "reason": NOT_YET} for p in ALL if p not in CHECKS],
    }
    json.dump(m, open(os.path.join(ROOT, "MANIFEST.json"), "w"), indent=1)
    print("MANIFEST.json written:", len(checks), "checks,", len(m["not_applicable"]), "not claimed")

main()
