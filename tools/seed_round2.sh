#!/bin/bash
cd /verif
for d in seeded/C*-[CD]; do
  id=$(basename $d); prop=${id%-*}
  echo "=== $id confirm"; python3 tools/seed_eval.py confirm $d | python3 -c "import json,sys;d=json.load(sys.stdin);print({k:d.get(k) for k in ['applies','suite_passes','demo_with_patch_fails','demo_without_patch_passes','confirmed']})"
done
for d in seeded/C*-[CD]; do
  id=$(basename $d); prop=${id%-*}
  echo "=== $id detect $prop"; python3 tools/seed_eval.py detect $d $prop | python3 -c "import json,sys;d=json.load(sys.stdin);print({k:(v.get('exit'),v.get('violations'),[x[:160] for x in v.get('first_keys',[])[:1]]) if isinstance(v,dict) else v for k,v in d.items()})"
done
rm -rf /tmp/seed_eval_target
echo ALL-DONE
