#!/bin/bash
# every seeded change against every check (quick tier): which checks catch which
cd /verif
ALL=$(python3 -c "import json;print(' '.join(c['property_id'] for c in json.load(open('MANIFEST.json'))['checks']))")
for d in seeded/C*-[AB]; do
  id=$(basename $d)
  echo "=== $id"; python3 tools/seed_eval.py detect $d $ALL | python3 -c "import json,sys;d=json.load(sys.stdin);print(' '.join('%s:%s'%(k,v.get('exit')) for k,v in d.items()) if 'error' not in d else d)"
done
echo MATRIX-DONE
