#!/bin/bash
# import round-3 deliverables (/tmp/seed3_Cxx/{A,B}) as seeded/Cxx-{E,F}, confirm them in a scratch
# worktree and run the target property's quick check against each (patching /repo, then undoing it)
cd /verif
for prop in "$@"; do
  for ab in A:E B:F; do
    src=/tmp/seed3_$prop/${ab%:*}; id=$prop-${ab#*:}
    [ -f $src/patch.diff ] || { echo "=== $id: no deliverable"; continue; }
    mkdir -p seeded/$id; cp $src/patch.diff $src/demo.rs $src/README.md seeded/$id/ 2>/dev/null
    [ -f /tmp/seed3_$prop/PREEXISTING.md ] && cp /tmp/seed3_$prop/PREEXISTING.md seeded/$id/../$prop-PREEXISTING-round3.md
    echo "=== $id confirm"; python3 tools/seed_eval.py confirm /verif/seeded/$id | python3 -c "import json,sys;d=json.load(sys.stdin);print({k:d.get(k) for k in ['applies','suite_passes','demo_with_patch_fails','demo_without_patch_passes','confirmed']})"
    echo "=== $id detect $prop"; python3 tools/seed_eval.py detect /verif/seeded/$id $prop | python3 -c "import json,sys;d=json.load(sys.stdin);print({k:(v.get('exit'),v.get('violations'),[x[:200] for x in v.get('first_keys',[])[:1]]) if isinstance(v,dict) else v for k,v in d.items()})"
  done
done
